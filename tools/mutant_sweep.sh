#!/bin/bash
# tools/mutant_sweep.sh <out-file> <ID>... : run every hand-made mutant of the given properties
# (tools/mutants/<ID>/*.patch) against the quick tier; one line per mutant.
out="$1"; shift
for id in "$@"; do
  /verif/tools/mutant_trial.sh "$id" /verif/tools/mutants/$id/*.patch 2>&1 | grep -E "EXIT=|DOES NOT APPLY" | sed "s/^/$id /" >> "$out"
done
