#!/usr/bin/env python3
"""Regenerate /verif/MANIFEST.json from the table below (keeps it schema-valid at all times)."""
import json, os, sys
V = os.path.dirname(os.path.dirname(os.path.abspath(__file__)))

# id -> (technique, level text, level note, design section)
P = {
 "C01": ("differential PBT against the host CPU (native single-instruction runner) over table-generated and mutated encodings",
         "generated amd64/x86 encodings x boundary-biased machine states; lifted IL run by the harness' own IL interpreter and compared register-by-register with the processor executing the same bytes",
         "host CPU is the oracle; architecturally undefined results masked per Appendix A; 32-bit mode only on mode-invariant encodings plus a small reference model"),
 "C02": ("differential PBT against reference interpreters written from the MIPS32 / PowerPC manuals, decoding the raw word",
         "template-generated and random instruction words (branch + delay-slot pairs on MIPS) x boundary-biased states; lifted IL vs. manual-derived interpreter",
         "fidelity of the hand-written reference interpreters (self-checked by vectors and algebraic identities)"),
 "C03": ("differential PBT against a reference A64 interpreter written from the Arm ARM pseudocode",
         "template-generated A64 words with every field varied x boundary-biased states",
         "fidelity of the hand-written reference interpreter; CONSTRAINED UNPREDICTABLE forms excluded"),
 "C04": ("PBT against an independent bit-vector algebra (Bv, self-tested exhaustively at widths 1-4)",
         "every Constant method and random expression trees at widths 1..300 with boundary-biased operands, compared with Bv; sort/division errors and panics checked",
         "Bv is defined from mathematical integers and cross-checked against a naive i64 model"),
 "C05": ("PBT / fuzzing with a validity predicate (well-formedness walker + guard determinism under Bv) over random, structured and mutated byte strings",
         "7 translators x 2 option settings x byte strings x load addresses; Err or well-formed deterministic IL; panics, aborts and hangs are violations",
         "guard determinism is sampled over 64 valuations per guard set, not proved"),
 "C06": ("differential PBT: recovered function vs. sequential one-instruction-at-a-time stepping of the same bytes",
         "generated machine-code programs laid out to hit window ends, straddles, mid-block targets and manual edges; structure and executed address/state sequences compared",
         "per-instruction semantics are shared by both sides on purpose (they are C01-C03's business)"),
 "C07": ("model-based PBT: executor::Driver in lock-step with the harness' reference IL interpreter",
         "generated IL programs x initial states (missing scalars, unmapped memory, broken guards); location, scalars, touched memory and fault kind compared after every step",
         "RefIl is the operational semantics as stated by the property"),
 "C08": ("stateful model-based PBT: histories against per-memory byte-map models",
         "interleavings of store/load/clone/set_permissions/eq over clustered addresses, widths 8..256, both endiannesses, with and without backing",
         "page-granular permission model as documented by falcon"),
 "C09": ("differential PBT against naive chaotic iteration (two visiting orders) with harness-defined analyses",
         "generated CFGs x monotone and non-monotone analyses x directions x budgets; least solution, key set and equations compared",
         "analyses are harness-defined lattices of finite height"),
 "C10": ("PBT with a static SSA validity checker and a dynamic lock-step comparison (original vs SSA interpreter)",
         "generated IL functions (loops through entry, unreachable blocks, guard-only uses) x initial states",
         "SSA interpreter evaluates phi nodes in parallel by incoming edge"),
 "C11": ("PBT against brute-force textbook definitions on small digraphs; stateful edit histories against a set model",
         "digraphs with <=12 (thorough <=40) vertices x every root; dominators, frontiers, loops, reducibility, orders by validity predicate",
         "oracles are O(n^3) definitions, independent of Semi-NCA"),
 "C12": ("PBT: concrete executions (reference interpreter) vs. reported reaching definitions / chains, plus static path witness search",
         "generated IL functions x executions; last writer in RD, witness path for each reported def, UD contains last writer, DU is the inverse",
         "calls modelled as returning with havoc"),
 "C13": ("PBT: concrete executions vs. reported constants",
         "generated IL functions (definitely-assigned and arbitrary) x executions; every reported constant and eval() result compared with the running value",
         "calls / intrinsics modelled with oracle-chosen havoc values"),
 "C14": ("metamorphic PBT: input and DCE output executed side by side",
         "generated IL functions x initial states; same path, stores, state at branches/intrinsics and at terminal blocks; shape preserved",
         "same havoc oracle on both sides"),
 "C15": ("stateful PBT with invariants after every step and a metamorphic execution comparison for merge/append",
         "histories of CFG construction/editing operations incl. invalid calls; structural invariants + executed-operation sequences",
         "semantic claims restricted to graphs whose exit block has no out-edges"),
 "C16": ("stateful model-based PBT against a last-writer-wins byte map",
         "histories of set_memory/set32 and reads over a 256-byte window at 4 bases, both endiannesses; every read compared, final sweep, sections disjoint and exact",
         "regions do not wrap the address space"),
 "C17": ("PBT: concrete executions vs. reported stack-pointer offsets on lifted and synthetic functions, 7 architectures",
         "stack idioms per ISA in lines/diamonds/loops; SP_after == SP_entry + offset (mod 2^w) wherever a value is reported; analysis must complete",
         "executions stop at the first Branch/Intrinsic (callee effects are not part of the function)"),
 "C18": ("PBT of relational laws, exhaustive inside each generated program",
         "programs of 1-4 functions; forward/backward converse, enumeration exact, reachability closure, owned-location round trip, address lookup",
         "generator inventory is the ground truth"),
 "C19": ("round-trip PBT: harness-side ELF writer -> loader, model is the ground truth; metamorphic rebasing relation",
         "generated ELF32/64 LSB/MSB images for 5 machines x base addresses; memory, permissions, entries, symbols, linker relocations",
         "only images the writer can express"),
 "C20": ("exhaustive enumeration of the 7 architectures x calling-convention tables against generated register sweeps and transcribed psABI tables",
         "scalar universe collected from lifted register sweeps; descriptors and ABI tables compared",
         "ABI tables transcribed from psABI documents"),
}

BUILT = json.load(open(os.path.join(V, "tools", "built.json")))

checks, na = [], []
for pid in sorted(P):
    tech, text, note = P[pid]
    if pid in BUILT:
        checks.append({
            "property_id": pid,
            "quick_cmd": f"./check {pid} quick",
            "thorough_cmd": f"./check {pid} thorough",
            "evidence_file": f"/verif/evidence/{pid}.json",
            "replay_cmd_template": f"./check {pid} --replay {{path}}",
            "engine": "fv",
            "level_claimed": {"category": "exploration", "text": text, "design_ref": f"DESIGN.md section 2, {pid}"},
            "level_note": note,
            "technique": tech,
        })
    else:
        na.append({"property_id": pid, "reason": "check not built yet in this session (planned: " + tech + ")"})

m = {
 "version": 1,
 "setup_cmd": "cd /verif/harness && CARGO_NET_OFFLINE=true CARGO_TARGET_DIR=/verif/target cargo build --release --bins",
 "hooks": {
   "guard": "falcon_verif",
   "enable": "none needed: every observation point is public API; checks build /repo as a path dependency with its default features",
   "baseline_off_cmd": "cd /repo && cargo test --workspace --no-fail-fast --offline",
   "source_commits": [],
   "add_only": True,
 },
 "engines": [{"name": "fv", "path": "/verif/harness", "serves_properties": sorted(BUILT),
              "kind_free_text": "Rust crate: seeded proptest runner (supervisor/worker processes, shrinking, replay files, known-findings matcher) + reference models; one binary per property"}],
 "checks": checks,
 "not_applicable": na,
 "notes": "Exit codes: 0 held, 1 VIOLATION, 2 inconclusive, 3 harness error. known_findings.json lists recorded and fixed findings; findings/ holds their reproductions.",
}
json.dump(m, open(os.path.join(V, "MANIFEST.json"), "w"), indent=1)
print("checks:", [c["property_id"] for c in checks])
