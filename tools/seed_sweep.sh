#!/bin/bash
# tools/seed_sweep.sh <out-file> <ID>... : run every seed of the given properties (sources under /tmp/seed/out-<ID>
# or /verif/seeded/<ID>-K) against the current /repo HEAD and the current checks; one line per seed.
out="$1"; shift
for id in "$@"; do
  for k in 1 2 3 4 5 6; do
    if [ -f /verif/seeded/$id-$k/patch.diff ]; then p=/verif/seeded/$id-$k/patch.diff; d=/verif/seeded/$id-$k/demo.rs
    elif [ -f /tmp/seed/out-$id/patch$k.diff ]; then p=/tmp/seed/out-$id/patch$k.diff; d=/tmp/seed/out-$id/demo$k.rs
    else continue; fi
    /verif/tools/seed_trial.sh $id $p $d 2>&1 | grep -E "^C[0-9]+ " | sed -e 's/; 0 ignored; 0 measured; 0 filtered out; finished in [0-9.]*s//g' -e "s/^$id [^:]*:/$id patch$k.diff:/" >> "$out"
  done
done
