#!/bin/bash
# tools/seed_sweep_round.sh <round> <out-file> <ID>... : trial of the seeds of round N (N >= 2) in
# /tmp/seed/out<N>-<ID>/patch{1,2,3}.diff, reported as K = 3(N-1)+1 .. 3(N-1)+3
round="$1"; out="$2"; shift 2
for id in "$@"; do
  for k in 1 2 3; do
    p=/tmp/seed/out$round-$id/patch$k.diff; d=/tmp/seed/out$round-$id/demo$k.rs
    [ -f "$p" ] || continue
    K=$(( (round-1)*3 + k ))
    /verif/tools/seed_trial.sh $id $p $d 2>&1 | grep -E "^C[0-9]+ " | sed -e 's/; 0 ignored; 0 measured; 0 filtered out; finished in [0-9.]*s//g' -e "s/^$id [^:]*:/$id patch$K.diff:/" >> "$out"
  done
done
