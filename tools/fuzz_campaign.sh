#!/bin/bash
# tools/fuzz_campaign.sh <ID> <runs> : coverage-guided campaign (libFuzzer via cargo-fuzz) for a
# property that has a target fuzz/fuzz_targets/fuzz_<id>.rs.  Fixed work (-runs), seeded
# (-seed=$VERIF_SEED), fresh corpus seeded from fuzz/seeds/<target>/.  The target runs the same
# oracle as the proptest tier; on a violation it writes the replay file, prints the VIOLATION
# line and aborts.  Appends a "fuzz" block to the evidence file.  exit: 0 clean, 1 violation,
# 3 cannot build.
set -u
id="$1"; runs="${2:-300000}"
t="fuzz_$(echo "$id" | tr 'A-Z' 'a-z')"
seed="${VERIF_SEED:-1}"; [ "$seed" = "0" ] && seed=1
cd /verif/harness
export CARGO_NET_OFFLINE=true
mkdir -p /verif/work
if ! cargo +nightly fuzz build --fuzz-dir /verif/fuzz "$t" > "/verif/work/build-$t.log" 2>&1; then
    echo "HARNESS-ERROR property=$id cannot build fuzz target $t"; tail -20 "/verif/work/build-$t.log"; exit 3
fi
corpus="/verif/work/fuzz/$t/corpus"; rm -rf "/verif/work/fuzz/$t"; mkdir -p "$corpus" "/verif/work/fuzz/$t/artifacts"
[ -d "/verif/fuzz/seeds/$t" ] && cp -r "/verif/fuzz/seeds/$t/." "$corpus/" 2>/dev/null
log="/verif/work/fuzz/$t/log.txt"
start=$(date +%s)
cargo +nightly fuzz run --fuzz-dir /verif/fuzz "$t" "$corpus" -- -runs="$runs" -seed="$seed" -max_len=64 -len_control=0 \
    -artifact_prefix="/verif/work/fuzz/$t/artifacts/" -print_final_stats=1 > "$log" 2>&1
code=$?
end=$(date +%s)
grep -E "^violation |^VIOLATION " "$log"
python3 - "$id" "$t" "$log" "$runs" "$seed" "$((end-start))" "$code" <<'PY'
import json,sys,re,os
id,t,log,runs,seed,wall,code=sys.argv[1:8]
text=open(log,errors='replace').read()
def stat(name):
    m=re.search(name+r":\s+(\d+)",text); return int(m.group(1)) if m else None
cov=None
for m in re.finditer(r"cov: (\d+) ft: (\d+) corp: (\d+)",text): cov=(int(m.group(1)),int(m.group(2)),int(m.group(3)))
block={"target":t,"engine":"libFuzzer (cargo-fuzz, ASan)","runs_requested":int(runs),"executed_units":stat("stat::number_of_executed_units"),
       "new_units_added":stat("stat::new_units_added"),"final_cov_edges":cov[0] if cov else None,"final_features":cov[1] if cov else None,
       "corpus_size":cov[2] if cov else None,"seed":int(seed),"wall_s":int(wall),"exit_code":int(code)}
p=f"/verif/evidence/{id}.json"
try:
    e=json.load(open(p)); e["coverage"]["fuzz"]=block; json.dump(e,open(p,"w"),indent=1)
except Exception as ex: print("note: could not append fuzz block:",ex)
print("fuzz",json.dumps(block))
PY
if grep -q "^VIOLATION " "$log"; then exit 1; fi
if [ $code -ne 0 ]; then echo "INCONCLUSIVE property=$id fuzz target ended with code $code (see $log)"; tail -5 "$log"; exit 2; fi
exit 0
