#!/bin/bash
# tools/fuzz_campaign.sh <ID> <runs> : coverage-guided campaign (libFuzzer via cargo-fuzz) for a
# property that has a target fuzz/fuzz_targets/fuzz_<id>.rs.  Fixed work (-runs), seeded
# (-seed=$VERIF_SEED), fresh corpus seeded from fuzz/seeds/<target>/.  The target runs the same
# oracle as the proptest tier; on a violation it writes the replay file, prints the VIOLATION
# line and aborts.  Appends a "fuzz" block to the evidence file.  exit: 0 clean, 1 violation,
# 3 cannot build.
set -u
id="$1"; runs="${2:-300000}"
t="fuzz_$(echo "$id" | tr 'A-Z' 'a-z')"
seed="${VERIF_SEED:-1}"; [ "$seed" = "0" ] && seed=1
V="${VERIF_DIR:-/verif}"
cd "$V/harness"
export CARGO_NET_OFFLINE=true
mkdir -p $V/work
if ! cargo +nightly fuzz build --fuzz-dir $V/fuzz "$t" > "$V/work/build-$t.log" 2>&1; then
    echo "HARNESS-ERROR property=$id cannot build fuzz target $t"; tail -20 "$V/work/build-$t.log"; exit 3
fi
# tape length (u32 words) of each generator: the input is the tape, so max_len = 4 * words
case "$t" in
  fuzz_c02) words=280;; fuzz_c03) words=320;; fuzz_c04) words=260;; fuzz_c05) words=96;; fuzz_c06) words=1200;;
  fuzz_c07) words=1600;; fuzz_c08) words=900;; fuzz_c09) words=800;; fuzz_c10) words=2000;; fuzz_c11) words=420;;
  fuzz_c12) words=1800;; fuzz_c13) words=1600;; fuzz_c14) words=3000;; fuzz_c15) words=1400;; fuzz_c16) words=400;;
  fuzz_c17) words=1200;; fuzz_c18) words=1600;; fuzz_c19) words=1100;; *) words=400;;
esac
maxlen=$((words*4))
corpus="$V/work/fuzz/$t/corpus"; rm -rf "$V/work/fuzz/$t"; mkdir -p "$corpus" "$V/work/fuzz/$t/artifacts"
[ -d "$V/fuzz/seeds/$t" ] && cp -r "$V/fuzz/seeds/$t/." "$corpus/" 2>/dev/null
# starting corpus: a few full-length and short pseudo-random tapes (a pure function of the seed), so
# that the campaign does not spend its budget growing inputs from nothing
python3 - "$corpus" "$maxlen" "$seed" <<'PY'
import sys, random
d, n, seed = sys.argv[1], int(sys.argv[2]), int(sys.argv[3])
r = random.Random(seed)
for i in range(12):
    ln = n if i < 8 else max(8, n // (2 ** (i - 6)))
    open(f"{d}/seed-{i:02d}", "wb").write(bytes(r.getrandbits(8) for _ in range(ln)))
PY
log="$V/work/fuzz/$t/log.txt"
start=$(date +%s)
cargo +nightly fuzz run --fuzz-dir $V/fuzz "$t" "$corpus" -- -runs="$runs" -seed="$seed" -max_len="$maxlen" -len_control=0 \
    -artifact_prefix="$V/work/fuzz/$t/artifacts/" -print_final_stats=1 > "$log" 2>&1
code=$?
end=$(date +%s)
grep -E "^violation |^VIOLATION " "$log"
python3 - "$id" "$t" "$log" "$runs" "$seed" "$((end-start))" "$code" "$V" <<'PY'
import json,sys,re,os
id,t,log,runs,seed,wall,code,V=sys.argv[1:9]
text=open(log,errors='replace').read()
def stat(name):
    m=re.search(name+r":\s+(\d+)",text); return int(m.group(1)) if m else None
cov=None
for m in re.finditer(r"cov: (\d+) ft: (\d+) corp: (\d+)",text): cov=(int(m.group(1)),int(m.group(2)),int(m.group(3)))
block={"target":t,"engine":"libFuzzer (cargo-fuzz, ASan)","runs_requested":int(runs),"executed_units":stat("stat::number_of_executed_units"),
       "new_units_added":stat("stat::new_units_added"),"final_cov_edges":cov[0] if cov else None,"final_features":cov[1] if cov else None,
       "corpus_size":cov[2] if cov else None,"seed":int(seed),"wall_s":int(wall),"exit_code":int(code)}
p=f"{V}/evidence/{id}.json"
try:
    e=json.load(open(p)); e["coverage"]["fuzz"]=block; json.dump(e,open(p,"w"),indent=1)
except Exception as ex: print("note: could not append fuzz block:",ex)
print("fuzz",json.dumps(block))
PY
if grep -q "^VIOLATION " "$log"; then exit 1; fi
if [ $code -ne 0 ]; then echo "INCONCLUSIVE property=$id fuzz target ended with code $code (see $log)"; tail -5 "$log"; exit 2; fi
exit 0
