#!/bin/bash
# tools/with_repo.sh <falcon_dir> <ID> [quick|thorough|--replay f ...]
# Run one check against another checkout of falcon (a scratch worktree with a mutant or a
# candidate fix applied) without touching /repo: copies the harness, points its falcon path
# dependency at <falcon_dir>, builds in its own target dir and runs with a private VERIF_DIR so
# /verif/evidence is not overwritten.  Prints the exit code as "EXIT=<n>".
set -u
repo="$(cd "$1" && pwd)"; id="$2"; shift 2
bin="$(echo "$id" | tr 'A-Z' 'a-z')"
tag="$(echo "$repo" | md5sum | cut -c1-8)"
ns="${FV_ALT_NS:-}"   # private namespace, so that two kinds of trial of one property can run at once
root="/tmp/fvalt$ns-$id-$tag"
mkdir -p "$root/verif"
# the committed harness (so that edits in progress in /verif/harness do not leak into a trial);
# FV_WORKTREE_HARNESS=1 uses the working tree instead
if [ "${FV_WORKTREE_HARNESS:-0}" = "1" ]; then
    rsync -a --delete --exclude target /verif/harness/ "$root/harness/"
else
    rm -rf "$root/harness"; git -C /verif archive HEAD harness | tar -x -C "$root"
fi
sed -i "s#path = \"/repo\"#path = \"$repo\"#" "$root/harness/Cargo.toml"
ln -sfn /verif/findings "$root/verif/findings"
cp /verif/known_findings.json "$root/verif/known_findings.json"
export CARGO_NET_OFFLINE=true CARGO_TARGET_DIR="/tmp/fv-target-alt$ns-$id"
if ! ( cd "$root/harness" && cargo build --release --bin "$bin" ) > "$root/build.log" 2>&1; then
    echo "BUILD FAILED"; grep -E "^error" -A8 "$root/build.log" | head -40; echo "EXIT=3"; exit 3
fi
if [ $# -eq 0 ]; then set -- quick; fi
VERIF_DIR="$root/verif" "$CARGO_TARGET_DIR/release/$bin" "$@"
code=$?
echo "EXIT=$code  (evidence/replays under $root/verif)"
exit $code
