#!/bin/bash
# tools/seed_sweep2.sh <out-file> <ID>... : trial of the round-2 seeds /tmp/seed/out2-<ID>/patch{1,2,3}.diff,
# reported as K = 4..6
out="$1"; shift
for id in "$@"; do
  for k in 1 2 3; do
    p=/tmp/seed/out2-$id/patch$k.diff; d=/tmp/seed/out2-$id/demo$k.rs
    [ -f "$p" ] || continue
    /verif/tools/seed_trial.sh $id $p $d 2>&1 | grep -E "^C[0-9]+ " | sed -e 's/; 0 ignored; 0 measured; 0 filtered out; finished in [0-9.]*s//g' -e "s/^$id [^:]*:/$id patch$((k+3)).diff:/" >> "$out"
  done
done
