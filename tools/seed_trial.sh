#!/bin/bash
# tools/seed_trial.sh <ID> <patch.diff> <demo.rs> [tier]
# Confirm a seeded breakage and run the check against it, in the scratch worktree /tmp/seed/wt-<ID>
# (created if missing from /repo HEAD):
#   1. the patch applies and falcon's own tests still pass (443),
#   2. the demonstration passes without the patch and fails with it,
#   3. the quick (or given) tier of ./check <ID> fires (EXIT=1) on the patched tree.
# Prints one summary line; leaves the worktree clean.
id="$1"; patch="$(realpath "$2")"; demo="$(realpath "$3")"; tier="${4:-quick}"
wt="/tmp/seed/wt-$id"
export CARGO_NET_OFFLINE=true
[ -d "$wt" ] || git -C /repo worktree add --detach "$wt" HEAD >/dev/null 2>&1
cd "$wt" || exit 3
export CARGO_TARGET_DIR="$wt/target"
git checkout -q -- . ; git clean -qfd -e target
git checkout -q --detach "$(git -C /repo rev-parse HEAD)"
mkdir -p tests
cp "$demo" tests/demo.rs
base=$(cargo test --offline --test demo 2>&1 | grep -E "^test result" | head -1)
if ! git apply "$patch" 2>/dev/null && ! git apply --3way "$patch" 2>/dev/null; then echo "$id $(basename $patch): PATCH-DOES-NOT-APPLY"; rm -f tests/demo.rs; exit 3; fi
withp=$(cargo test --offline --test demo 2>&1 | grep -E "^test result|^error(\[|:)" | head -1)
rm -f tests/demo.rs
suite=$(cargo test --workspace --no-fail-fast --offline 2>&1 | grep -E "^test result" | head -1)
out="$(FV_ALT_NS=s /verif/tools/with_repo.sh "$wt" "$id" "$tier" 2>/dev/null)"
code="$(echo "$out" | grep -o 'EXIT=[0-9]*' | tail -1)"
sig="$(echo "$out" | grep -m1 '^violation sig=' | cut -c1-160)"
evals="$(echo "$out" | grep -E "^$id $tier" | grep -o 'cases=[0-9]*')"
git checkout -q -- . ; git clean -qfd -e target
rm -rf /tmp/fvalts-$id-*
echo "$id $(basename $patch): demo-base[${base#test result: }] demo-patched[${withp#test result: }] suite[${suite#test result: }] check:$code $evals $sig"
