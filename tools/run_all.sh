#!/bin/bash
# tools/run_all.sh <seed> [ids...] : run the quick tier of every registered check with VERIF_SEED=<seed>
seed="${1:-1}"; shift
ids="$@"; [ -z "$ids" ] && ids=$(python3 -c "import json;print(' '.join(json.load(open('/verif/tools/built.json'))))")
for id in $ids; do
  start=$(date +%s)
  out=$(VERIF_SEED=$seed /verif/check $id quick 2>/dev/null); code=$?
  end=$(date +%s)
  echo "$id seed=$seed exit=$code wall=$((end-start))s :: $(echo "$out" | grep -E "^$id quick" | cut -c1-120)"
  [ $code -ne 0 ] && echo "$out" | grep -E "VIOLATION|HARNESS|INCONCLUSIVE|violation" | head -5
done
