#!/bin/bash
# tools/enumerate_findings.sh <ID> <cases> [known-file]: run repeatedly, adding every new
# violation signature to a scratch known-list, until a run is clean. Prints the signatures.
id="$1"; cases="${2:-20000}"; kf="${3:-/tmp/enum-$id-known.json}"
bin="/verif/target/release/$(echo $id | tr A-Z a-z)"
[ -f "$kf" ] || echo '[]' > "$kf"
for i in $(seq 1 40); do
  rm -rf /verif/replays/$id
  out=$(FV_EXTRA_KNOWN="$kf" "$bin" quick --cases "$cases" 2>/dev/null)
  echo "$out" | grep -q "^VIOLATION" || { echo "$out" | tail -3; break; }
  python3 - "$id" "$kf" <<'PY'
import json,glob,sys
id,kf=sys.argv[1],sys.argv[2]
k=json.load(open(kf)); seen={e['signature'] for e in k}
for f in glob.glob(f'/verif/replays/{id}/*.json'):
    r=json.load(open(f))
    if r['sig'] not in seen:
        seen.add(r['sig']); k.append({"property":id,"signature":r['sig'],"status":"known","what":r['msg'].split('\n')[0][:300]})
        print(r['sig'],'::',r['msg'].split('\n')[0][:260])
        open(f'/tmp/enum-{id}-'+str(len(k))+'.json','w').write(json.dumps(r))
json.dump(k,open(kf,'w'),indent=1)
PY
done
