#!/usr/bin/env python3
"""Print a markdown table of known_findings.json grouped by property (for DESIGN.md section 5)."""
import json, collections
k = json.load(open('/verif/known_findings.json'))
by = collections.OrderedDict()
for e in sorted(k, key=lambda e: (e['property'], e['status'], e['signature'])):
    by.setdefault(e['property'], []).append(e)
for p, es in by.items():
    seen = set()
    print(f"\n**{p}**\n")
    print("| status | signature | what | commit / repro |")
    print("|---|---|---|---|")
    for e in es:
        key = (e['signature'], e['status'], e.get('commit'))
        if key in seen: continue
        seen.add(key)
        what = e['what'].replace('|', '\\|').replace('\n', ' ')
        if len(what) > 230: what = what[:227] + '...'
        print(f"| {e['status']} | `{e['signature'].replace('|', '¦')}` | {what} | {e.get('commit') or ''} {e.get('repro') or ''} |")
