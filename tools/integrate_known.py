#!/usr/bin/env python3
"""tools/integrate_known.py CNN [sig-substring=commit-subject-substring ...]
Merge fixes/CNN-known.json into known_findings.json. An entry whose signature contains one of the
given substrings becomes status=fixed with the matching /repo commit; the rest stay known."""
import json, subprocess, sys
prop = sys.argv[1]
maps = [a.split('=', 1) for a in sys.argv[2:]]
path = '/verif/known_findings.json'
k = json.load(open(path))
new = json.load(open(f'/verif/fixes/{prop}-known.json'))
log = subprocess.check_output(['git', '-C', '/repo', 'log', '--format=%h %s']).decode().splitlines()
for e in new:
    assert e['property'] == prop
    commit = None
    for sub, csub in maps:
        if sub in e['signature']:
            m = [l.split()[0] for l in log if csub in l]
            assert len(m) == 1, (csub, m)
            commit = m[0]
            break
    e = dict(e)
    e['status'] = 'fixed' if commit else 'known'
    if commit: e['commit'] = commit
    e.pop('record', None)
    e['record'] = (f"fixed: property={prop} {commit} {e['what']}" if commit else f"known: property={prop} {e['what']}")
    k = [x for x in k if not (x['property'] == prop and x['signature'] == e['signature'])]
    k.append(e)
    print(e['status'], e['signature'], commit or '')
json.dump(k, open(path, 'w'), indent=2)
