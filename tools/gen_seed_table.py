#!/usr/bin/env python3
"""Regenerate the seeded-change table of DESIGN.md (between the SEED-TABLE markers) from seeded/*/meta.json."""
import json, glob, os, re
V = '/verif'
rows = []
tot = det = 0
for d in sorted(glob.glob(f'{V}/seeded/*/meta.json')):
    m = json.load(open(d))
    sid = os.path.basename(os.path.dirname(d))
    tot += 1
    r = m['check_result']
    det += 1 if r['detected'] else 0
    cross = globals().get('cross', 0) + (1 if (not r['detected'] and r.get('detected_by_other_property')) else 0)
    globals()['cross'] = cross
    what = re.sub(r'^(Patch|patch|K =)\s*\d\s*[-—:–]*\s*', '', m['breaks']).replace('|', '/')
    what = re.sub(r'\(patch\d\.diff, demo\d\.rs\)', '', what).strip()[:110]
    sig = r['first_signature'].split(' :: ')[0].replace('violation sig=', '').replace('|', '¦')[:70]
    cases = r['cases_to_detect'].replace('cases=', '')
    hist = ' †' if 'history' in m else ''
    other = r.get('detected_by_other_property')
    verdict = 'caught' if r['detected'] else (f'missed; caught by {other}' if other else 'not detected (see history)')
    rows.append(f"| {sid}{hist} | {what} | {verdict} | {cases} | `{sig}` |")
table = ("| seed | change (author's title) | quick tier | cases run when it fired | first signature |\n|---|---|---|---|---|\n" + "\n".join(rows) +
         f"\n\n{det} of {tot} seeded changes are caught by the quick tier of the property they were written against, {globals().get('cross', 0)} more by the quick tier of a neighbouring property, {tot - det - globals().get('cross', 0)} are not detected (reason in `history`). † = missed by the first version of the check; `seeded/<id>/meta.json` (`history`) says what was strengthened.\n")
p = f'{V}/DESIGN.md'
s = open(p).read()
a = s.index('<!-- SEED-TABLE-BEGIN -->') + len('<!-- SEED-TABLE-BEGIN -->')
b = s.index('<!-- SEED-TABLE-END -->')
open(p, 'w').write(s[:a] + "\n" + table + s[b:])
print(det, 'of', tot)
