#!/opt/veriftools/pyvenv/bin/python
"""Validate MANIFEST.json and every evidence file against the given schemas."""
import json, jsonschema, glob, sys
ok = True
def v(f, s):
    global ok
    try:
        jsonschema.validate(json.load(open(f)), json.load(open(s)))
    except Exception as e:
        ok = False; print("INVALID", f, str(e)[:300])
v('/verif/MANIFEST.json', '/root/.vp/MANIFEST.schema.json')
for f in sorted(glob.glob('/verif/evidence/*.json')): v(f, '/root/.vp/EVIDENCE.schema.json')
print("valid" if ok else "FAILED"); sys.exit(0 if ok else 1)
