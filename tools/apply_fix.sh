#!/bin/bash
# tools/apply_fix.sh <patch> "<fix: message>"  : apply to /repo, run falcon's tests, commit if 443 pass
set -e
p="$(realpath "$1")"; msg="$2"
cd /repo
git diff --quiet || { echo "repo dirty"; exit 1; }
git apply "$p"
out=$(cargo test --workspace --no-fail-fast --offline 2>&1 | grep -E "^test result|FAILED|failed" | head -20)
echo "$out"
if echo "$out" | grep -q "443 passed; 0 failed"; then git commit -qam "$msg"; git log --oneline | head -1; else echo "TESTS FAILED - reverting"; git checkout -- .; exit 1; fi
