#!/bin/bash
# tools/mutant_trial.sh <ID> <patch>...   apply each patch to a scratch worktree of /repo HEAD,
# run the quick tier of <ID> against it, report caught (EXIT=1) / missed.
id="$1"; shift
wt="/tmp/wt-trial-$id"
git -C /repo worktree remove --force "$wt" 2>/dev/null
git -C /repo worktree add --detach "$wt" HEAD >/dev/null 2>&1 || { echo "cannot create worktree"; exit 3; }
for p in "$@"; do p="$(realpath "$p")"
    ( cd "$wt" && git checkout -q -- . && git apply "$p" ) || { echo "$(basename $p): PATCH DOES NOT APPLY"; continue; }
    out="$(/verif/tools/with_repo.sh "$wt" "$id" quick 2>/dev/null)"
    code="$(echo "$out" | grep -o 'EXIT=[0-9]*' | tail -1)"
    sig="$(echo "$out" | grep -m1 '^violation sig=' | cut -c1-150)"
    evals="$(echo "$out" | grep -E "^$id quick" | grep -o 'cases=[0-9]*')"
    echo "$(basename $p): $code $evals $sig"
done
git -C /repo worktree remove --force "$wt"
rm -rf /tmp/fvalt-$id-* 
