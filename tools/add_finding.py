#!/usr/bin/env python3
"""tools/add_finding.py PROPERTY SIGNATURE STATUS REPRO 'commit-subject-substring or -' 'what'
Adds or replaces (same property+repro) an entry of known_findings.json."""
import json, subprocess, sys
prop, sig, status, repro, commit_sub, what = sys.argv[1:7]
path = '/verif/known_findings.json'
k = json.load(open(path))
commit = None
if commit_sub != '-':
    out = subprocess.check_output(['git', '-C', '/repo', 'log', '--format=%h %s']).decode().splitlines()
    m = [l.split()[0] for l in out if commit_sub in l]
    assert m, 'no commit matches ' + commit_sub
    commit = m[0]
k = [e for e in k if not (e['property'] == prop and e.get('repro') == repro)]
e = {"property": prop, "signature": sig, "status": status, "what": what, "repro": repro}
if commit: e["commit"] = commit
e["record"] = (f"fixed: property={prop} {commit} {what}" if status == "fixed" else f"known: property={prop} {what}")
k.append(e)
json.dump(k, open(path, 'w'), indent=2)
print('ok', prop, sig, status, commit)
