#!/usr/bin/env python3
"""tools/keep_seed.py <trial-lines-file>...
Turn confirmed seeded changes (/tmp/seed/out-<ID>/patchK.diff, demoK.rs, notes.md) into
/verif/seeded/<ID>-<K>/ {patch.diff, demo.rs, notes.md, meta.json}.  A seed is kept only when the
trial line shows: demo passes without the change, fails with it, falcon's 443 tests pass with it."""
import json, os, re, shutil, sys
V = '/verif'
lines = []
for f in sys.argv[1:]:
    lines += [l.strip() for l in open(f) if re.match(r'^C\d\d patch', l)]
for l in lines:
    m = re.match(r'^(C\d\d) patch(\d+)\.diff: demo-base\[(.*?)\] demo-patched\[(.*?)\] suite\[(.*?)\] check:EXIT=(\d)\s*(cases=\d+)?\s*(.*)$', l)
    if not m:
        print('unparsed', l[:80]); continue
    pid, k, base, patched, suite, code, cases, sig = m.groups()
    ok = base.startswith('ok.') and patched.startswith('FAILED') and '443 passed; 0 failed' in suite
    if not ok:
        print('NOT CONFIRMED', pid, k, base, patched, suite); continue
    # K = 1..3: round 1 (/tmp/seed/out-<ID>), K = 3(N-1)+1..3(N-1)+3: round N (/tmp/seed/out<N>-<ID>, files 1..3)
    rnd = (int(k) - 1) // 3 + 1
    src = f'/tmp/seed/out-{pid}' if rnd == 1 else f'/tmp/seed/out{rnd}-{pid}'
    fk = int(k) - 3 * (rnd - 1)
    dst = f'{V}/seeded/{pid}-{k}'
    os.makedirs(dst, exist_ok=True)
    shutil.copy(f'{src}/patch{fk}.diff', f'{dst}/patch.diff')
    shutil.copy(f'{src}/demo{fk}.rs', f'{dst}/demo.rs')
    notes = open(f'{src}/notes.md').read()
    parts = re.split(r'(?m)^(?=## )', notes)
    sec = [p for p in parts if re.match(r'## .{0,12}?(?:[Pp]atch|K =)\s*%s\b' % fk, p) or re.match(r'## [Pp]atch%s\b' % fk, p)]
    section = sec[0] if sec else ''
    open(f'{dst}/notes.md', 'w').write(section or notes)
    title = section.splitlines()[0][3:].strip() if section else ''
    trig = re.search(r'(?is)trigger[^\n]*?[:\n](.*?)(?:\n\s*\n|\n\* |\n- \*\*|\n###|\Z)', section)
    needs = (re.sub(r'\s+', ' ', (trig.group(0) if trig else title)).strip())[:900]
    files = sorted(set(re.findall(r'^\+\+\+ b/(\S+)', open(f'{dst}/patch.diff').read(), re.M)))
    meta = {
        'property': pid,
        'round': rnd,
        'breaks': title,
        'files_changed': files,
        'needs_to_manifest': needs,
        'author': 'fresh sub-agent given only the property text and a scratch worktree of /repo (nothing from /verif)',
        'confirmed': {
            'falcon_tests_with_change': suite,
            'demo_without_change': base,
            'demo_with_change': patched,
            'how': f'tools/seed_trial.sh {pid} patch.diff demo.rs (scratch worktree; demo copied to tests/demo.rs; cargo test --offline)',
        },
        'check_result': {
            'command': f'./check {pid} quick (harness built against the patched worktree via tools/with_repo.sh)',
            'exit': int(code),
            'detected': code == '1',
            'cases_to_detect': cases or '',
            'first_signature': sig[:300],
        },
    }
    json.dump(meta, open(f'{dst}/meta.json', 'w'), indent=1)
    print(pid, k, 'kept', 'DETECTED' if code == '1' else 'MISSED exit=' + code)
