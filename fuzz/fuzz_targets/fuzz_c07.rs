#![no_main]
//! Coverage-guided search for property C07: the input is the generator's entropy tape; the
//! oracle is the same `check` the proptest tier uses.
use libfuzzer_sys::fuzz_target;

#[allow(dead_code, unused_imports)]
#[path = "../../harness/src/bin/c07.rs"]
mod prop;

fuzz_target!(|data: &[u8]| {
    prop::fuzz_bytes(data);
});
