#![no_main]
//! Coverage-guided lifting totality / well-formedness (property C05). The oracle is the same
//! `check` the proptest tier uses.
use libfuzzer_sys::fuzz_target;

#[allow(dead_code)]
#[path = "../../harness/src/bin/c05.rs"]
mod c05;

fuzz_target!(|data: &[u8]| {
    c05::fuzz_bytes(data);
});
