//! `RefIl`: a reference interpreter for falcon IL functions over `Bv`.
//!
//! It reads falcon's IL *data* (blocks, instructions, operations, expressions, edges) through
//! the public getters, snapshots it into its own `FnView`, and gives it meaning independently of
//! `falcon::executor`: expression evaluation is `Bv` arithmetic, memory is a byte map, the
//! successor is the unique edge whose guard evaluates to one.

use crate::bv::{Bv, BvErr};
use falcon::il;
use serde::{Deserialize, Serialize};
use std::collections::BTreeMap;

#[derive(Clone, Debug, PartialEq, Eq)]
pub enum Fault {
    UndefinedScalar(String),
    Unmapped(u64),
    DivZero,
    Sort(String),
    NoEdge,
    TwoEdges,
    Intrinsic(String),
    AddressTooWide,
    BadWidth(String),
    BadLocation(String),
}

impl Fault {
    pub fn kind(&self) -> &'static str {
        match self {
            Fault::UndefinedScalar(_) => "undefined-scalar",
            Fault::Unmapped(_) => "unmapped",
            Fault::DivZero => "div-zero",
            Fault::Sort(_) => "sort",
            Fault::NoEdge => "no-edge",
            Fault::TwoEdges => "two-edges",
            Fault::Intrinsic(_) => "intrinsic",
            Fault::AddressTooWide => "address-too-wide",
            Fault::BadWidth(_) => "bad-width",
            Fault::BadLocation(_) => "bad-location",
        }
    }
}

impl From<BvErr> for Fault {
    fn from(e: BvErr) -> Fault {
        match e {
            BvErr::Sort => Fault::Sort("operand widths differ".into()),
            BvErr::DivZero => Fault::DivZero,
        }
    }
}

pub type Scalars = BTreeMap<String, Bv>;

/// Evaluate an expression over a scalar valuation (keyed by scalar *name*).  `ite` evaluates
/// only the selected arm.
pub fn eval(e: &il::Expression, s: &Scalars) -> Result<Bv, Fault> {
    use il::Expression as E;
    let bin = |l: &il::Expression, r: &il::Expression| -> Result<(Bv, Bv), Fault> {
        Ok((eval(l, s)?, eval(r, s)?))
    };
    Ok(match e {
        E::Scalar(sc) => match s.get(sc.name()) {
            Some(v) => {
                if v.w != sc.bits() {
                    return Err(Fault::Sort(format!(
                        "scalar {} holds {} bits, used as {}",
                        sc.name(),
                        v.w,
                        sc.bits()
                    )));
                }
                v.clone()
            }
            None => return Err(Fault::UndefinedScalar(sc.name().to_string())),
        },
        E::Constant(c) => Bv::from_constant(c),
        E::Add(l, r) => {
            let (a, b) = bin(l, r)?;
            a.add(&b)?
        }
        E::Sub(l, r) => {
            let (a, b) = bin(l, r)?;
            a.sub(&b)?
        }
        E::Mul(l, r) => {
            let (a, b) = bin(l, r)?;
            a.mul(&b)?
        }
        E::Divu(l, r) => {
            let (a, b) = bin(l, r)?;
            a.divu(&b)?
        }
        E::Modu(l, r) => {
            let (a, b) = bin(l, r)?;
            a.modu(&b)?
        }
        E::Divs(l, r) => {
            let (a, b) = bin(l, r)?;
            a.divs(&b)?
        }
        E::Mods(l, r) => {
            let (a, b) = bin(l, r)?;
            a.mods(&b)?
        }
        E::And(l, r) => {
            let (a, b) = bin(l, r)?;
            a.and(&b)?
        }
        E::Or(l, r) => {
            let (a, b) = bin(l, r)?;
            a.or(&b)?
        }
        E::Xor(l, r) => {
            let (a, b) = bin(l, r)?;
            a.xor(&b)?
        }
        E::Shl(l, r) => {
            let (a, b) = bin(l, r)?;
            a.shl(&b)?
        }
        E::Shr(l, r) => {
            let (a, b) = bin(l, r)?;
            a.shr(&b)?
        }
        E::AShr(l, r) => {
            let (a, b) = bin(l, r)?;
            a.ashr(&b)?
        }
        E::Cmpeq(l, r) => {
            let (a, b) = bin(l, r)?;
            a.cmpeq(&b)?
        }
        E::Cmpneq(l, r) => {
            let (a, b) = bin(l, r)?;
            a.cmpneq(&b)?
        }
        E::Cmplts(l, r) => {
            let (a, b) = bin(l, r)?;
            a.cmplts(&b)?
        }
        E::Cmpltu(l, r) => {
            let (a, b) = bin(l, r)?;
            a.cmpltu(&b)?
        }
        E::Zext(bits, x) => eval(x, s)?.zext(*bits)?,
        E::Sext(bits, x) => eval(x, s)?.sext(*bits)?,
        E::Trun(bits, x) => eval(x, s)?.trun(*bits)?,
        E::Ite(c, t, f) => {
            let c = eval(c, s)?;
            if c.w != 1 {
                return Err(Fault::Sort("ite condition is not 1 bit".into()));
            }
            if c.is_one() {
                eval(t, s)?
            } else {
                eval(f, s)?
            }
        }
    })
}

/// Static width of an expression, re-derived from the enum (variants can be built without the
/// checking constructors).  `Err` describes the first violated sort rule.
pub fn sort_of(e: &il::Expression) -> Result<usize, String> {
    use il::Expression as E;
    let same = |l: &il::Expression, r: &il::Expression, what: &str| -> Result<usize, String> {
        let (a, b) = (sort_of(l)?, sort_of(r)?);
        if a != b {
            return Err(format!("{}: operand widths {} and {} differ in {}", what, a, b, e));
        }
        Ok(a)
    };
    match e {
        E::Scalar(s) => {
            if s.bits() == 0 {
                Err(format!("scalar {} has width 0", s.name()))
            } else {
                Ok(s.bits())
            }
        }
        E::Constant(c) => {
            if c.bits() == 0 {
                Err("constant of width 0".into())
            } else {
                Ok(c.bits())
            }
        }
        E::Add(l, r) | E::Sub(l, r) | E::Mul(l, r) | E::Divu(l, r) | E::Modu(l, r)
        | E::Divs(l, r) | E::Mods(l, r) | E::And(l, r) | E::Or(l, r) | E::Xor(l, r)
        | E::Shl(l, r) | E::Shr(l, r) | E::AShr(l, r) => same(l, r, "binary"),
        E::Cmpeq(l, r) | E::Cmpneq(l, r) | E::Cmplts(l, r) | E::Cmpltu(l, r) => {
            same(l, r, "comparison")?;
            Ok(1)
        }
        E::Zext(bits, x) | E::Sext(bits, x) => {
            let w = sort_of(x)?;
            if *bits <= w {
                return Err(format!("extension to {} bits of a {}-bit value in {}", bits, w, e));
            }
            Ok(*bits)
        }
        E::Trun(bits, x) => {
            let w = sort_of(x)?;
            if *bits >= w || *bits == 0 {
                return Err(format!("truncation to {} bits of a {}-bit value in {}", bits, w, e));
            }
            Ok(*bits)
        }
        E::Ite(c, t, f) => {
            if sort_of(c)? != 1 {
                return Err(format!("ite condition is not 1 bit in {}", e));
            }
            same(t, f, "ite arms")
        }
    }
}

#[derive(Clone, Debug, PartialEq, Eq, Serialize, Deserialize)]
pub struct RefMem {
    pub bytes: BTreeMap<u64, u8>,
    pub big_endian: bool,
}

impl RefMem {
    pub fn new(big_endian: bool) -> RefMem {
        RefMem {
            bytes: BTreeMap::new(),
            big_endian,
        }
    }
    pub fn load(&self, addr: u64, bits: usize) -> Result<Bv, Fault> {
        if bits == 0 || bits % 8 != 0 {
            return Err(Fault::BadWidth(format!("load of {} bits", bits)));
        }
        let n = (bits / 8) as u64;
        let mut b = Vec::with_capacity(n as usize);
        for i in 0..n {
            let a = addr.checked_add(i).ok_or(Fault::Unmapped(addr))?;
            match self.bytes.get(&a) {
                Some(x) => b.push(*x),
                None => return Err(Fault::Unmapped(a)),
            }
        }
        Ok(if self.big_endian {
            Bv::from_be_bytes(&b)
        } else {
            Bv::from_le_bytes(&b)
        })
    }
    pub fn store(&mut self, addr: u64, v: &Bv) -> Result<(), Fault> {
        if v.w % 8 != 0 {
            return Err(Fault::BadWidth(format!("store of {} bits", v.w)));
        }
        let b = if self.big_endian { v.be_bytes() } else { v.le_bytes() };
        for (i, x) in b.iter().enumerate() {
            let a = addr.checked_add(i as u64).ok_or(Fault::Unmapped(addr))?;
            self.bytes.insert(a, *x);
        }
        Ok(())
    }
}

#[derive(Clone, Debug, PartialEq, Eq, Serialize, Deserialize)]
pub struct RefState {
    pub scalars: Scalars,
    pub mem: RefMem,
}

/// A location inside one function.
#[derive(Clone, Copy, Debug, PartialEq, Eq, Hash, PartialOrd, Ord, Serialize, Deserialize)]
pub enum Loc {
    /// (block index, instruction *index* — not position)
    Instr(usize, usize),
    Edge(usize, usize),
    Empty(usize),
}

#[derive(Clone, Debug)]
pub struct InstrView {
    pub index: usize,
    pub address: Option<u64>,
    pub op: il::Operation,
}

#[derive(Clone, Debug)]
pub struct EdgeView {
    pub head: usize,
    pub tail: usize,
    pub cond: Option<il::Expression>,
}

/// Snapshot of a function taken through `blocks()` and `edges()` only.
#[derive(Clone, Debug)]
pub struct FnView {
    pub blocks: BTreeMap<usize, Vec<InstrView>>,
    pub edges: Vec<EdgeView>,
    pub entry: Option<usize>,
}

impl FnView {
    pub fn of(f: &il::Function) -> FnView {
        FnView::of_cfg(f.control_flow_graph())
    }
    pub fn of_cfg(cfg: &il::ControlFlowGraph) -> FnView {
        let mut blocks = BTreeMap::new();
        for b in cfg.blocks() {
            blocks.insert(
                b.index(),
                b.instructions()
                    .iter()
                    .map(|i| InstrView {
                        index: i.index(),
                        address: i.address(),
                        op: i.operation().clone(),
                    })
                    .collect(),
            );
        }
        let mut edges: Vec<EdgeView> = cfg
            .edges()
            .iter()
            .map(|e| EdgeView {
                head: e.head(),
                tail: e.tail(),
                cond: e.condition().cloned(),
            })
            .collect();
        edges.sort_by_key(|e| (e.head, e.tail));
        FnView {
            blocks,
            edges,
            entry: cfg.entry(),
        }
    }
    pub fn out_edges(&self, block: usize) -> Vec<&EdgeView> {
        self.edges.iter().filter(|e| e.head == block).collect()
    }
    pub fn in_edges(&self, block: usize) -> Vec<&EdgeView> {
        self.edges.iter().filter(|e| e.tail == block).collect()
    }
    /// first location of a block
    pub fn block_entry(&self, block: usize) -> Result<Loc, Fault> {
        match self.blocks.get(&block) {
            None => Err(Fault::BadLocation(format!("no block {}", block))),
            Some(v) if v.is_empty() => Ok(Loc::Empty(block)),
            Some(v) => Ok(Loc::Instr(block, v[0].index)),
        }
    }
    pub fn entry_loc(&self) -> Result<Loc, Fault> {
        match self.entry {
            Some(e) => self.block_entry(e),
            None => Err(Fault::BadLocation("function has no entry".into())),
        }
    }
    pub fn instr(&self, block: usize, index: usize) -> Option<&InstrView> {
        self.blocks.get(&block)?.iter().find(|i| i.index == index)
    }
    /// All locations: instructions, empty blocks, edges.
    pub fn all_locs(&self) -> Vec<Loc> {
        let mut v = Vec::new();
        for (b, is) in &self.blocks {
            if is.is_empty() {
                v.push(Loc::Empty(*b));
            }
            for i in is {
                v.push(Loc::Instr(*b, i.index));
            }
        }
        for e in &self.edges {
            v.push(Loc::Edge(e.head, e.tail));
        }
        v
    }
    /// Static successors in the location graph (ignoring guards).
    pub fn succ_locs(&self, l: Loc) -> Vec<Loc> {
        match l {
            Loc::Instr(b, i) => {
                let is = &self.blocks[&b];
                let pos = is.iter().position(|x| x.index == i).unwrap();
                if pos + 1 < is.len() {
                    vec![Loc::Instr(b, is[pos + 1].index)]
                } else {
                    self.out_edges(b).iter().map(|e| Loc::Edge(e.head, e.tail)).collect()
                }
            }
            Loc::Empty(b) => self.out_edges(b).iter().map(|e| Loc::Edge(e.head, e.tail)).collect(),
            Loc::Edge(_, t) => vec![self.block_entry(t).unwrap()],
        }
    }
    pub fn pred_locs(&self, l: Loc) -> Vec<Loc> {
        let last_of = |b: usize| -> Loc {
            let is = &self.blocks[&b];
            match is.last() {
                Some(i) => Loc::Instr(b, i.index),
                None => Loc::Empty(b),
            }
        };
        match l {
            Loc::Instr(b, i) => {
                let is = &self.blocks[&b];
                let pos = is.iter().position(|x| x.index == i).unwrap();
                if pos > 0 {
                    vec![Loc::Instr(b, is[pos - 1].index)]
                } else {
                    self.in_edges(b).iter().map(|e| Loc::Edge(e.head, e.tail)).collect()
                }
            }
            Loc::Empty(b) => self.in_edges(b).iter().map(|e| Loc::Edge(e.head, e.tail)).collect(),
            Loc::Edge(h, _) => vec![last_of(h)],
        }
    }
}

/// What one step did.
#[derive(Clone, Debug, PartialEq, Eq)]
pub enum Effect {
    Assign { name: String, value: Bv },
    Store { addr: u64, value: Bv },
    Load { name: String, addr: u64, value: Bv },
    /// control left through an indirect branch to this address; `Machine::loc` is unchanged
    Branch { target: u64 },
    /// intrinsic executed in havoc mode
    Intrinsic { text: String, wrote: Vec<(String, Bv)> },
    Nop,
    /// passed an edge or an empty block
    Pass,
}

#[derive(Clone, Copy, Debug, PartialEq, Eq)]
pub enum IntrinsicMode {
    /// meeting an intrinsic is a fault (the executor's contract)
    Fault,
    /// declared written scalars get oracle-chosen values; undeclared effects write nothing
    Havoc,
}

pub struct Machine<'a> {
    pub view: &'a FnView,
    pub loc: Loc,
    pub state: RefState,
    pub intrinsics: IntrinsicMode,
    /// number of events so far (feeds the havoc values)
    pub events: u64,
    pub havoc_seed: u64,
    /// effect of the most recent `step`, kept even when choosing the successor then failed
    pub last_effect: Option<Effect>,
}

pub fn havoc_value(seed: u64, event: u64, name: &str, bits: usize) -> Bv {
    let mut x = seed ^ event.wrapping_mul(0x9E37_79B9_7F4A_7C15) ^ crate::engine::fingerprint(&name);
    let mut words = Vec::new();
    for _ in 0..((bits + 63) / 64) {
        x = x.wrapping_add(0x9E37_79B9_7F4A_7C15);
        let mut z = x;
        z = (z ^ (z >> 30)).wrapping_mul(0xBF58_476D_1CE4_E5B9);
        z = (z ^ (z >> 27)).wrapping_mul(0x94D0_49BB_1331_11EB);
        z ^= z >> 31;
        words.push(z);
    }
    let mut v = num_bigint::BigUint::from(0u32);
    for w in words {
        v = (v << 64) | num_bigint::BigUint::from(w);
    }
    Bv::new(v, bits)
}

impl<'a> Machine<'a> {
    pub fn new(view: &'a FnView, state: RefState) -> Result<Machine<'a>, Fault> {
        Ok(Machine {
            view,
            loc: view.entry_loc()?,
            state,
            intrinsics: IntrinsicMode::Fault,
            events: 0,
            havoc_seed: 0,
            last_effect: None,
        })
    }

    fn addr_of(&self, e: &il::Expression) -> Result<u64, Fault> {
        let v = eval(e, &self.state.scalars)?;
        v.to_u64().ok_or(Fault::AddressTooWide)
    }

    /// Select the successor of the end of `block`: the unique out-edge whose guard is one.
    pub fn choose_edge(&self, block: usize) -> Result<Loc, Fault> {
        let mut chosen = None;
        for e in self.view.out_edges(block) {
            let enabled = match &e.cond {
                None => true,
                Some(c) => {
                    let v = eval(c, &self.state.scalars)?;
                    if v.w != 1 {
                        return Err(Fault::Sort("edge guard is not 1 bit".into()));
                    }
                    v.is_one()
                }
            };
            if enabled {
                if chosen.is_some() {
                    return Err(Fault::TwoEdges);
                }
                chosen = Some(Loc::Edge(e.head, e.tail));
            }
        }
        chosen.ok_or(Fault::NoEdge)
    }

    /// The location control reaches by falling through the current instruction.
    pub fn fallthrough(&self) -> Result<Loc, Fault> {
        match self.loc {
            Loc::Instr(b, i) => {
                let is = self
                    .view
                    .blocks
                    .get(&b)
                    .ok_or_else(|| Fault::BadLocation(format!("no block {}", b)))?;
                let pos = is
                    .iter()
                    .position(|x| x.index == i)
                    .ok_or_else(|| Fault::BadLocation(format!("no instruction {} in {}", i, b)))?;
                if pos + 1 < is.len() {
                    Ok(Loc::Instr(b, is[pos + 1].index))
                } else {
                    self.choose_edge(b)
                }
            }
            Loc::Empty(b) => self.choose_edge(b),
            Loc::Edge(_, t) => self.view.block_entry(t),
        }
    }

    /// Execute the current location.  On `Effect::Branch` the location is left unchanged and the
    /// caller decides where control continues (`fallthrough()` models a returning call).
    pub fn step(&mut self) -> Result<Effect, Fault> {
        self.events += 1;
        self.last_effect = None;
        let effect = match self.loc {
            Loc::Edge(..) | Loc::Empty(..) => Effect::Pass,
            Loc::Instr(b, i) => {
                let iv = self
                    .view
                    .instr(b, i)
                    .ok_or_else(|| Fault::BadLocation(format!("no instruction {}:{}", b, i)))?;
                match &iv.op {
                    il::Operation::Assign { dst, src } => {
                        let v = eval(src, &self.state.scalars)?;
                        if v.w != dst.bits() {
                            return Err(Fault::Sort(format!(
                                "assignment of {} bits to {}",
                                v.w,
                                dst.identifier()
                            )));
                        }
                        self.state.scalars.insert(dst.name().to_string(), v.clone());
                        Effect::Assign {
                            name: dst.name().to_string(),
                            value: v,
                        }
                    }
                    il::Operation::Store { index, src } => {
                        let v = eval(src, &self.state.scalars)?;
                        let a = self.addr_of(index)?;
                        self.state.mem.store(a, &v)?;
                        Effect::Store { addr: a, value: v }
                    }
                    il::Operation::Load { dst, index } => {
                        let a = self.addr_of(index)?;
                        let v = self.state.mem.load(a, dst.bits())?;
                        self.state.scalars.insert(dst.name().to_string(), v.clone());
                        Effect::Load {
                            name: dst.name().to_string(),
                            addr: a,
                            value: v,
                        }
                    }
                    il::Operation::Branch { target } => {
                        let a = self.addr_of(target)?;
                        self.last_effect = Some(Effect::Branch { target: a });
                        return Ok(Effect::Branch { target: a });
                    }
                    il::Operation::Intrinsic { intrinsic } => match self.intrinsics {
                        IntrinsicMode::Fault => {
                            return Err(Fault::Intrinsic(intrinsic.instruction_str().to_string()))
                        }
                        IntrinsicMode::Havoc => {
                            let mut wrote = Vec::new();
                            if let Some(ws) = intrinsic.scalars_written() {
                                for s in ws {
                                    let v = havoc_value(self.havoc_seed, self.events, s.name(), s.bits());
                                    self.state.scalars.insert(s.name().to_string(), v.clone());
                                    wrote.push((s.name().to_string(), v));
                                }
                            }
                            Effect::Intrinsic {
                                text: intrinsic.instruction_str().to_string(),
                                wrote,
                            }
                        }
                    },
                    il::Operation::Nop { .. } => Effect::Nop,
                }
            }
        };
        self.last_effect = Some(effect.clone());
        self.loc = self.fallthrough()?;
        Ok(effect)
    }

    /// Model "the callee returned": every currently defined scalar gets an oracle-chosen value.
    pub fn havoc_defined(&mut self) {
        let names: Vec<(String, usize)> = self
            .state
            .scalars
            .iter()
            .map(|(k, v)| (k.clone(), v.w))
            .collect();
        for (n, w) in names {
            let v = havoc_value(self.havoc_seed, self.events, &n, w);
            self.state.scalars.insert(n, v);
        }
    }
}
