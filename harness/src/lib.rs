//! `fv`: property-based verification harness for falcon (see /verif/DESIGN.md).
pub mod bv;
pub mod engine;
pub mod gen_graph;
pub mod gen_il;
pub mod refil;
pub mod tape;

pub use engine::{Failure, Obs, Spec, Tier};
