//! Generator of IL functions (`FnSpec`) and initial states, decoded from an entropy tape.
//!
//! A `FnSpec` is plain, serialisable data; `build()` turns it into a `falcon::il::Function`
//! through falcon's public construction API.  Guards are mutually exclusive and exhaustive by
//! construction unless `broken_guards` is requested.

use crate::bv::Bv;
use crate::refil::{RefMem, RefState};
use crate::tape::Tape;
use falcon::il;
use serde::{Deserialize, Serialize};
use std::collections::{BTreeMap, BTreeSet};

#[derive(Clone, Debug, Serialize, Deserialize, PartialEq, Eq, Hash)]
pub struct OpSpec {
    pub op: il::Operation,
    pub address: Option<u64>,
}

#[derive(Clone, Debug, Serialize, Deserialize, PartialEq, Eq, Hash)]
pub struct FnSpec {
    pub address: u64,
    /// block i gets index i
    pub blocks: Vec<Vec<OpSpec>>,
    pub edges: Vec<(usize, usize, Option<il::Expression>)>,
    pub entry: Option<usize>,
    pub exit: Option<usize>,
    /// (block, position): before the operation at this position is emitted (position = number of
    /// operations of the block: at its end) a throw-away nop is appended and removed again with
    /// `Block::remove_instruction`, so that the block's instruction indices have a gap there -
    /// the shape dead-code removal and other editing leave behind.  Positions stay dense.
    #[serde(default)]
    pub gaps: Vec<(usize, usize)>,
    /// the function carries this index (`Function::set_index`), as one taken out of a `Program`
    /// does; None = a free-standing function
    #[serde(default)]
    pub index: Option<usize>,
    /// (block, i, j): once the block is built, the instructions at positions i and j change
    /// places through `Block::instructions_mut()` (what an instruction scheduler does): the
    /// block executes in the new order and instruction indices no longer equal positions although
    /// nothing was removed.  Swaps naming a position the block does not have are skipped.
    #[serde(default)]
    pub swaps: Vec<(usize, usize, usize)>,
}

impl FnSpec {
    /// Build through the public API.  Errors from falcon are returned as text.
    pub fn build_cfg(&self) -> Result<il::ControlFlowGraph, String> {
        let mut cfg = il::ControlFlowGraph::new();
        for (bi, ops) in self.blocks.iter().enumerate() {
            let block = cfg.new_block().map_err(|e| e.to_string())?;
            if block.index() != bi {
                return Err(format!("new_block gave index {} for block {}", block.index(), bi));
            }
            let make_gap = |block: &mut il::Block| -> Result<(), String> {
                block.nop();
                let index = block.instructions().last().map(|i| i.index()).ok_or("nop not appended")?;
                block.remove_instruction(index).map_err(|e| e.to_string())
            };
            for (k, o) in ops.iter().enumerate() {
                for _ in self.gaps.iter().filter(|g| **g == (bi, k)) {
                    make_gap(block)?;
                }
                match &o.op {
                    il::Operation::Assign { dst, src } => block.assign(dst.clone(), src.clone()),
                    il::Operation::Store { index, src } => block.store(index.clone(), src.clone()),
                    il::Operation::Load { dst, index } => block.load(dst.clone(), index.clone()),
                    il::Operation::Branch { target } => block.branch(target.clone()),
                    il::Operation::Intrinsic { intrinsic } => block.intrinsic(intrinsic.clone()),
                    il::Operation::Nop { placeholder: Some(inner) } => block.placeholder((**inner).clone()),
                    il::Operation::Nop { .. } => block.nop(),
                }
                let last = block.instructions().len() - 1;
                block.instructions_mut()[last].set_address(o.address);
            }
            for _ in self.gaps.iter().filter(|g| **g == (bi, ops.len())) {
                make_gap(block)?;
            }
            for (_, i, j) in self.swaps.iter().filter(|s| s.0 == bi) {
                let v = block.instructions_mut();
                if *i < v.len() && *j < v.len() {
                    v.swap(*i, *j);
                }
            }
        }
        for (h, t, c) in &self.edges {
            match c {
                Some(c) => cfg.conditional_edge(*h, *t, c.clone()),
                None => cfg.unconditional_edge(*h, *t),
            }
            .map_err(|e| format!("edge {}->{}: {}", h, t, e))?;
        }
        if let Some(e) = self.entry {
            cfg.set_entry(e).map_err(|e| e.to_string())?;
        }
        if let Some(e) = self.exit {
            cfg.set_exit(e).map_err(|e| e.to_string())?;
        }
        Ok(cfg)
    }

    pub fn build(&self) -> Result<il::Function, String> {
        let mut f = il::Function::new(self.address, self.build_cfg()?);
        if self.index.is_some() {
            f.set_index(self.index);
        }
        Ok(f)
    }

    pub fn render(&self) -> String {
        let mut s = format!(
            "fn@0x{:x} entry={:?} exit={:?}\n",
            self.address, self.entry, self.exit
        );
        for (i, ops) in self.blocks.iter().enumerate() {
            s.push_str(&format!(" block {}:\n", i));
            for (k, o) in ops.iter().enumerate() {
                match o.address {
                    Some(a) => s.push_str(&format!("   {:02} @0x{:x} {}\n", k, a, o.op)),
                    None => s.push_str(&format!("   {:02} {}\n", k, o.op)),
                }
            }
        }
        if !self.gaps.is_empty() {
            s.push_str(&format!(" instruction-index gaps before (block, position): {:?}\n", self.gaps));
        }
        if !self.swaps.is_empty() {
            s.push_str(&format!(" then instructions swapped in place (block, position, position): {:?}\n", self.swaps));
        }
        for (h, t, c) in &self.edges {
            match c {
                Some(c) => s.push_str(&format!(" edge {}->{} if {}\n", h, t, c)),
                None => s.push_str(&format!(" edge {}->{}\n", h, t)),
            }
        }
        s
    }

    pub fn out_edges(&self, b: usize) -> Vec<&(usize, usize, Option<il::Expression>)> {
        self.edges.iter().filter(|e| e.0 == b).collect()
    }

    pub fn reachable_blocks(&self) -> BTreeSet<usize> {
        let mut seen = BTreeSet::new();
        let mut stack: Vec<usize> = self.entry.into_iter().collect();
        while let Some(b) = stack.pop() {
            if seen.insert(b) {
                for e in self.out_edges(b) {
                    stack.push(e.1);
                }
            }
        }
        seen
    }

    pub fn has_cycle(&self) -> bool {
        // cycle among reachable blocks
        let reach = self.reachable_blocks();
        let mut color: BTreeMap<usize, u8> = BTreeMap::new();
        fn dfs(f: &FnSpec, b: usize, color: &mut BTreeMap<usize, u8>) -> bool {
            color.insert(b, 1);
            for e in f.out_edges(b) {
                match color.get(&e.1).copied().unwrap_or(0) {
                    1 => return true,
                    0 => {
                        if dfs(f, e.1, color) {
                            return true;
                        }
                    }
                    _ => {}
                }
            }
            color.insert(b, 2);
            false
        }
        reach.iter().any(|b| color.get(b).copied().unwrap_or(0) == 0 && dfs(self, *b, &mut color))
    }
}

#[derive(Clone, Debug)]
pub struct IlParams {
    pub max_blocks: usize,
    pub max_ops: usize,
    /// widths of pool scalars (the first pool scalar always has `addr_bits`)
    pub widths: Vec<usize>,
    pub max_scalars: usize,
    pub addr_bits: usize,
    pub mem: bool,
    pub branch: bool,
    pub intrinsic: bool,
    /// entry block starts by assigning every pool scalar
    pub definitely_assigned: bool,
    /// no edge may target the entry block
    pub entry_no_preds: bool,
    /// allow blocks unreachable from the entry (possibly with edges into live blocks)
    pub unreachable: bool,
    /// per-mille of multi-way blocks whose guards are deliberately not exclusive/exhaustive
    pub broken_guards_permille: u32,
    pub scratch_base: u64,
    pub scratch_len: u64,
    pub max_expr_depth: usize,
    /// candidate constant targets for Branch operations
    pub branch_targets: Vec<u64>,
    /// divisors are forced odd (non-zero) except for this per-mille
    pub raw_divisor_permille: u32,
    /// raw (possibly unmapped) addresses per-mille
    pub raw_address_permille: u32,
    /// emit AShr with unrestricted amounts (otherwise amount is masked below the width)
    pub raw_ashr: bool,
    /// per-mille of functions that get 1-3 instruction-index gaps (`FnSpec::gaps`)
    pub index_gaps_permille: u32,
    /// half of the generated nops are placeholders for an assignment (`Nop { placeholder: Some(..) }`)
    pub nop_placeholders: bool,
    /// half of the functions carry a function index (as if taken out of a `Program`)
    pub function_index: bool,
}

impl Default for IlParams {
    fn default() -> IlParams {
        IlParams {
            max_blocks: 7,
            max_ops: 4,
            widths: vec![1, 8, 16, 32, 64],
            max_scalars: 6,
            addr_bits: 64,
            mem: true,
            branch: false,
            intrinsic: false,
            definitely_assigned: false,
            entry_no_preds: false,
            unreachable: false,
            broken_guards_permille: 0,
            scratch_base: 0x1000_0000,
            scratch_len: 64,
            max_expr_depth: 3,
            branch_targets: vec![0x4000, 0x5000],
            raw_divisor_permille: 30,
            raw_address_permille: 30,
            raw_ashr: false,
            index_gaps_permille: 0,
            nop_placeholders: false,
            function_index: false,
        }
    }
}

#[derive(Clone, Debug, Serialize, Deserialize, PartialEq, Eq)]
pub struct Pool {
    pub scalars: Vec<(String, usize)>,
}

impl Pool {
    pub fn of_width(&self, w: usize) -> Vec<il::Scalar> {
        self.scalars
            .iter()
            .filter(|s| s.1 == w)
            .map(|s| il::scalar(s.0.clone(), s.1))
            .collect()
    }
    pub fn all(&self) -> Vec<il::Scalar> {
        self.scalars.iter().map(|s| il::scalar(s.0.clone(), s.1)).collect()
    }
}

pub fn gen_pool(t: &mut Tape, p: &IlParams) -> Pool {
    let n = t.range(2.min(p.max_scalars), p.max_scalars);
    let mut scalars = vec![("s0".to_string(), p.addr_bits)];
    for i in 1..n {
        let w = *t.pick(&p.widths);
        scalars.push((format!("s{}", i), w));
    }
    Pool { scalars }
}

fn konst(v: u128, bits: usize) -> il::Expression {
    il::Expression::constant(il::Constant::new_big(num_bigint::BigUint::from(v), bits))
}

/// A sort-correct expression of exactly `w` bits.
pub fn gen_expr(t: &mut Tape, pool: &Pool, p: &IlParams, w: usize, depth: usize) -> il::Expression {
    use il::Expression as E;
    let leaf = |t: &mut Tape| -> il::Expression {
        let cands = pool.of_width(w);
        if !cands.is_empty() && t.chance(3, 5) {
            E::Scalar(t.pick(&cands).clone())
        } else {
            konst(t.biased(w), w)
        }
    };
    if depth == 0 || t.chance(1, 4) {
        return leaf(t);
    }
    let b = |e: il::Expression| Box::new(e);
    // choices valid at any width
    let mut kinds: Vec<u8> = vec![0, 0, 1, 1, 2, 3, 3, 4, 4, 5, 6, 7, 8, 9, 10, 11, 12, 13];
    if w == 1 {
        kinds.extend_from_slice(&[20, 20, 20, 20, 20, 20]); // comparisons
    }
    if p.widths.iter().any(|x| *x < w) {
        kinds.extend_from_slice(&[21, 22]);
    }
    if p.widths.iter().any(|x| *x > w) {
        kinds.push(23);
    }
    kinds.push(24);
    let k = *t.pick(&kinds);
    let sub = |t: &mut Tape| gen_expr(t, pool, p, w, depth - 1);
    match k {
        0 => E::Add(b(sub(t)), b(sub(t))),
        1 => E::Sub(b(sub(t)), b(sub(t))),
        2 => E::Mul(b(sub(t)), b(sub(t))),
        3 => E::And(b(sub(t)), b(sub(t))),
        4 => E::Or(b(sub(t)), b(sub(t))),
        5 => E::Xor(b(sub(t)), b(sub(t))),
        6 => E::Shl(b(sub(t)), b(shift_amount(t, pool, p, w, depth))),
        7 => E::Shr(b(sub(t)), b(shift_amount(t, pool, p, w, depth))),
        8 => {
            let amt = if p.raw_ashr {
                shift_amount(t, pool, p, w, depth)
            } else if w.is_power_of_two() {
                E::And(b(sub(t)), b(konst(w as u128 - 1, w)))
            } else {
                konst((t.below(w)) as u128, w)
            };
            E::AShr(b(sub(t)), b(amt))
        }
        9..=12 => {
            let l = sub(t);
            let r = sub(t);
            let r = if (t.raw() % 1000) < p.raw_divisor_permille {
                r
            } else {
                E::Or(b(r), b(konst(1, w)))
            };
            match k {
                9 => E::Divu(b(l), b(r)),
                10 => E::Modu(b(l), b(r)),
                11 => E::Divs(b(l), b(r)),
                _ => E::Mods(b(l), b(r)),
            }
        }
        13 => {
            let c = gen_expr(t, pool, p, 1, depth - 1);
            E::Ite(b(c), b(sub(t)), b(sub(t)))
        }
        20 => {
            let cw = *t.pick(&p.widths);
            let l = gen_expr(t, pool, p, cw, depth - 1);
            let r = gen_expr(t, pool, p, cw, depth - 1);
            match t.below(4) {
                0 => E::Cmpeq(b(l), b(r)),
                1 => E::Cmpneq(b(l), b(r)),
                2 => E::Cmpltu(b(l), b(r)),
                _ => E::Cmplts(b(l), b(r)),
            }
        }
        21 | 22 => {
            let smaller: Vec<usize> = p.widths.iter().copied().filter(|x| *x < w).collect();
            let sw = *t.pick(&smaller);
            let x = gen_expr(t, pool, p, sw, depth - 1);
            // falcon's Constant::sext only accepts byte-multiple targets (recorded under C04);
            // the shared generator stays inside what every evaluator accepts
            if k == 22 && w % 8 == 0 {
                E::Sext(w, b(x))
            } else {
                E::Zext(w, b(x))
            }
        }
        23 => {
            let larger: Vec<usize> = p.widths.iter().copied().filter(|x| *x > w).collect();
            let lw = *t.pick(&larger);
            E::Trun(w, b(gen_expr(t, pool, p, lw, depth - 1)))
        }
        _ => leaf(t),
    }
}

fn shift_amount(t: &mut Tape, pool: &Pool, p: &IlParams, w: usize, depth: usize) -> il::Expression {
    match t.below(3) {
        0 => konst(t.below(w + 2) as u128, w),
        1 => il::Expression::And(
            Box::new(gen_expr(t, pool, p, w, depth - 1)),
            Box::new(konst((2 * w as u128 - 1) & if w >= 128 { u128::MAX } else { (1u128 << w) - 1 }, w)),
        ),
        _ => gen_expr(t, pool, p, w, depth - 1),
    }
}

/// An address expression of `addr_bits` bits, almost always inside the scratch window.
pub fn gen_address(t: &mut Tape, pool: &Pool, p: &IlParams) -> il::Expression {
    let w = p.addr_bits;
    if (t.raw() % 1000) < p.raw_address_permille {
        return gen_expr(t, pool, p, w, 1);
    }
    let e = gen_expr(t, pool, p, w, 1);
    let mask = (p.scratch_len.next_power_of_two() - 1) as u128;
    il::Expression::Add(
        Box::new(il::Expression::And(Box::new(e), Box::new(konst(mask, w)))),
        Box::new(konst(p.scratch_base as u128, w)),
    )
}

pub fn gen_op(t: &mut Tape, pool: &Pool, p: &IlParams, intrinsic_counter: &mut usize) -> il::Operation {
    let mut weights = vec![50u32, 5]; // assign, nop
    weights.push(if p.mem { 14 } else { 0 }); // store
    weights.push(if p.mem { 14 } else { 0 }); // load
    weights.push(if p.branch { 5 } else { 0 });
    weights.push(if p.intrinsic { 7 } else { 0 });
    let all = pool.all();
    match t.weighted(&weights) {
        0 => {
            let dst = t.pick(&all).clone();
            // sometimes a self-referential update  x = x op e
            let src = if t.chance(1, 5) {
                let e = gen_expr(t, pool, p, dst.bits(), 1);
                let x = Box::new(il::Expression::Scalar(dst.clone()));
                match t.below(3) {
                    0 => il::Expression::Add(x, Box::new(e)),
                    1 => il::Expression::Sub(x, Box::new(e)),
                    _ => il::Expression::Xor(x, Box::new(e)),
                }
            } else {
                gen_expr(t, pool, p, dst.bits(), p.max_expr_depth)
            };
            il::Operation::Assign { dst, src }
        }
        1 => {
            // a nop may stand in for another operation (what dead-code removal and the x86 lifter's
            // branch placeholders leave): it still does nothing and writes nothing
            if p.nop_placeholders && t.chance(1, 2) {
                let dst = t.pick(&all).clone();
                let src = gen_expr(t, pool, p, dst.bits(), 1);
                il::Operation::Nop { placeholder: Some(Box::new(il::Operation::Assign { dst, src })) }
            } else {
                il::Operation::Nop { placeholder: None }
            }
        }
        2 => {
            let w = *t.pick(&[8usize, 16, 32, 64, 128]);
            let w = if p.widths.contains(&w) || w <= 64 { w } else { 64 };
            il::Operation::Store {
                index: gen_address(t, pool, p),
                src: gen_expr(t, pool, p, w, 2),
            }
        }
        3 => {
            let cands: Vec<il::Scalar> = all.iter().filter(|s| s.bits() % 8 == 0).cloned().collect();
            if cands.is_empty() {
                return il::Operation::Nop { placeholder: None };
            }
            il::Operation::Load {
                dst: t.pick(&cands).clone(),
                index: gen_address(t, pool, p),
            }
        }
        4 => {
            let target = if t.chance(1, 3) {
                gen_expr(t, pool, p, p.addr_bits, 1)
            } else {
                konst(*t.pick(&p.branch_targets) as u128, p.addr_bits)
            };
            il::Operation::Branch { target }
        }
        _ => {
            *intrinsic_counter += 1;
            let pick_set = |t: &mut Tape| -> Option<Vec<il::Expression>> {
                if t.chance(1, 3) {
                    None
                } else {
                    let n = t.below(3);
                    Some((0..n).map(|_| il::Expression::Scalar(t.pick(&all).clone())).collect())
                }
            };
            let written = pick_set(t);
            let read = pick_set(t);
            il::Operation::Intrinsic {
                intrinsic: il::Intrinsic::new(
                    "intr",
                    format!("intr {}", intrinsic_counter),
                    Vec::new(),
                    written,
                    read,
                    vec![0xde, 0xad, 0xbe, 0xef],
                ),
            }
        }
    }
}

/// Guards for `k` out-edges that are mutually exclusive and exhaustive in every state in which
/// they evaluate at all.
pub fn gen_guards(t: &mut Tape, pool: &Pool, p: &IlParams, k: usize) -> Vec<Option<il::Expression>> {
    use il::Expression as E;
    let b = |e: il::Expression| Box::new(e);
    match k {
        0 => vec![],
        1 => vec![None],
        2 => {
            let c = gen_expr(t, pool, p, 1, 2);
            vec![Some(c.clone()), Some(E::Cmpeq(b(c), b(konst(0, 1))))]
        }
        _ => {
            let ws: Vec<usize> = p.widths.iter().copied().filter(|w| *w >= 8).collect();
            let w = if ws.is_empty() { 8 } else { *t.pick(&ws) };
            // keep the selector small so every edge is taken sometimes
            let e = E::And(b(gen_expr(t, pool, p, w, 2)), b(konst(3, w)));
            let mut v = Vec::new();
            for i in 0..k - 1 {
                v.push(Some(E::Cmpeq(b(e.clone()), b(konst(i as u128, w)))));
            }
            // e >=u k-1
            v.push(Some(E::Cmpeq(
                b(E::Cmpltu(b(e), b(konst(k as u128 - 1, w)))),
                b(konst(0, 1)),
            )));
            v
        }
    }
}

#[derive(Clone, Debug, Serialize, Deserialize)]
pub struct GenFn {
    pub spec: FnSpec,
    pub pool: Pool,
}

/// Decode a function from the tape.
pub fn gen_fn(t: &mut Tape, p: &IlParams) -> GenFn {
    let pool = gen_pool(t, p);
    let n = t.range(1, p.max_blocks);
    let address = 0x4000u64;
    // skeleton: out-degree and tails per block
    let mut tails: Vec<Vec<usize>> = vec![Vec::new(); n];
    for (i, outs) in tails.iter_mut().enumerate() {
        let k = t.weighted(&[30, 20, 35, 15]); // 1,0,2,3 out-edges  (index 0 = simple)
        let k = [1usize, 0, 2, 3][k].min(n);
        let mut cand: Vec<usize> = Vec::new();
        for _ in 0..k {
            // forward neighbour, any block, self
            let tgt = match t.weighted(&[50, 35, 15]) {
                0 => (i + 1) % n,
                1 => t.below(n),
                _ => i,
            };
            let tgt = if p.entry_no_preds && tgt == 0 { (i + 1).min(n - 1) } else { tgt };
            if p.entry_no_preds && tgt == 0 {
                continue;
            }
            if !cand.contains(&tgt) {
                cand.push(tgt);
            }
        }
        *outs = cand;
    }
    // make unreachable blocks reachable (unless we want some)
    loop {
        let mut seen = BTreeSet::new();
        let mut stack = vec![0usize];
        while let Some(b) = stack.pop() {
            if seen.insert(b) {
                stack.extend(tails[b].iter().copied());
            }
        }
        let Some(u) = (0..n).find(|b| !seen.contains(b)) else { break };
        if p.unreachable && t.chance(1, 4) {
            // leave it unreachable; make sure it (sometimes) points into the live part
            if t.chance(1, 2) && !tails[u].iter().any(|x| seen.contains(x)) && tails[u].len() < 3 {
                let live: Vec<usize> = seen.iter().copied().filter(|b| !(p.entry_no_preds && *b == 0)).collect();
                if !live.is_empty() {
                    let tgt = *t.pick(&live);
                    if !tails[u].contains(&tgt) {
                        tails[u].push(tgt);
                    }
                }
            }
            // mark as handled by connecting nothing; break the search for this block by
            // temporarily treating it as seen: simplest is to stop repairing altogether
            break;
        }
        let live: Vec<usize> = seen.iter().copied().filter(|b| tails[*b].len() < 3).collect();
        let from = if live.is_empty() { *seen.iter().next().unwrap() } else { *t.pick(&live) };
        if !tails[from].contains(&u) {
            tails[from].push(u);
        } else {
            break;
        }
    }
    // operations
    let mut counter = 0usize;
    let mut next_addr = address;
    let mut blocks: Vec<Vec<OpSpec>> = Vec::new();
    for i in 0..n {
        let mut ops = Vec::new();
        if i == 0 && p.definitely_assigned {
            for s in pool.all() {
                let src = konst(t.biased(s.bits()), s.bits());
                ops.push(il::Operation::Assign { dst: s, src });
            }
        }
        let m = t.range(0, p.max_ops);
        for _ in 0..m {
            ops.push(gen_op(t, &pool, p, &mut counter));
        }
        blocks.push(
            ops.into_iter()
                .map(|op| {
                    let a = next_addr;
                    next_addr += 4;
                    OpSpec { op, address: Some(a) }
                })
                .collect(),
        );
    }
    // guards
    let mut edges = Vec::new();
    for (i, outs) in tails.iter().enumerate() {
        let mut guards = gen_guards(t, &pool, p, outs.len());
        if outs.len() >= 1 && p.broken_guards_permille > 0 && (t.raw() % 1000) < p.broken_guards_permille {
            match t.below(3) {
                0 => {
                    // all guards false in some states: replace the last guard by a fresh condition
                    let last = guards.len() - 1;
                    guards[last] = Some(gen_expr(t, &pool, p, 1, 1));
                }
                1 => {
                    // single guarded edge / duplicated guard
                    let g = gen_expr(t, &pool, p, 1, 1);
                    for x in guards.iter_mut() {
                        *x = Some(g.clone());
                    }
                }
                _ => {
                    let last = guards.len() - 1;
                    guards[last] = Some(konst(0, 1));
                }
            }
        }
        for (tail, g) in outs.iter().zip(guards.into_iter()) {
            edges.push((i, *tail, g));
        }
    }
    let exit = (0..n).rev().find(|b| tails[*b].is_empty()).or(Some(n - 1));
    let mut gaps = Vec::new();
    if p.index_gaps_permille > 0 && t.below(1000) + p.index_gaps_permille as usize >= 1000 {
        for _ in 0..t.range(1, 3) {
            let b = t.below(n);
            // mostly in the middle of a block (an instruction follows the gap)
            let k = if blocks[b].len() >= 2 && t.chance(3, 4) { t.range(1, blocks[b].len() - 1) } else { t.below(blocks[b].len() + 1) };
            gaps.push((b, k));
        }
    }
    GenFn {
        spec: FnSpec {
            address,
            blocks,
            edges,
            entry: Some(0),
            exit,
            gaps,
            swaps: Vec::new(),
            index: if p.function_index && t.chance(1, 2) { Some(t.below(4)) } else { None },
        },
        pool,
    }
}

/// An initial state: scalar values (boundary-biased, pointers for address-width scalars) and a
/// scratch window of memory.
pub fn gen_state(t: &mut Tape, pool: &Pool, p: &IlParams, big_endian: bool, missing_permille: u32) -> RefState {
    let mut scalars = BTreeMap::new();
    for (name, w) in &pool.scalars {
        if missing_permille > 0 && (t.raw() % 1000) < missing_permille {
            continue;
        }
        let v = if *w == p.addr_bits && t.chance(1, 2) {
            (p.scratch_base + t.below(p.scratch_len as usize) as u64) as u128
        } else {
            t.biased(*w)
        };
        scalars.insert(name.clone(), Bv::from_u128(v, *w));
    }
    let mut mem = RefMem::new(big_endian);
    let seed = t.raw() as u64;
    let lo = p.scratch_base.saturating_sub(8);
    let hi = p.scratch_base + p.scratch_len.next_power_of_two() + 24;
    for a in lo..hi {
        let x = (a ^ seed).wrapping_mul(0x9E37_79B9_7F4A_7C15) >> 56;
        mem.bytes.insert(a, x as u8);
    }
    RefState { scalars, mem }
}

/// Convert a reference state into a falcon executor state (data conversion only).
pub fn to_falcon_state(s: &RefState) -> falcon::executor::State {
    use falcon::memory::MemoryPermissions;
    let endian = if s.mem.big_endian {
        falcon::architecture::Endian::Big
    } else {
        falcon::architecture::Endian::Little
    };
    let mut mem = falcon::executor::Memory::new(endian);
    for (a, b) in &s.mem.bytes {
        mem.store(*a, il::const_(*b as u64, 8)).expect("store byte");
    }
    let _ = MemoryPermissions::ALL;
    let mut st = falcon::executor::State::new(mem);
    for (k, v) in &s.scalars {
        st.set_scalar(k.clone(), v.to_constant());
    }
    st
}
