//! C02 — MIPS and PowerPC lifters agree with the architecture manuals.
//!
//! Domain: one instruction word (MIPS branches: a (branch, delay-slot) pair) built from a
//! template encoder with every field random, or a uniformly random word; a full register / HI/LO
//! / LR/CTR/CR state with boundary bias; a total byte memory (deterministic background + writes).
//! Oracle: reference interpreters written from the manuals (mips_ref.rs / ppc_ref.rs) that decode
//! the raw word.  Relation: after running the lifted IL with the reference IL interpreter, the
//! registers, HI/LO (LR/CTR/CR bits/carry), every memory byte either side touched and the next
//! program counter (or the trap kind) are those of the reference.

mod bytemem;
mod mips_asm;
mod mips_ref;
mod ppc_asm;
mod ppc_ref;
mod run_il;

use falcon::translator::mips::{Mips, Mipsel};
use falcon::translator::ppc::Ppc;
use falcon::translator::{BlockTranslationResult, Options, Translator};
use fv::bv::Bv;
use fv::engine::{self, guard, Failure, Obs, Spec, Tier};
use fv::refil::{RefMem, RefState};
use fv::tape::{from_tape, Tape};
use run_il::{IlOutcome, IlRun};
use serde::{Deserialize, Serialize};
use std::collections::{BTreeMap, BTreeSet};

#[derive(Clone, Copy, Debug, PartialEq, Eq, Hash, Serialize, Deserialize)]
enum Isa {
    Mips,
    Mipsel,
    Ppc,
}

impl Isa {
    fn name(self) -> &'static str {
        match self {
            Isa::Mips => "mips",
            Isa::Mipsel => "mipsel",
            Isa::Ppc => "ppc",
        }
    }
    /// family used in signatures (one lifter serves both MIPS byte orders)
    fn family(self) -> &'static str {
        match self {
            Isa::Ppc => "ppc",
            _ => "mips",
        }
    }
}

#[derive(Clone, Debug, Serialize, Deserialize)]
struct Case {
    isa: Isa,
    /// one instruction word, or (MIPS branch, delay slot)
    words: Vec<u32>,
    pc: u32,
    /// r0..r31 / $0..$31 ($0 is ignored)
    regs: Vec<u32>,
    /// MIPS: [hi, lo]; PPC: [lr, ctr, cr (IBM bit 0 = most significant), xer.ca]
    aux: Vec<u32>,
    mem_seed: u64,
    /// "template:<name>" or "random"
    origin: String,
}

const MIPS_NAMES: [&str; 32] = [
    "$zero", "$at", "$v0", "$v1", "$a0", "$a1", "$a2", "$a3", "$t0", "$t1", "$t2", "$t3", "$t4", "$t5", "$t6", "$t7", "$s0",
    "$s1", "$s2", "$s3", "$s4", "$s5", "$s6", "$s7", "$t8", "$t9", "$k0", "$k1", "$gp", "$sp", "$fp", "$ra",
];
const CR_FLAGS: [&str; 4] = ["lt", "gt", "eq", "so"];

const MIPS_PCS: [u32; 6] = [0x0040_0000, 0x0010_0000, 0x8000_1000, 0x0fff_fffc, 0x7fff_fff0, 0xbfc0_0000];
const PPC_PCS: [u32; 5] = [0x1000_0000, 0x0400_0000, 0x7fff_fffc, 0x8000_0000, 0xefff_fff0];

// ---------------------------------------------------------------------------------------------
// generator

fn gen_value(t: &mut Tape) -> u32 {
    t.biased(32) as u32
}

fn decode_case(t: &mut Tape) -> Case {
    match t.weighted(&[36, 36, 28]) {
        0 => gen_mips(t, Isa::Mips),
        1 => gen_mips(t, Isa::Mipsel),
        _ => gen_ppc(t),
    }
}

fn gen_mips(t: &mut Tape, isa: Isa) -> Case {
    // the instruction first (so that the tape can never run dry before it), then the state
    let pc = MIPS_PCS[t.below(MIPS_PCS.len())];
    let mut words = Vec::new();
    let origin;
    let mut equalise: Option<(u8, u8, u32, u32)> = None;
    if t.chance(1, 12) {
        // uniformly random word; if it decodes as a branch give it a slot
        let w = t.raw();
        words.push(w);
        origin = "random".to_string();
        if let Ok(d) = mips_ref::decode(w) {
            if d.is_branch() {
                words.push(gen_mips_slot(t, &d));
            }
        }
    } else {
        let tpl = &mips_asm::TEMPLATES[t.below(mips_asm::TEMPLATES.len())];
        let (op, f, w) = tpl.instantiate(t);
        origin = format!("template:{}", tpl.name);
        words.push(w);
        if op.is_branch() {
            let d = mips_ref::decode(w).expect("template branch decodes");
            words.push(gen_mips_slot(t, &d));
            // make equality branches take both ways
            if matches!(op, mips_asm::Op::Beq | mips_asm::Op::Bne) && f.rt != 0 {
                equalise = Some((f.rs, f.rt, 2, 5));
            }
        }
        if op == mips_asm::Op::Teq && f.rt != 0 {
            equalise = Some((f.rs, f.rt, 1, 2));
        }
    }
    let mut regs: Vec<u32> = (0..32).map(|_| gen_value(t)).collect();
    regs[0] = 0;
    let hi = gen_value(t);
    let lo = gen_value(t);
    let mem_seed = t.u64();
    if let Some((rs, rt, num, den)) = equalise {
        if t.chance(num, den) {
            regs[rt as usize] = regs[rs as usize];
        }
    }
    // alignment steering for the memory access of the instruction (or of the delay slot)
    let mem_word = *words.last().unwrap();
    if let Ok(d) = mips_ref::decode(mem_word) {
        steer_mips_alignment(t, &d, &mut regs);
    }
    Case { isa, words, pc, regs, aux: vec![hi, lo], mem_seed, origin }
}

fn mips_access_align(k: mips_ref::K) -> Option<u32> {
    use mips_ref::K::*;
    match k {
        Lh | Lhu | Sh => Some(2),
        Lw | Sw | Ll | Sc => Some(4),
        Lwl | Lwr | Swl | Swr | Lb | Lbu | Sb => Some(1),
        _ => None,
    }
}

fn steer_mips_alignment(t: &mut Tape, d: &mips_ref::Decoded, regs: &mut [u32]) {
    let Some(align) = mips_access_align(d.k) else { return };
    if d.rs == 0 {
        return;
    }
    let base = regs[d.rs as usize];
    let ea = base.wrapping_add(d.simm());
    if align > 1 {
        // aligned 7 times out of 8 (the rest is the excluded address-error class)
        if t.chance(7, 8) {
            regs[d.rs as usize] = base.wrapping_sub(ea & (align - 1));
        }
    } else {
        // every alignment for LWL/LWR/SWL/SWR/LB/SB
        let k = t.below(4) as u32;
        regs[d.rs as usize] = base.wrapping_sub(ea & 3).wrapping_add(k);
    }
}

/// A delay-slot word: any non-branch template, weighted toward slots that read or write the
/// branch's condition registers, its target register and $ra.
fn gen_mips_slot(t: &mut Tape, branch: &mips_ref::Decoded) -> u32 {
    let non_branch: Vec<&mips_asm::Template> = mips_asm::TEMPLATES.iter().filter(|x| !x.op.is_branch()).collect();
    let tpl = non_branch[t.below(non_branch.len())];
    let mut f = mips_asm::gen_fields(t);
    (tpl.fix)(&mut f);
    let hot: [u8; 3] = [branch.rs as u8, branch.rt as u8, 31];
    match t.weighted(&[4, 4, 2, 1]) {
        0 => {}
        1 => {
            // write one of the registers the branch depends on / links
            let r = hot[t.below(3)];
            f.rd = r;
            if !matches!(tpl.op, mips_asm::Op::Sllv | mips_asm::Op::Srlv | mips_asm::Op::Srav) && writes_rt(tpl.op) {
                f.rt = r;
            }
        }
        2 => {
            // read $ra (or a branch register) as a source
            let r = hot[t.below(3)];
            f.rs = r;
        }
        _ => {
            let r = hot[t.below(3)];
            f.rd = r;
            f.rs = 31;
            if writes_rt(tpl.op) {
                f.rt = r;
            }
        }
    }
    (tpl.fix)(&mut f);
    mips_asm::encode(tpl.op, &f)
}

fn writes_rt(op: mips_asm::Op) -> bool {
    use mips_asm::Op::*;
    matches!(op, Addi | Addiu | Slti | Sltiu | Andi | Ori | Xori | Lui | Lb | Lh | Lwl | Lw | Lbu | Lhu | Lwr | Ll | Sc)
}

fn gen_ppc(t: &mut Tape) -> Case {
    let pc = PPC_PCS[t.below(PPC_PCS.len())];
    let mut words = Vec::new();
    let origin;
    if t.chance(1, 12) {
        words.push(t.raw());
        origin = "random".to_string();
    } else {
        let tpl = &ppc_asm::TEMPLATES[t.below(ppc_asm::TEMPLATES.len())];
        let (_, _, w) = tpl.instantiate(t);
        origin = format!("template:{}", tpl.name);
        words.push(w);
    }
    let mut regs: Vec<u32> = (0..32).map(|_| gen_value(t)).collect();
    let lr = gen_value(t);
    let ctr = match t.weighted(&[2, 2, 2, 6]) {
        0 => 0,
        1 => 1,
        2 => 2,
        _ => gen_value(t),
    };
    let cr = match t.weighted(&[1, 1, 6]) {
        0 => 0,
        1 => 0xffff_ffff,
        _ => t.raw(),
    };
    let ca = t.below(2) as u32;
    let mem_seed = t.u64();
    if let Ok(d) = ppc_ref::decode(words[0]) {
        if d.k == ppc_ref::K::Stmw && d.ra != 0 && t.chance(7, 8) {
            let base = regs[d.ra as usize];
            let ea = base.wrapping_add(d.simm());
            regs[d.ra as usize] = base.wrapping_sub(ea & 3);
        }
    }
    Case { isa: Isa::Ppc, words, pc, regs, aux: vec![lr, ctr, cr, ca], mem_seed, origin }
}

// ---------------------------------------------------------------------------------------------
// lifting and running

fn case_bytes(case: &Case) -> Vec<u8> {
    let be = case.isa != Isa::Mipsel;
    let mut v = Vec::new();
    for w in &case.words {
        v.extend_from_slice(&if be { w.to_be_bytes() } else { w.to_le_bytes() });
    }
    v
}

enum Lifted {
    Ok(BlockTranslationResult),
    Rejected(String),
    Panicked(String),
}

fn lift(case: &Case) -> Lifted {
    let bytes = case_bytes(case);
    let opts = Options::default();
    let r = guard(|| match case.isa {
        Isa::Mips => Mips::new().translate_block(&bytes, case.pc as u64, &opts),
        Isa::Mipsel => Mipsel::new().translate_block(&bytes, case.pc as u64, &opts),
        Isa::Ppc => Ppc::new().translate_block(&bytes, case.pc as u64, &opts),
    });
    match r {
        Ok(Ok(b)) => Lifted::Ok(b),
        Ok(Err(e)) => Lifted::Rejected(format!("{}", e)),
        Err(p) => Lifted::Panicked(format!("{} ({}:{})", p.msg, p.file, p.line)),
    }
}

fn bv32(v: u32) -> Bv {
    Bv::from_u64(v as u64, 32)
}

/// IL memory: the bytes the reference touched, with a margin of 8 on both sides, holding their
/// *initial* (background) values.
fn il_memory(touched: &BTreeSet<u32>, seed: u64, big_endian: bool) -> RefMem {
    let mut m = RefMem::new(big_endian);
    for a in touched {
        for dlt in -8i64..=8 {
            let x = (*a as i64 + dlt).rem_euclid(1 << 32) as u32;
            m.bytes.entry(x as u64).or_insert_with(|| bytemem::background(seed, x));
        }
    }
    m
}

fn mips_il_state(case: &Case, touched: &BTreeSet<u32>) -> RefState {
    let mut scalars = BTreeMap::new();
    for r in 1..32 {
        scalars.insert(MIPS_NAMES[r].to_string(), bv32(case.regs[r]));
    }
    scalars.insert("$hi".to_string(), bv32(case.aux[0]));
    scalars.insert("$lo".to_string(), bv32(case.aux[1]));
    RefState { scalars, mem: il_memory(touched, case.mem_seed, case.isa == Isa::Mips) }
}

fn ppc_il_state(case: &Case, touched: &BTreeSet<u32>) -> RefState {
    let mut scalars = BTreeMap::new();
    for r in 0..32 {
        scalars.insert(format!("r{}", r), bv32(case.regs[r]));
    }
    scalars.insert("lr".to_string(), bv32(case.aux[0]));
    scalars.insert("ctr".to_string(), bv32(case.aux[1]));
    for i in 0..32 {
        let bit = (case.aux[2] >> (31 - i)) & 1;
        scalars.insert(format!("cr{}-{}", i / 4, CR_FLAGS[i % 4]), Bv::from_u64(bit as u64, 1));
    }
    scalars.insert("carry".to_string(), Bv::from_u64((case.aux[3] & 1) as u64, 1));
    RefState { scalars, mem: il_memory(touched, case.mem_seed, true) }
}

fn mips_ref_state(case: &Case) -> mips_ref::MipsState {
    let mut st = mips_ref::MipsState::new(case.isa == Isa::Mips, case.mem_seed);
    for r in 1..32 {
        st.gpr[r] = case.regs[r];
    }
    st.hi = case.aux[0];
    st.lo = case.aux[1];
    st.pc = case.pc;
    st
}

fn ppc_ref_state(case: &Case) -> ppc_ref::PpcState {
    let mut st = ppc_ref::PpcState::new(case.mem_seed);
    for r in 0..32 {
        st.gpr[r] = case.regs[r];
    }
    st.lr = case.aux[0];
    st.ctr = case.aux[1];
    for i in 0..32 {
        st.cr[i] = (case.aux[2] >> (31 - i)) & 1 == 1;
    }
    st.ca = case.aux[3] & 1 == 1;
    st.pc = case.pc;
    st
}

// ---------------------------------------------------------------------------------------------
// comparison

/// One disagreement: which component, and a readable description.
#[derive(Clone, Debug, PartialEq, Eq)]
struct Diff {
    component: String,
    detail: String,
}

fn scalar_u32(run: &IlRun, name: &str) -> Option<u32> {
    run.state.scalars.get(name).and_then(|v| v.to_u64()).map(|v| v as u32)
}

fn compare_outcome(expected_next: Option<u32>, expected_trap: Option<&str>, run: &IlRun) -> Option<Diff> {
    match (&run.outcome, expected_next, expected_trap) {
        (IlOutcome::Fault(w), _, _) => Some(Diff { component: format!("il-fault:{}", w), detail: format!("the lifted IL cannot be executed: {}", w) }),
        (IlOutcome::Intrinsic(m), _, Some(t)) if m == t => None,
        (IlOutcome::Intrinsic(m), _, Some(t)) => Some(Diff { component: "trap-kind".into(), detail: format!("IL reaches intrinsic {}, manual says {}", m, t) }),
        (IlOutcome::Intrinsic(m), Some(n), None) => Some(Diff { component: "spurious-trap".into(), detail: format!("IL reaches intrinsic {}, manual says no exception (next pc 0x{:x})", m, n) }),
        (IlOutcome::Next(a), _, Some(t)) => Some(Diff { component: "missing-trap".into(), detail: format!("manual says {} exception, IL continues at 0x{:x}", t, a) }),
        (IlOutcome::Next(a), Some(n), None) if *a == n as u64 => None,
        (IlOutcome::Next(a), Some(n), None) => Some(Diff { component: "next-pc".into(), detail: format!("next pc 0x{:x}, manual 0x{:x}", a, n) }),
        _ => Some(Diff { component: "outcome".into(), detail: "inconsistent expected outcome".into() }),
    }
}

fn compare_mem(run: &IlRun, peek: &dyn Fn(u32) -> u8, diffs: &mut Vec<Diff>) {
    let mut bad = Vec::new();
    for (a, b) in &run.state.mem.bytes {
        let want = peek(*a as u32);
        if *a > u32::MAX as u64 {
            bad.push(format!("IL wrote beyond the 32-bit address space at 0x{:x}", a));
        } else if *b != want {
            bad.push(format!("[0x{:x}]={:02x} (manual {:02x})", a, b, want));
        }
    }
    if !bad.is_empty() {
        bad.truncate(8);
        diffs.push(Diff { component: "mem".into(), detail: bad.join(" ") });
    }
}

fn compare_mips(st: &mips_ref::MipsState, expected: mips_ref::Outcome, run: &IlRun) -> Vec<Diff> {
    let (n, tr) = match expected {
        mips_ref::Outcome::Next(n) => (Some(n), None),
        mips_ref::Outcome::Trap(t) => (None, Some(t)),
    };
    let mut diffs = Vec::new();
    let out = compare_outcome(n, tr, run);
    if let Some(d) = &out {
        if d.component != "next-pc" {
            // state after a broken / differently-ending execution is not comparable
            return vec![d.clone()];
        }
    }
    let mut bad = Vec::new();
    for r in 1..32 {
        match scalar_u32(run, MIPS_NAMES[r]) {
            Some(v) if v == st.gpr[r] => {}
            got => bad.push(format!("{}={} (manual 0x{:x})", MIPS_NAMES[r], got.map(|v| format!("0x{:x}", v)).unwrap_or("undefined".into()), st.gpr[r])),
        }
    }
    if !bad.is_empty() {
        diffs.push(Diff { component: "gpr".into(), detail: bad.join(" ") });
    }
    if !st.hilo_unpredictable {
        let (h, l) = (scalar_u32(run, "$hi"), scalar_u32(run, "$lo"));
        if h != Some(st.hi) || l != Some(st.lo) {
            diffs.push(Diff { component: "hi-lo".into(), detail: format!("hi:lo={:x?}:{:x?} (manual {:x}:{:x})", h, l, st.hi, st.lo) });
        }
    }
    compare_mem(run, &|a| st.mem.peek(a), &mut diffs);
    if let Some(d) = out {
        diffs.push(d);
    }
    diffs
}

fn compare_ppc(st: &ppc_ref::PpcState, expected: ppc_ref::Outcome, run: &IlRun) -> Vec<Diff> {
    let (n, tr) = match expected {
        ppc_ref::Outcome::Next(n) => (Some(n), None),
        ppc_ref::Outcome::Trap(t) => (None, Some(t)),
    };
    let mut diffs = Vec::new();
    let out = compare_outcome(n, tr, run);
    if let Some(d) = &out {
        if d.component != "next-pc" {
            return vec![d.clone()];
        }
    }
    let mut bad = Vec::new();
    for r in 0..32 {
        let name = format!("r{}", r);
        match scalar_u32(run, &name) {
            Some(v) if v == st.gpr[r] => {}
            got => bad.push(format!("{}={:x?} (manual 0x{:x})", name, got, st.gpr[r])),
        }
    }
    if !bad.is_empty() {
        diffs.push(Diff { component: "gpr".into(), detail: bad.join(" ") });
    }
    if scalar_u32(run, "lr") != Some(st.lr) {
        diffs.push(Diff { component: "lr".into(), detail: format!("lr={:x?} (manual 0x{:x})", scalar_u32(run, "lr"), st.lr) });
    }
    if scalar_u32(run, "ctr") != Some(st.ctr) {
        diffs.push(Diff { component: "ctr".into(), detail: format!("ctr={:x?} (manual 0x{:x})", scalar_u32(run, "ctr"), st.ctr) });
    }
    let mut bad = Vec::new();
    for i in 0..32 {
        if st.so_copied.contains(&i) {
            continue;
        }
        let name = format!("cr{}-{}", i / 4, CR_FLAGS[i % 4]);
        let got = run.state.scalars.get(&name).map(|v| (v.w, v.to_u64().unwrap_or(99)));
        if got != Some((1, st.cr[i] as u64)) {
            bad.push(format!("{}={:?} (manual {})", name, got, st.cr[i] as u8));
        }
    }
    if !bad.is_empty() {
        diffs.push(Diff { component: "cr".into(), detail: bad.join(" ") });
    }
    let ca = run.state.scalars.get("carry").and_then(|v| v.to_u64());
    if ca != Some(st.ca as u64) {
        diffs.push(Diff { component: "carry".into(), detail: format!("carry={:?} (manual XER[CA]={})", ca, st.ca as u8) });
    }
    compare_mem(run, &|a| st.mem.peek(a), &mut diffs);
    if let Some(d) = out {
        diffs.push(d);
    }
    diffs
}

// ---------------------------------------------------------------------------------------------
// the check

fn aliasing_bits(rs: u32, rt: u32, rd: u32) -> u32 {
    ((rd == rs) as u32) | (((rd == rt) as u32) << 1) | (((rs == rt) as u32) << 2) | (((rs == 0 || rt == 0 || rd == 0) as u32) << 3)
}

/// Finish a case whose disagreements are all recorded known findings: counted, not a failure.
fn settle(case: &Case, obs: &mut Obs, sigs: Vec<(String, String)>) -> Result<(), Failure> {
    if sigs.is_empty() {
        return Ok(());
    }
    // development aid (inert unless C02_SURVEY is set): tally every signature instead of failing,
    // and append a few examples of each to $C02_SURVEY
    if let Ok(path) = std::env::var("C02_SURVEY") {
        use std::io::Write;
        thread_local! { static SEEN: std::cell::RefCell<BTreeMap<String, u32>> = const { std::cell::RefCell::new(BTreeMap::new()) }; }
        for (sig, msg) in &sigs {
            obs.count(&format!("survey:{}", sig), 1);
            let n = SEEN.with(|s| { let mut s = s.borrow_mut(); let e = s.entry(sig.clone()).or_insert(0); *e += 1; *e });
            if n <= 2 {
                if let Ok(mut f) = std::fs::OpenOptions::new().create(true).append(true).open(&path) {
                    let _ = writeln!(f, "=== {}\n{}\n{}\n", sig, msg, render(case));
                }
            }
        }
        return Ok(());
    }
    // first unknown signature wins; if every one is known the case is an excluded known finding
    for (sig, msg) in &sigs {
        if !obs.known(sig) {
            return Err(Failure::new(sig.clone(), format!("{}\n{}", msg, render(case))));
        }
    }
    let (sig, _) = &sigs[0];
    obs.exclude(&format!("known_finding:{}", sig));
    obs.count(&format!("known:{}", sig), 1);
    Ok(())
}

fn check(case: &Case, obs: &mut Obs) -> Result<(), Failure> {
    if case.regs.len() != 32 || case.words.is_empty() || case.words.len() > 2 {
        fv::fail!("C02|harness|malformed-case", "malformed case");
    }
    obs.class(&format!("isa:{}", case.isa.name()));
    if case.origin == "random" {
        obs.class("random-word");
    }
    let mut unmodelled = false;
    let r = match case.isa {
        Isa::Ppc => check_ppc(case, obs, &mut unmodelled),
        _ => check_mips(case, obs, &mut unmodelled),
    };
    // floor 1.0 on this class = "the lifter accepts nothing the reference does not model"
    if unmodelled {
        obs.class("unmodelled_accepted");
    } else {
        obs.class("all-accepted-words-modelled");
    }
    r
}

fn note_lift_failure(case: &Case, obs: &mut Obs, mn: &str, l: &Lifted) {
    match l {
        Lifted::Rejected(_) => {
            obs.class("rejected");
            if case.origin != "random" {
                obs.class(&format!("rejected:{}:{}", case.isa.family(), mn));
            }
        }
        Lifted::Panicked(_) => {
            // totality of lifting is property C05; a word the lifter panics on is not "accepted"
            obs.class("lifter-panic");
            obs.exclude(&format!("lifter-panic:{}:{}", case.isa.family(), mn));
        }
        Lifted::Ok(_) => {}
    }
}

/// Everything that can be said about one MIPS case without touching the observations.
enum MipsEval {
    NotLifted(Lifted),
    Refused(mips_ref::Refusal),
    /// access within 16 bytes of the 4 GiB wrap: 32-bit address arithmetic of a multi-byte IL
    /// access is outside what the IL memory model defines
    NearWrap,
    Compared { st: Box<mips_ref::MipsState>, expected: mips_ref::Outcome, run: Box<IlRun>, diffs: Vec<Diff> },
}

fn near_wrap(touched: &BTreeSet<u32>) -> bool {
    touched.iter().any(|a| *a < 16 || *a > 0xffff_ffef)
}

fn eval_mips(case: &Case) -> MipsEval {
    let btr = match lift(case) {
        Lifted::Ok(b) => b,
        other => return MipsEval::NotLifted(other),
    };
    let mut st = mips_ref_state(case);
    let slot = case.words.get(1).copied();
    let expected = match mips_ref::exec(&mut st, case.words[0], slot, &mips_ref::Quirks::default()) {
        Ok(o) => o,
        Err(r) => return MipsEval::Refused(r),
    };
    let mut touched = st.mem.touched.clone();
    if slot.is_some() {
        // a delay slot that uses $ra touches other addresses if the link is written late; give
        // the IL those bytes too so that the late-link hypothesis can be recognised by its result
        let mut alt = mips_ref_state(case);
        alt.lenient = true;
        let q = mips_ref::Quirks { link_after_slot: true, ..Default::default() };
        if mips_ref::exec(&mut alt, case.words[0], slot, &q).is_ok() {
            touched.extend(alt.mem.touched.iter().copied());
        }
    }
    if near_wrap(&touched) {
        return MipsEval::NearWrap;
    }
    let run = run_il::run_block(&btr, mips_il_state(case, &touched), 4000);
    let diffs = compare_mips(&st, expected, &run);
    MipsEval::Compared { st: Box::new(st), expected, run: Box::new(run), diffs }
}

fn squeeze_digits(s: &str) -> String {
    let mut out = String::new();
    let mut last = false;
    for ch in s.chars() {
        if ch.is_ascii_digit() {
            if !last {
                out.push('N');
            }
            last = true;
        } else {
            last = false;
            out.push(ch);
        }
    }
    out
}

/// Signatures (with messages) for the disagreements of a compared MIPS case.
fn mips_sigs(case: &Case, run: &IlRun, diffs: &[Diff]) -> Vec<(String, String)> {
    let fam = case.isa.family();
    let d0 = mips_ref::decode(case.words[0]).expect("compared word decodes");
    let mn = d0.mnemonic();
    let slot = case.words.get(1).copied();
    let summary = diffs.iter().map(|d| format!("{}: {}", d.component, d.detail)).collect::<Vec<_>>().join("\n");
    let mut sigs: Vec<(String, String)> = Vec::new();
    if let Some(sw) = slot {
        // which of the delay-slot hypotheses explains exactly what the IL did?
        if let Some(names) = explain_with_quirks(case, run) {
            for q in names {
                sigs.push((
                    format!("C02|{}|{}|{}", fam, mn, q),
                    format!("{} {}: the IL result equals the manual's under the hypothesis '{}'\n{}", case.isa.name(), d0.render(), q, summary),
                ));
            }
            return sigs;
        }
        // is the delay-slot instruction mis-lifted on its own?  Tried in the state after the
        // link write (what the architecture gives the slot) and in the state before it (what a
        // lifter that links late gives it).
        let link = match d0.k {
            mips_ref::K::Jal | mips_ref::K::Bltzal | mips_ref::K::Bgezal => Some(31),
            mips_ref::K::Jalr => Some(d0.rd as usize),
            _ => None,
        };
        for apply_link in [true, false] {
            let mut regs = case.regs.clone();
            if let (true, Some(l)) = (apply_link, link) {
                if l != 0 {
                    regs[l] = case.pc.wrapping_add(8);
                }
            } else if apply_link {
                continue;
            }
            let single = Case { isa: case.isa, words: vec![sw], pc: case.pc.wrapping_add(4), regs, aux: case.aux.clone(), mem_seed: case.mem_seed, origin: "delay-slot".into() };
            if let MipsEval::Compared { run: r1, diffs: d1, .. } = eval_mips(&single) {
                if !d1.is_empty() {
                    let mut v = mips_sigs(&single, &r1, &d1);
                    for (_, m) in v.iter_mut() {
                        *m = format!("(the delay-slot instruction of {} is mis-lifted on its own)\n{}", d0.render(), m);
                    }
                    return v;
                }
            }
        }
    }
    let d = &diffs[0];
    let component = if d.component.starts_with("il-fault:undefined-scalar:") && !d.component.ends_with("$zero") { squeeze_digits(&d.component) } else { d.component.clone() };
    // a branch that is wrong whatever sits in its delay slot: same component with a nop slot
    let mut slot_independent = false;
    if slot.is_some() && case.words[1] != 0 {
        let with_nop = Case { words: vec![case.words[0], 0], origin: "nop-slot".into(), ..case.clone() };
        if let MipsEval::Compared { diffs: dn, .. } = eval_mips(&with_nop) {
            slot_independent = dn.first().map(|x| x.component == d.component).unwrap_or(false);
        }
    } else if slot.is_some() {
        slot_independent = true;
    }
    let sub = if component.starts_with("il-fault:undefined-scalar") || slot_independent { String::new() } else { mips_subclass(case, &d0, slot) };
    sigs.push((format!("C02|{}|{}|{}{}", fam, mn, component, sub), format!("{} {}\n{}", case.isa.name(), d0.render(), summary)));
    sigs
}

fn check_mips(case: &Case, obs: &mut Obs, unmodelled: &mut bool) -> Result<(), Failure> {
    let d0 = mips_ref::decode(case.words[0]);
    let mn = d0.map(|d| d.mnemonic()).unwrap_or("?");
    let (st, expected, run, diffs) = match eval_mips(case) {
        MipsEval::NotLifted(l) => {
            note_lift_failure(case, obs, mn, &l);
            if obs.want_sample() {
                obs.sample(render(case));
            }
            return Ok(());
        }
        MipsEval::Refused(r) => {
            obs.class("accepted");
            match r {
                mips_ref::Refusal::Unknown => {
                    *unmodelled = true;
                    obs.count(&format!("unmodelled:{}:{:08x}", case.isa.name(), case.words[0]), 1);
                }
                mips_ref::Refusal::Ase(w) => obs.exclude(&format!("not a MIPS32 instruction ({}), accepted through a shared capstone id", w)),
                mips_ref::Refusal::Reserved(w) => obs.exclude(&format!("reserved-encoding:{}", w)),
                mips_ref::Refusal::Unpredictable(w) => obs.exclude(&format!("unpredictable:{}", w)),
                mips_ref::Refusal::AddressError => obs.exclude("address-error (unaligned word/half access)"),
                mips_ref::Refusal::BranchInDelaySlot => obs.exclude("branch in delay slot"),
                mips_ref::Refusal::MissingDelaySlot => obs.exclude("branch without a delay slot word"),
            }
            return Ok(());
        }
        MipsEval::NearWrap => {
            obs.class("accepted");
            obs.exclude("memory access within 16 bytes of the 4 GiB wrap");
            return Ok(());
        }
        MipsEval::Compared { st, expected, run, diffs } => (st, expected, run, diffs),
    };
    obs.class("accepted");
    let d0 = d0.expect("modelled word decodes");
    let slot = case.words.get(1).copied();

    // classes
    let mn_class = format!("mn:{}:{}", case.isa.name(), mn);
    obs.class(&mn_class);
    obs.count("il-ops", run.steps as u64);
    let mut interference = 0u32;
    let mut slot_mn = "";
    if let Some(sw) = slot {
        obs.class("pair");
        if let Ok(sd) = mips_ref::decode(sw) {
            slot_mn = sd.mnemonic();
            obs.class(&format!("slot:{}", slot_mn));
            let (writes, reads) = mips_slot_regs(&sd);
            let cond_regs: Vec<u32> = match d0.k {
                mips_ref::K::Beq | mips_ref::K::Bne => vec![d0.rs, d0.rt],
                mips_ref::K::J | mips_ref::K::Jal | mips_ref::K::Jr | mips_ref::K::Jalr => vec![],
                _ => vec![d0.rs],
            };
            let target_reg = matches!(d0.k, mips_ref::K::Jr | mips_ref::K::Jalr).then_some(d0.rs);
            if writes.iter().any(|w| *w != 0 && cond_regs.contains(w)) {
                obs.class("slot-writes-condition-register");
                interference |= 1;
            }
            if let Some(tr) = target_reg {
                if writes.contains(&tr) && tr != 0 {
                    obs.class("slot-writes-target-register");
                    interference |= 2;
                }
            }
            if writes.contains(&31) {
                obs.class("slot-writes-ra");
                interference |= 4;
            }
            if reads.contains(&31) {
                obs.class("slot-reads-ra");
                interference |= 8;
            }
        }
        match expected {
            mips_ref::Outcome::Next(n) if n != case.pc.wrapping_add(8) => obs.class("mips-branch-taken"),
            mips_ref::Outcome::Next(_) => obs.class("mips-branch-not-taken"),
            _ => obs.class("trap-in-delay-slot"),
        }
    }
    if matches!(expected, mips_ref::Outcome::Trap(_)) {
        obs.class("trap-outcome");
    }
    let mem_d = mips_ref::decode(*case.words.last().unwrap()).ok();
    let mut align_class = 9u32;
    if let Some(md) = mem_d {
        if mips_access_align(md.k).is_some() {
            let ea = st_ea(&st, case, &md);
            align_class = ea & 3;
            if mips_access_align(md.k) == Some(1) && !matches!(md.k, mips_ref::K::Lb | mips_ref::K::Lbu | mips_ref::K::Sb) {
                obs.class(&format!("unaligned-op-ea&3={}", ea & 3));
            }
            if md.rt == md.rs && md.rs != 0 {
                obs.class("rt=base");
            }
        }
    }
    if d0.rs == 0 || d0.rt == 0 || d0.rd == 0 {
        obs.class("uses-$zero-field");
    }
    obs.nontrivial(&(case.isa, mn, aliasing_bits(d0.rs, d0.rt, d0.rd), d0.imm >> 15, align_class, slot_mn, interference));
    if obs.want_sample() {
        obs.sample(render(case));
    }
    if diffs.is_empty() {
        return Ok(());
    }
    let sigs = mips_sigs(case, &run, &diffs);
    settle(case, obs, sigs)
}

fn st_ea(_st: &mips_ref::MipsState, case: &Case, d: &mips_ref::Decoded) -> u32 {
    case_mips_ea(case, d)
}

/// registers a non-branch instruction writes / reads (for the interference classes)
fn mips_slot_regs(d: &mips_ref::Decoded) -> (Vec<u32>, Vec<u32>) {
    use mips_ref::K::*;
    match d.k {
        Sll | Srl | Sra => (vec![d.rd], vec![d.rt]),
        Sllv | Srlv | Srav | Movz | Movn | Add | Addu | Sub | Subu | And | Or | Xor | Nor | Slt | Sltu | Mul => (vec![d.rd], vec![d.rs, d.rt]),
        Mfhi | Mflo => (vec![d.rd], vec![]),
        Mthi | Mtlo => (vec![], vec![d.rs]),
        Mult | Multu | Div | Divu | Madd | Maddu | Msub | Msubu | Teq => (vec![], vec![d.rs, d.rt]),
        Addi | Addiu | Slti | Sltiu | Andi | Ori | Xori => (vec![d.rt], vec![d.rs]),
        Lui => (vec![d.rt], vec![]),
        Clz | Clo => (vec![d.rd], vec![d.rs]),
        Rdhwr => (vec![d.rt], vec![]),
        Lb | Lh | Lw | Lbu | Lhu | Ll => (vec![d.rt], vec![d.rs]),
        Lwl | Lwr => (vec![d.rt], vec![d.rs, d.rt]),
        Sb | Sh | Sw | Swl | Swr => (vec![], vec![d.rs, d.rt]),
        Sc => (vec![d.rt], vec![d.rs, d.rt]),
        _ => (vec![], vec![]),
    }
}

fn case_mips_ea(case: &Case, d: &mips_ref::Decoded) -> u32 {
    case.regs[d.rs as usize].wrapping_add(d.simm())
}

/// Input class that separates root causes inside one mnemonic (no values, no addresses).
fn mips_subclass(case: &Case, d: &mips_ref::Decoded, slot: Option<u32>) -> String {
    use mips_ref::K::*;
    if let Some(sw) = slot {
        return match mips_ref::decode(sw) {
            Ok(sd) => format!("|slot={}", sd.mnemonic()),
            Err(_) => "|slot=?".into(),
        };
    }
    match d.k {
        Sllv | Srlv | Srav => {
            if case.regs[d.rs as usize] >= 32 { "|shift>=32".into() } else { "".into() }
        }
        // big-endian: per alignment; little-endian: one class (the lifter ignores the byte order
        // for these four instructions, every alignment is affected)
        Lwl | Lwr | Swl | Swr => {
            if case.isa == Isa::Mips { format!("|be|ea&3={}", case_mips_ea(case, d) & 3) } else { "|le".into() }
        }
        _ => "".into(),
    }
}

const QUIRK_NAMES: [&str; 5] = ["target-after-slot", "link-after-slot", "jalr-links-ra", "jalr-target-from-rd", "condition-after-slot"];

fn quirks_of(mask: u32) -> mips_ref::Quirks {
    mips_ref::Quirks {
        target_after_slot: mask & 1 != 0,
        link_after_slot: mask & 2 != 0,
        jalr_links_ra: mask & 4 != 0,
        jalr_target_from_rd: mask & 8 != 0,
        al_cond_after_slot: mask & 16 != 0,
    }
}

/// Smallest set of delay-slot hypotheses under which the reference reproduces the IL result
/// exactly (all registers, HI/LO, memory, outcome).  None = no subset explains it.
fn explain_with_quirks(case: &Case, run: &IlRun) -> Option<Vec<&'static str>> {
    let mut masks: Vec<u32> = (1..32).collect();
    masks.sort_by_key(|m| (m.count_ones(), *m));
    for m in masks {
        let mut st = mips_ref_state(case);
        st.lenient = true;
        let o = match mips_ref::exec(&mut st, case.words[0], case.words.get(1).copied(), &quirks_of(m)) {
            Ok(o) => o,
            // with the wrong $ra as divisor the hypothesis divides by zero, and so does the IL
            Err(mips_ref::Refusal::Unpredictable(w)) if w.contains("by zero") && run.outcome == IlOutcome::Fault("div-zero".into()) => {
                return Some((0..5).filter(|i| m & (1 << i) != 0).map(|i| QUIRK_NAMES[i]).collect());
            }
            Err(_) => continue,
        };
        if compare_mips(&st, o, run).is_empty() {
            return Some((0..5).filter(|i| m & (1 << i) != 0).map(|i| QUIRK_NAMES[i]).collect());
        }
    }
    None
}

fn check_ppc(case: &Case, obs: &mut Obs, unmodelled: &mut bool) -> Result<(), Failure> {
    let d0 = ppc_ref::decode(case.words[0]);
    let mn = d0.map(|d| d.mnemonic()).unwrap_or("?");
    let lifted = lift(case);
    let btr = match lifted {
        Lifted::Ok(b) => b,
        other => {
            note_lift_failure(case, obs, mn, &other);
            if obs.want_sample() {
                obs.sample(render(case));
            }
            return Ok(());
        }
    };
    obs.class("accepted");
    let mut st = ppc_ref_state(case);
    let expected = match ppc_ref::exec(&mut st, case.words[0]) {
        Ok(o) => o,
        Err(r) => {
            match r {
                ppc_ref::Refusal::Unknown => {
                    *unmodelled = true;
                    obs.count(&format!("unmodelled:ppc:{:08x}", case.words[0]), 1);
                }
                ppc_ref::Refusal::Reserved(w) => obs.exclude(&format!("reserved-encoding:{}", w)),
                ppc_ref::Refusal::InvalidForm(w) => obs.exclude(&format!("invalid-form:{}", w)),
                ppc_ref::Refusal::Unaligned => obs.exclude("stmw at an unaligned address"),
            }
            return Ok(());
        }
    };
    let d0 = d0.expect("modelled word decodes");
    if near_wrap(&st.mem.touched) {
        obs.exclude("memory access within 16 bytes of the 4 GiB wrap");
        return Ok(());
    }
    let il0 = ppc_il_state(case, &st.mem.touched);
    let run = run_il::run_block(&btr, il0, 4000);
    let diffs = compare_ppc(&st, expected, &run);

    obs.class(&format!("mn:ppc:{}", mn));
    obs.count("il-ops", run.steps as u64);
    if !st.so_copied.is_empty() {
        obs.exclude("CR so bit copied from XER[SO] (not modelled by falcon): bit not compared");
    }
    let mut shape = 0u32;
    if d0.k == ppc_ref::K::Rlwinm {
        let (mb, me) = (d0.mb(), d0.me());
        shape = if mb <= me { 1 } else if mb == me + 1 { 2 } else { 3 };
        obs.class(["", "rlwinm-mb<=me", "rlwinm-mb=me+1", "rlwinm-mb>me+1"][shape as usize]);
    }
    if d0.is_branch() {
        match expected {
            ppc_ref::Outcome::Next(n) if n != case.pc.wrapping_add(4) => obs.class("ppc-branch-taken"),
            _ => obs.class("ppc-branch-not-taken"),
        }
        shape = d0.bo();
    }
    if matches!(d0.k, ppc_ref::K::Cmpi | ppc_ref::K::Cmpli) {
        obs.class(&format!("cmp-crf{}", d0.crfd()));
        shape = d0.crfd();
    }
    if d0.ra == 0 {
        obs.class("ppc-rA=0");
    }
    obs.nontrivial(&(case.isa, mn, aliasing_bits(d0.rt, d0.ra, d0.rb), d0.imm >> 15, shape));
    if obs.want_sample() {
        obs.sample(render(case));
    }
    if diffs.is_empty() {
        return Ok(());
    }
    let summary = diffs.iter().map(|d| format!("{}: {}", d.component, d.detail)).collect::<Vec<_>>().join("\n");
    // root-cause hypotheses suspected from reading: "lifts to a nop", "mtlr executes as mflr"
    {
        let nop_state = ppc_ref_state(case);
        if d0.is_branch() && compare_ppc(&nop_state, ppc_ref::Outcome::Next(case.pc.wrapping_add(4)), &run).is_empty() {
            let sig = format!("C02|ppc|{}|lifted-as-nop", mn);
            return settle(case, obs, vec![(sig, format!("ppc {}: the IL changes nothing and falls through\n{}", d0.render(), summary))]);
        }
        if mn == "mtlr" {
            let mut h = ppc_ref_state(case);
            // mflr rS : 31 | rS | spr 8 | 339
            let mflr = (31 << 26) | (d0.rt << 21) | (8 << 16) | (339 << 1);
            if let Ok(o) = ppc_ref::exec(&mut h, mflr) {
                if compare_ppc(&h, o, &run).is_empty() {
                    let sig = "C02|ppc|mtlr|executes-as-mflr".to_string();
                    return settle(case, obs, vec![(sig, format!("ppc {}: the IL is that of mflr r{}\n{}", d0.render(), d0.rt, summary))]);
                }
            }
        }
    }
    let d = &diffs[0];
    let sub = ppc_subclass(case, &d0);
    let component = if d.component.starts_with("il-fault:undefined-scalar:") { squeeze_digits(&d.component) } else { d.component.clone() };
    // record forms share the site of their base instruction: "add." -> add
    let sig = format!("C02|ppc|{}|{}{}", mn.trim_end_matches('.'), component, sub);
    settle(case, obs, vec![(sig, format!("ppc {}\n{}", d0.render(), summary))])
}

fn ppc_subclass(case: &Case, d: &ppc_ref::Decoded) -> String {
    use ppc_ref::K::*;
    match d.k {
        Lbz | Lwz | Stw | Stmw | Addi | Addis if d.ra == 0 => "|rA=0".into(),
        // the two low bits of LR / CTR are ignored by bclr / bcctr
        Bclr if case.aux[0] & 3 != 0 => "|lr&3!=0".into(),
        Bcctr if case.aux[1] & 3 != 0 => "|ctr&3!=0".into(),
        _ => "".into(),
    }
}

// ---------------------------------------------------------------------------------------------
// rendering

fn render(case: &Case) -> String {
    let mut s = format!("{} @0x{:x} [{}]", case.isa.name(), case.pc, case.origin);
    for w in &case.words {
        let dis = match case.isa {
            Isa::Ppc => ppc_ref::decode(*w).map(|d| d.render()).unwrap_or_else(|e| format!("{:?}", e)),
            _ => mips_ref::decode(*w).map(|d| d.render()).unwrap_or_else(|e| format!("{:?}", e)),
        };
        s.push_str(&format!(" | {:08x} {}", w, dis));
    }
    s.push_str("\n  regs:");
    for (i, v) in case.regs.iter().enumerate() {
        if *v != 0 {
            s.push_str(&format!(" {}={:x}", i, v));
        }
    }
    match case.isa {
        Isa::Ppc => s.push_str(&format!("\n  lr={:x} ctr={:x} cr={:08x} ca={}", case.aux[0], case.aux[1], case.aux[2], case.aux[3])),
        _ => s.push_str(&format!("\n  hi={:x} lo={:x}", case.aux[0], case.aux[1])),
    }
    s.push_str(&format!(" mem_seed={:x}", case.mem_seed));
    s
}

/// `c02 show <mips|mipsel|ppc> <hexword> [<hexword>]` : decode, lift and run one word on a fixed state
fn show(args: &[String]) -> std::process::ExitCode {
    let isa = match args.first().map(|s| s.as_str()) {
        Some("mips") => Isa::Mips,
        Some("mipsel") => Isa::Mipsel,
        Some("ppc") => Isa::Ppc,
        _ => {
            eprintln!("usage: c02 show <mips|mipsel|ppc> <hexword> [<hexword>]");
            return std::process::ExitCode::from(3);
        }
    };
    let words: Vec<u32> = args[1..].iter().map(|w| u32::from_str_radix(w.trim_start_matches("0x"), 16).expect("hex word")).collect();
    let mut regs: Vec<u32> = (0..32u32).map(|i| 0x1000_0000u32.wrapping_mul(i) ^ (0x0101_0101u32.wrapping_mul(i))).collect();
    regs[0] = if isa == Isa::Ppc { 0x00aa_0000 } else { 0 };
    let case = Case { isa, words, pc: 0x0040_0000, regs, aux: if isa == Isa::Ppc { vec![0x1111_1110, 2, 0x5a5a_5a5a, 1] } else { vec![0x7777_0000, 0x0000_8888] }, mem_seed: 1, origin: "show".into() };
    println!("{}", render(&case));
    match lift(&case) {
        Lifted::Ok(b) => println!("lifted:\n{}", run_il::render_block(&b)),
        Lifted::Rejected(e) => println!("rejected: {}", e),
        Lifted::Panicked(e) => println!("panicked: {}", e),
    }
    let mut obs = Obs::default();
    match check(&case, &mut obs) {
        Ok(()) => println!("check: agrees (or not compared)"),
        Err(f) => println!("check: {}\n{}", f.sig, f.msg),
    }
    std::process::ExitCode::SUCCESS
}

/// libFuzzer entry: the input bytes are the entropy tape (little-endian u32 words); same
/// generator, same oracle as the proptest tiers.
#[allow(dead_code)]
pub fn fuzz_bytes(data: &[u8]) {
    let tape = fv::tape::words_from_bytes(data, 280);
    let case = decode_case(&mut Tape::new(&tape));
    engine::fuzz_one("C02", &case, &render, &check);
}

#[allow(dead_code)]
fn main() -> std::process::ExitCode {
    let args: Vec<String> = std::env::args().skip(1).collect();
    // reference-model self-checks: unit vectors and algebraic identities (harness error if they fail)
    let checks = mips_ref::self_check().and_then(|a| ppc_ref::self_check().map(|b| a + b)).and_then(|n| asm_roundtrip().map(|m| n + m));
    match checks {
        Ok(n) => {
            if args.first().map(|s| s.as_str()) == Some("selfcheck") {
                println!("C02 reference self-checks passed: {} assertions", n);
                return std::process::ExitCode::SUCCESS;
            }
        }
        Err(e) => {
            println!("HARNESS-ERROR property=C02 reference self-check failed: {}", e);
            return std::process::ExitCode::from(3);
        }
    }
    if args.first().map(|s| s.as_str()) == Some("show") {
        return show(&args[1..]);
    }
    if args.first().map(|s| s.as_str()) == Some("accept") {
        // `c02 accept <isa>` : hex words on stdin, one per line -> "word A|R|P <detail>"
        let isa = match args.get(1).map(|s| s.as_str()) {
            Some("mips") => Isa::Mips,
            Some("mipsel") => Isa::Mipsel,
            _ => Isa::Ppc,
        };
        let mut text = String::new();
        use std::io::Read;
        std::io::stdin().read_to_string(&mut text).unwrap();
        std::panic::set_hook(Box::new(|_| {}));
        for line in text.lines() {
            let words: Vec<u32> = line.split_whitespace().map(|w| u32::from_str_radix(w.trim_start_matches("0x"), 16).expect("hex")).collect();
            if words.is_empty() {
                continue;
            }
            let case = Case { isa, words, pc: 0x0040_0000, regs: vec![0; 32], aux: vec![0; 4], mem_seed: 0, origin: "accept".into() };
            match lift(&case) {
                Lifted::Ok(b) => println!("{} A graphs={} succ={}", line, b.instructions().len(), b.successors().len()),
                Lifted::Rejected(e) => println!("{} R {}", line, e),
                Lifted::Panicked(e) => println!("{} P {}", line, e),
            }
        }
        return std::process::ExitCode::SUCCESS;
    }
    let mut spec = Spec::new(
        "C02",
        "one MIPS32 (big/little endian) or PPC32 instruction word from a template encoder with all fields random (1/12 uniformly random words), MIPS branches as (branch, delay slot) pairs, boundary-biased register/HI/LO/LR/CTR/CR state, total byte memory; lifted with translate_block, run with the reference IL interpreter and compared with a manual-derived interpreter that decodes the raw word. non-trivial = lifter accepted, reference models the word, no architectural exclusion; distinct = (ISA, mnemonic, register-aliasing pattern, immediate sign, alignment class, delay-slot mnemonic and interference class | rlwinm mask shape / BO / CR field)",
        Box::new(|_t: Tier| from_tape(280, decode_case)),
        |t| t.pick(2_000_000, 60_000_000),
        check,
    );
    spec.render = render;
    spec.assumptions = vec![
        "no MIPS/PPC hardware or emulator in the sandbox: the oracle is a transcription of the manuals, validated by hand-ported unit vectors and algebraic self-checks run at start-up".into(),
        "unaligned LW/LH/SW/SH/LL/SC (address error), DIV/DIVU by zero, branches in delay slots, B*AL with rs=$ra, JALR with rs=rd, CLZ/CLO with rt!=rd, RDHWR of a register other than 29 are architecturally undefined or unmodelled and excluded".into(),
        "SC is modelled as succeeding; HI/LO after MUL are UNPREDICTABLE and not compared; CR so bits copied from XER[SO] and XER[OV/SO] effects of OE forms are outside falcon's state and not compared".into(),
        "program counters are chosen so that pc-relative targets do not wrap the 32-bit address space".into(),
        "a word on which the lifter panics is counted (lifter-panic) and left to C05".into(),
    ];
    let mut floors: Vec<(&'static str, f64)> = vec![("all-accepted-words-modelled", 1.0)];
    let per_mn = 50.0 / 400_000.0;
    for isa in ["mips", "mipsel"] {
        for m in mips_asm::ACCEPTED_MNEMONICS {
            floors.push((Box::leak(format!("mn:{}:{}", isa, m).into_boxed_str()), per_mn));
        }
    }
    for m in ppc_asm::ACCEPTED_MNEMONICS {
        floors.push((Box::leak(format!("mn:ppc:{}", m).into_boxed_str()), per_mn));
    }
    spec.floors = floors;
    spec.workers = |t| t.pick(8, 16);
    spec.crash_sig = |c: &Case| format!("C02|{}|{:08x}", c.isa.name(), c.words.first().copied().unwrap_or(0));
    engine::main(spec)
}

/// encoder (mips_asm / ppc_asm) and reference decoders agree on every template: the decoded
/// fields are the encoded ones and the predicted mnemonic is the template's.
fn asm_roundtrip() -> Result<u64, String> {
    let mut n = 0u64;
    let data: Vec<u32> = (0..4000u32).map(|i| i.wrapping_mul(0x9E37_79B9) ^ (i << 13) ^ 0x5bd1_e995).collect();
    let mut t = Tape::new(&data);
    for round in 0..20 {
        for tpl in mips_asm::TEMPLATES {
            if t.exhausted() {
                t = Tape::new(&data[round..]);
            }
            let (op, f, w) = tpl.instantiate(&mut t);
            let d = mips_ref::decode(w).map_err(|e| format!("mips template {} word {:08x} does not decode: {:?}", tpl.name, w, e))?;
            let name = tpl.name.split('(').next().unwrap();
            if d.mnemonic() != name {
                return Err(format!("mips template {} word {:08x} decodes as {}", tpl.name, w, d.mnemonic()));
            }
            if format!("{:?}", d.k) != format!("{:?}", op) {
                return Err(format!("mips template {} word {:08x}: opcode {:?} vs {:?}", tpl.name, w, d.k, op));
            }
            if op.mem_access().is_some() && (d.rs != f.rs as u32 || d.rt != f.rt as u32 || d.imm != f.imm as u32) {
                return Err(format!("mips template {} fields", tpl.name));
            }
            n += 1;
        }
        for tpl in ppc_asm::TEMPLATES {
            if t.exhausted() {
                t = Tape::new(&data[round..]);
            }
            let (op, _f, w) = tpl.instantiate(&mut t);
            let d = ppc_ref::decode(w).map_err(|e| format!("ppc template {} word {:08x} does not decode: {:?}", tpl.name, w, e))?;
            if format!("{:?}", d.k) != format!("{:?}", op) {
                return Err(format!("ppc template {} word {:08x}: opcode {:?} vs {:?}", tpl.name, w, d.k, op));
            }
            n += 1;
        }
    }
    Ok(n)
}
