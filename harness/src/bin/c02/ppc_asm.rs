//! 32-bit PowerPC template encoder: structured fields -> instruction word, for every opcode the
//! falcon PPC lifter dispatches on (lib/translator/ppc/mod.rs), with every register / immediate /
//! shift / mask / BO / BI / CR-field value variable.  Encodings are from "PowerPC Microprocessor
//! Family: The Programming Environments for 32-bit Microprocessors" (instruction formats, ch. 8).
//! Bit numbering below is IBM's (bit 0 = most significant).
//!
//! Reusable API: `Op`, `Fields`, `encode(op, &Fields) -> u32`, `TEMPLATES`, `ACCEPTED_MNEMONICS`,
//! `gen_fields(tape)`, `Template::instantiate`, `Op::mem_access`.
#![allow(dead_code)]

use fv::tape::Tape;

#[derive(Clone, Copy, Debug, PartialEq, Eq, Hash, PartialOrd, Ord)]
pub enum Op {
    Add, Addi, Addis, Addze, B, Bc, Bclr, Bcctr, Cmpi, Cmpli, Lbz, Lwz, Lwzu, Mfspr, Mtspr, Or, Ori, Rlwinm,
    Srawi, Stmw, Stw, Stwu, Subf,
}

#[derive(Clone, Copy, Debug, Default, PartialEq, Eq)]
pub struct Fields {
    /// rD / rS (bits 6-10)
    pub rt: u8,
    /// rA (bits 11-15)
    pub ra: u8,
    /// rB (bits 16-20)
    pub rb: u8,
    /// SIMM / UIMM / d (bits 16-31)
    pub imm: u16,
    pub sh: u8,
    pub mb: u8,
    pub me: u8,
    pub bo: u8,
    pub bi: u8,
    /// BD, 14 bits (word offset)
    pub bd: u16,
    /// LI, 24 bits (word offset)
    pub li: u32,
    pub aa: bool,
    pub lk: bool,
    pub rc: bool,
    pub oe: bool,
    /// crfD, 3 bits
    pub crfd: u8,
    /// L bit of compares (must be 0 on 32-bit implementations)
    pub l: bool,
    /// SPR number (1 XER, 8 LR, 9 CTR); encoded with its two 5-bit halves swapped
    pub spr: u16,
}

#[derive(Clone, Copy, Debug, PartialEq, Eq)]
pub struct MemAccess {
    pub bytes: u32,
    pub align: u32,
    pub store: bool,
    pub update: bool,
}

impl Op {
    pub fn is_branch(self) -> bool {
        matches!(self, Op::B | Op::Bc | Op::Bclr | Op::Bcctr)
    }
    pub fn mem_access(self) -> Option<MemAccess> {
        let m = |bytes, align, store, update| Some(MemAccess { bytes, align, store, update });
        match self {
            Op::Lbz => m(1, 1, false, false),
            Op::Lwz => m(4, 1, false, false),
            Op::Lwzu => m(4, 1, false, true),
            Op::Stw => m(4, 1, true, false),
            Op::Stwu => m(4, 1, true, true),
            Op::Stmw => m(4, 4, true, false),
            _ => None,
        }
    }
}

fn d_form(opc: u32, rt: u8, ra: u8, imm: u16) -> u32 {
    (opc << 26) | ((rt as u32 & 31) << 21) | ((ra as u32 & 31) << 16) | imm as u32
}
fn x_form(rt: u8, ra: u8, rb: u8, xo: u32, rc: bool) -> u32 {
    (31 << 26) | ((rt as u32 & 31) << 21) | ((ra as u32 & 31) << 16) | ((rb as u32 & 31) << 11) | (xo << 1) | rc as u32
}

pub fn encode(op: Op, f: &Fields) -> u32 {
    let oe = (f.oe as u32) << 10;
    let spr = (((f.spr as u32) & 0x1f) << 5) | (((f.spr as u32) >> 5) & 0x1f);
    match op {
        Op::Add => x_form(f.rt, f.ra, f.rb, 266, f.rc) | oe,
        Op::Subf => x_form(f.rt, f.ra, f.rb, 40, f.rc) | oe,
        Op::Addze => x_form(f.rt, f.ra, 0, 202, f.rc) | oe,
        Op::Addi => d_form(14, f.rt, f.ra, f.imm),
        Op::Addis => d_form(15, f.rt, f.ra, f.imm),
        Op::B => (18 << 26) | ((f.li & 0x00ff_ffff) << 2) | ((f.aa as u32) << 1) | f.lk as u32,
        Op::Bc => (16 << 26) | ((f.bo as u32 & 31) << 21) | ((f.bi as u32 & 31) << 16) | ((f.bd as u32 & 0x3fff) << 2) | ((f.aa as u32) << 1) | f.lk as u32,
        Op::Bclr => (19 << 26) | ((f.bo as u32 & 31) << 21) | ((f.bi as u32 & 31) << 16) | (16 << 1) | f.lk as u32,
        Op::Bcctr => (19 << 26) | ((f.bo as u32 & 31) << 21) | ((f.bi as u32 & 31) << 16) | (528 << 1) | f.lk as u32,
        Op::Cmpi => (11 << 26) | ((f.crfd as u32 & 7) << 23) | ((f.l as u32) << 21) | ((f.ra as u32 & 31) << 16) | f.imm as u32,
        Op::Cmpli => (10 << 26) | ((f.crfd as u32 & 7) << 23) | ((f.l as u32) << 21) | ((f.ra as u32 & 31) << 16) | f.imm as u32,
        Op::Lbz => d_form(34, f.rt, f.ra, f.imm),
        Op::Lwz => d_form(32, f.rt, f.ra, f.imm),
        Op::Lwzu => d_form(33, f.rt, f.ra, f.imm),
        Op::Stw => d_form(36, f.rt, f.ra, f.imm),
        Op::Stwu => d_form(37, f.rt, f.ra, f.imm),
        Op::Stmw => d_form(47, f.rt, f.ra, f.imm),
        Op::Ori => d_form(24, f.rt, f.ra, f.imm),
        Op::Mfspr => (31 << 26) | ((f.rt as u32 & 31) << 21) | (spr << 11) | (339 << 1),
        Op::Mtspr => (31 << 26) | ((f.rt as u32 & 31) << 21) | (spr << 11) | (467 << 1),
        // or rA,rS,rB : rS is in the rt position
        Op::Or => x_form(f.rt, f.ra, f.rb, 444, f.rc),
        Op::Rlwinm => (21 << 26) | ((f.rt as u32 & 31) << 21) | ((f.ra as u32 & 31) << 16) | ((f.sh as u32 & 31) << 11) | ((f.mb as u32 & 31) << 6) | ((f.me as u32 & 31) << 1) | f.rc as u32,
        Op::Srawi => x_form(f.rt, f.ra, f.sh, 824, f.rc),
    }
}

#[derive(Clone, Copy)]
pub struct Template {
    /// the mnemonic capstone reports (falcon dispatches on it)
    pub name: &'static str,
    pub op: Op,
    pub fix: fn(&mut Fields),
}

fn nz(x: u8) -> u8 {
    if x == 0 { 1 } else { x }
}
fn plain(f: &mut Fields) {
    f.rc = false;
    f.oe = false;
    f.l = false;
}

pub const TEMPLATES: &[Template] = &[
    Template { name: "add", op: Op::Add, fix: plain },
    Template { name: "addi", op: Op::Addi, fix: |f| f.ra = nz(f.ra) },
    Template { name: "addis", op: Op::Addis, fix: |f| f.ra = nz(f.ra) },
    Template { name: "addze", op: Op::Addze, fix: plain },
    Template { name: "b", op: Op::B, fix: |f| { f.lk = false; f.aa = false } },
    Template { name: "bl", op: Op::B, fix: |f| { f.lk = true; f.aa = false } },
    // every BO / BI: falcon accepts only some forms; the rest are measured as rejected
    Template { name: "bc", op: Op::Bc, fix: |f| { f.lk = false; f.aa = false } },
    // BO = 1z00y: decrement CTR, branch if CTR != 0 (BI ignored), with link
    Template { name: "bdnzl", op: Op::Bc, fix: |f| { f.bo = [16, 17, 24, 25][(f.bo & 3) as usize]; f.lk = true; f.aa = false } },
    // BO = 1z1zz with BO[3] = 0: branch always, with link (`bcl 20,31,$+4` is the PIC idiom)
    Template { name: "bcl-always", op: Op::Bc, fix: |f| { f.bo = [20, 21, 28, 29][(f.bo & 3) as usize]; f.lk = true; f.aa = false } },
    Template { name: "bclr", op: Op::Bclr, fix: |f| f.lk = false },
    Template { name: "blr", op: Op::Bclr, fix: |f| { f.lk = false; f.bo = 20; f.bi = 0 } },
    Template { name: "bctr", op: Op::Bcctr, fix: |f| { f.lk = false; f.bo = 20; f.bi = 0 } },
    Template { name: "cmpwi", op: Op::Cmpi, fix: plain },
    Template { name: "cmplwi", op: Op::Cmpli, fix: plain },
    Template { name: "lbz", op: Op::Lbz, fix: plain },
    Template { name: "lwz", op: Op::Lwz, fix: plain },
    Template { name: "lwzu", op: Op::Lwzu, fix: plain },
    Template { name: "li", op: Op::Addi, fix: |f| f.ra = 0 },
    Template { name: "lis", op: Op::Addis, fix: |f| f.ra = 0 },
    Template { name: "mtctr", op: Op::Mtspr, fix: |f| f.spr = 9 },
    Template { name: "mflr", op: Op::Mfspr, fix: |f| f.spr = 8 },
    Template { name: "mr", op: Op::Or, fix: |f| { f.rb = f.rt; f.rc = false } },
    Template { name: "mtlr", op: Op::Mtspr, fix: |f| f.spr = 8 },
    Template { name: "nop", op: Op::Ori, fix: |f| { f.rt = 0; f.ra = 0; f.imm = 0 } },
    Template { name: "rlwinm", op: Op::Rlwinm, fix: |f| f.rc = false },
    Template { name: "slwi", op: Op::Rlwinm, fix: |f| { f.rc = false; f.sh &= 31; f.mb = 0; f.me = 31 - f.sh } },
    Template { name: "srawi", op: Op::Srawi, fix: |f| f.rc = false },
    Template { name: "stmw", op: Op::Stmw, fix: plain },
    Template { name: "stw", op: Op::Stw, fix: plain },
    Template { name: "stwu", op: Op::Stwu, fix: plain },
    Template { name: "subf", op: Op::Subf, fix: plain },
    // record / overflow forms and other variations capstone may map onto an accepted id
    Template { name: "add.", op: Op::Add, fix: |f| { f.rc = true; f.oe = false } },
    Template { name: "subf.", op: Op::Subf, fix: |f| { f.rc = true; f.oe = false } },
    Template { name: "addze.", op: Op::Addze, fix: |f| { f.rc = true; f.oe = false } },
    Template { name: "rlwinm.", op: Op::Rlwinm, fix: |f| f.rc = true },
    Template { name: "srawi.", op: Op::Srawi, fix: |f| f.rc = true },
];

/// Mnemonics (as the reference decoder names them) that falcon's PPC lifter accepts; measured at
/// bring-up and frozen (the `PPC_INS_*` arms of lib/translator/ppc/mod.rs).
pub const ACCEPTED_MNEMONICS: &[&str] = &[
    "add", "add.", "addi", "addis", "addze", "addze.", "b", "bcl-always", "bctr", "bdnzl", "bl", "blr", "cmplwi", "cmpwi",
    "lbz", "li", "lis", "lwz", "lwzu", "mflr", "mr", "mtctr", "mtlr", "nop", "rlwinm", "rlwinm.", "slwi", "srawi", "srawi.",
    "stmw", "stw", "stwu", "subf", "subf.",
];

pub fn gen_reg(t: &mut Tape) -> u8 {
    match t.weighted(&[3, 10, 2, 5]) {
        0 => 0,
        1 => t.below(32) as u8,
        2 => 31,
        _ => [1u8, 3, 4, 5, 9][t.below(5)],
    }
}

pub fn gen_imm16(t: &mut Tape) -> u16 {
    match t.weighted(&[1, 1, 2, 1, 2, 3, 3, 8]) {
        0 => 0,
        1 => 1,
        2 => 0xffff,
        3 => 0x7fff,
        4 => 0x8000,
        5 => t.below(64) as u16,
        6 => 0u16.wrapping_sub(t.range(1, 64) as u16),
        _ => t.raw() as u16,
    }
}

fn gen5(t: &mut Tape) -> u8 {
    match t.weighted(&[2, 2, 1, 1, 6]) {
        0 => 0,
        1 => 31,
        2 => 1,
        3 => 16,
        _ => t.below(32) as u8,
    }
}

pub fn gen_fields(t: &mut Tape) -> Fields {
    let mut f = Fields {
        rt: gen_reg(t),
        ra: gen_reg(t),
        rb: gen_reg(t),
        imm: gen_imm16(t),
        sh: gen5(t),
        mb: gen5(t),
        me: gen5(t),
        bo: t.below(32) as u8,
        bi: t.below(32) as u8,
        bd: (gen_imm16(t) >> 2) & 0x3fff,
        li: t.raw() & 0x00ff_ffff,
        aa: false,
        lk: t.chance(1, 2),
        rc: t.chance(1, 2),
        oe: t.chance(1, 2),
        crfd: if t.chance(1, 3) { 0 } else { t.below(8) as u8 },
        l: false,
        spr: 8,
    };
    // RLWINM mask shapes: MB <= ME, MB = ME + 1 (all ones), MB > ME + 1 (wrapped)
    match t.weighted(&[4, 2, 2, 2]) {
        0 => {}
        1 => f.mb = (f.me + 1) & 31,
        2 => {
            if f.mb > f.me {
                std::mem::swap(&mut f.mb, &mut f.me)
            }
        }
        _ => {
            if f.mb < f.me {
                std::mem::swap(&mut f.mb, &mut f.me)
            }
            if f.mb <= f.me + 1 {
                f.mb = (f.me + 2).min(31);
            }
        }
    }
    match t.weighted(&[10, 2, 2, 2]) {
        0 => {}
        1 => f.rt = f.ra,
        2 => f.rb = f.ra,
        _ => f.rb = f.rt,
    }
    if t.chance(1, 8) {
        f.li = [0u32, 1, 0x00ff_ffff, 0x0080_0000][t.below(4)];
    }
    f
}

impl Template {
    pub fn instantiate(&self, t: &mut Tape) -> (Op, Fields, u32) {
        let mut f = gen_fields(t);
        (self.fix)(&mut f);
        (self.op, f, encode(self.op, &f))
    }
}

pub fn template_by_name(name: &str) -> Option<&'static Template> {
    TEMPLATES.iter().find(|t| t.name == name)
}
