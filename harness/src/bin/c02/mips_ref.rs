//! Reference interpreter for the MIPS32 instructions falcon lifts, written from "MIPS32
//! Architecture For Programmers Volume II: The MIPS32 Instruction Set" (operation sections of the
//! individual instruction pages).  It decodes the RAW 32-bit word by opcode / function fields —
//! never through capstone — so alias handling (move, negu, beqz, b, bal, nop, jr-as-jalr) is part
//! of what a comparison against the lifter tests.
//!
//! Reusable API:
//!   `MipsState` (gpr[32], hi, lo, pc, endianness, `ByteMem`), `decode(word) -> Result<Decoded, Refusal>`,
//!   `exec(&mut MipsState, word, slot: Option<u32>, &Quirks) -> Result<Outcome, Refusal>` which
//!   executes one instruction, or a (branch, delay-slot) pair, and returns the next pc or a trap,
//!   `Decoded::mnemonic()` (alias-aware name as a disassembler would print it), `self_check()`.
#![allow(dead_code)]

use super::bytemem::ByteMem;

#[derive(Clone, Debug, PartialEq, Eq)]
pub struct MipsState {
    pub gpr: [u32; 32],
    pub hi: u32,
    pub lo: u32,
    pub pc: u32,
    pub big_endian: bool,
    pub mem: ByteMem,
    /// set by instructions after which HI and LO are architecturally UNPREDICTABLE (MUL)
    pub hilo_unpredictable: bool,
    /// hypothesis runs only: perform unaligned LW/LH/SW/SH/LL/SC byte-wise instead of refusing
    /// (so that "what the lifter would do with the wrong $ra" can be reproduced)
    pub lenient: bool,
}

impl MipsState {
    pub fn new(big_endian: bool, mem_seed: u64) -> MipsState {
        MipsState { gpr: [0; 32], hi: 0, lo: 0, pc: 0, big_endian, mem: ByteMem::new(mem_seed), hilo_unpredictable: false, lenient: false }
    }
    fn set(&mut self, r: u32, v: u32) {
        if r != 0 {
            self.gpr[r as usize] = v;
        }
    }
    fn get(&self, r: u32) -> u32 {
        self.gpr[r as usize]
    }
}

#[derive(Clone, Copy, Debug, PartialEq, Eq)]
pub enum Outcome {
    /// execution continues at this address
    Next(u32),
    /// an exception is taken by this instruction: "IntegerOverflow", "trap", "break", "syscall",
    /// "rdhwr" (hardware register outside the model)
    Trap(&'static str),
}

#[derive(Clone, Copy, Debug, PartialEq, Eq)]
pub enum Refusal {
    /// not an instruction this model knows
    Unknown,
    /// a known opcode with a non-zero must-be-zero field (Reserved Instruction or other ISA level)
    Reserved(&'static str),
    /// an encoding of an Application Specific Extension (DSP ...), not a MIPS32 instruction
    Ase(&'static str),
    /// the manual declares the result UNPREDICTABLE for these operands
    Unpredictable(&'static str),
    /// unaligned LW/LH/SW/SH/LL/SC: Address Error exception, not modelled by any falcon lifter
    AddressError,
    BranchInDelaySlot,
    MissingDelaySlot,
}

/// Hypothesis switches used only to *label* a disagreement (which of the defects suspected from
/// reading explains the lifter's result).  All false = the architecture.
#[derive(Clone, Copy, Debug, Default, PartialEq, Eq)]
pub struct Quirks {
    /// JR/JALR read the target register after the delay slot has executed
    pub target_after_slot: bool,
    /// the link register is written after the delay slot has executed
    pub link_after_slot: bool,
    /// JALR always links $ra, whatever rd says
    pub jalr_links_ra: bool,
    /// JALR rd, rs (rd != $ra) jumps to the value of rd
    pub jalr_target_from_rd: bool,
    /// a conditional branch evaluates its condition after the delay slot (seen at BLTZAL/BGEZAL)
    pub al_cond_after_slot: bool,
}

#[derive(Clone, Copy, Debug, PartialEq, Eq, Hash, PartialOrd, Ord)]
pub enum K {
    Sll, Srl, Sra, Sllv, Srlv, Srav, Jr, Jalr, Movz, Movn, Syscall, Break, Sync, Mfhi, Mthi, Mflo, Mtlo,
    Mult, Multu, Div, Divu, Add, Addu, Sub, Subu, And, Or, Xor, Nor, Slt, Sltu, Teq,
    Bltz, Bgez, Bltzal, Bgezal, J, Jal, Beq, Bne, Blez, Bgtz,
    Addi, Addiu, Slti, Sltiu, Andi, Ori, Xori, Lui,
    Madd, Maddu, Mul, Msub, Msubu, Clz, Clo, Rdhwr,
    Lb, Lh, Lwl, Lw, Lbu, Lhu, Lwr, Sb, Sh, Swl, Sw, Swr, Ll, Pref, Sc,
}

#[derive(Clone, Copy, Debug, PartialEq, Eq)]
pub struct Decoded {
    pub k: K,
    pub rs: u32,
    pub rt: u32,
    pub rd: u32,
    pub sa: u32,
    pub imm: u32,
    pub word: u32,
}

impl Decoded {
    pub fn is_branch(&self) -> bool {
        use K::*;
        matches!(self.k, Jr | Jalr | Bltz | Bgez | Bltzal | Bgezal | J | Jal | Beq | Bne | Blez | Bgtz)
    }
    pub fn simm(&self) -> u32 {
        self.imm as u16 as i16 as i32 as u32
    }
    /// the name a disassembler prints (capstone's alias rules: MipsInstPrinter.c printAlias and
    /// the generated alias table)
    pub fn mnemonic(&self) -> &'static str {
        use K::*;
        match self.k {
            Sll => if self.rd == 0 && self.rt == 0 && self.sa == 0 { "nop" } else { "sll" },
            Srl => "srl", Sra => "sra", Sllv => "sllv", Srlv => "srlv", Srav => "srav",
            Jr => "jr",
            Jalr => if self.rd == 0 { "jr" } else { "jalr" },
            Movz => "movz", Movn => "movn", Syscall => "syscall", Break => "break", Sync => "sync",
            Mfhi => "mfhi", Mthi => "mthi", Mflo => "mflo", Mtlo => "mtlo",
            Mult => "mult", Multu => "multu", Div => "div", Divu => "divu",
            Add => "add",
            Addu => if self.rt == 0 { "move" } else { "addu" },
            Sub => if self.rs == 0 { "neg" } else { "sub" },
            Subu => if self.rs == 0 { "negu" } else { "subu" },
            And => "and",
            Or => if self.rt == 0 { "move" } else { "or" },
            Xor => "xor",
            Nor => if self.rt == 0 { "not" } else { "nor" },
            Slt => "slt", Sltu => "sltu", Teq => "teq",
            Bltz => "bltz", Bgez => "bgez", Bltzal => "bltzal",
            Bgezal => if self.rs == 0 { "bal" } else { "bgezal" },
            J => "j", Jal => "jal",
            Beq => if self.rs == 0 && self.rt == 0 { "b" } else if self.rt == 0 { "beqz" } else { "beq" },
            Bne => if self.rt == 0 { "bnez" } else { "bne" },
            Blez => "blez", Bgtz => "bgtz",
            Addi => "addi", Addiu => "addiu", Slti => "slti", Sltiu => "sltiu", Andi => "andi", Ori => "ori",
            Xori => "xori", Lui => "lui",
            Madd => "madd", Maddu => "maddu", Mul => "mul", Msub => "msub", Msubu => "msubu", Clz => "clz",
            Clo => "clo", Rdhwr => "rdhwr",
            Lb => "lb", Lh => "lh", Lwl => "lwl", Lw => "lw", Lbu => "lbu", Lhu => "lhu", Lwr => "lwr",
            Sb => "sb", Sh => "sh", Swl => "swl", Sw => "sw", Swr => "swr", Ll => "ll", Pref => "pref", Sc => "sc",
        }
    }
    /// short operand rendering for reports
    pub fn render(&self) -> String {
        use K::*;
        let (rs, rt, rd) = (self.rs, self.rt, self.rd);
        let s = self.simm() as i32;
        match self.k {
            Sll | Srl | Sra => format!("{} ${},${},{}", self.mnemonic(), rd, rt, self.sa),
            Sllv | Srlv | Srav => format!("{} ${},${},${}", self.mnemonic(), rd, rt, rs),
            Jr => format!("jr ${}", rs),
            Jalr => format!("jalr ${},${}", rd, rs),
            Syscall | Break | Sync => self.mnemonic().to_string(),
            Mfhi | Mflo => format!("{} ${}", self.mnemonic(), rd),
            Mthi | Mtlo => format!("{} ${}", self.mnemonic(), rs),
            Mult | Multu | Div | Divu | Madd | Maddu | Msub | Msubu | Teq => format!("{} ${},${}", self.mnemonic(), rs, rt),
            Add | Addu | Sub | Subu | And | Or | Xor | Nor | Slt | Sltu | Movz | Movn | Mul => {
                format!("{}[{}] ${},${},${}", self.mnemonic(), format!("{:?}", self.k).to_lowercase(), rd, rs, rt)
            }
            Clz | Clo => format!("{} ${},${}", self.mnemonic(), rd, rs),
            Bltz | Bgez | Bltzal | Bgezal | Blez | Bgtz => format!("{} ${},{}", self.mnemonic(), rs, s),
            Beq | Bne => format!("{}[{}] ${},${},{}", self.mnemonic(), format!("{:?}", self.k).to_lowercase(), rs, rt, s),
            J | Jal => format!("{} index 0x{:x}", self.mnemonic(), self.word & 0x03ff_ffff),
            Addi | Addiu | Slti | Sltiu => format!("{} ${},${},{}", self.mnemonic(), rt, rs, s),
            Andi | Ori | Xori => format!("{} ${},${},0x{:x}", self.mnemonic(), rt, rs, self.imm),
            Lui => format!("lui ${},0x{:x}", rt, self.imm),
            Rdhwr => format!("rdhwr ${},hw{}", rt, rd),
            Lb | Lh | Lwl | Lw | Lbu | Lhu | Lwr | Sb | Sh | Swl | Sw | Swr | Ll | Sc => {
                format!("{} ${},{}(${})", self.mnemonic(), rt, s, rs)
            }
            Pref => format!("pref {},{}(${})", rt, s, rs),
        }
    }
}

/// Decode by opcode / function fields.  Must-be-zero fields are checked: a known opcode with a
/// non-zero reserved field is `Reserved` (on MIPS32 Release 1 a Reserved Instruction exception, on
/// later releases possibly another instruction such as ROTR) and is not modelled.
pub fn decode(word: u32) -> Result<Decoded, Refusal> {
    use K::*;
    let opc = word >> 26;
    let rs = (word >> 21) & 31;
    let rt = (word >> 16) & 31;
    let rd = (word >> 11) & 31;
    let sa = (word >> 6) & 31;
    let funct = word & 63;
    let imm = word & 0xffff;
    let d = |k: K| Ok(Decoded { k, rs, rt, rd, sa, imm, word });
    let mbz = |ok: bool, k: K, what: &'static str| if ok { Ok(Decoded { k, rs, rt, rd, sa, imm, word }) } else { Err(Refusal::Reserved(what)) };
    match opc {
        0x00 => match funct {
            0x00 => mbz(rs == 0, Sll, "sll rs"),
            0x02 => mbz(rs == 0, Srl, "srl rs (rotr)"),
            0x03 => mbz(rs == 0, Sra, "sra rs"),
            0x04 => mbz(sa == 0, Sllv, "sllv sa"),
            0x06 => mbz(sa == 0, Srlv, "srlv sa (rotrv)"),
            0x07 => mbz(sa == 0, Srav, "srav sa"),
            0x08 => mbz(rt == 0 && rd == 0 && sa == 0, Jr, "jr rt/rd/hint"),
            0x09 => mbz(rt == 0 && sa == 0, Jalr, "jalr rt/hint"),
            0x0a => mbz(sa == 0, Movz, "movz sa"),
            0x0b => mbz(sa == 0, Movn, "movn sa"),
            0x0c => d(Syscall),
            0x0d => d(Break),
            0x0f => mbz(rs == 0 && rt == 0 && rd == 0, Sync, "sync fields"),
            0x10 => mbz(rs == 0 && rt == 0 && sa == 0, Mfhi, "mfhi fields"),
            0x11 => mbz(rt == 0 && rd == 0 && sa == 0, Mthi, "mthi fields"),
            0x12 => mbz(rs == 0 && rt == 0 && sa == 0, Mflo, "mflo fields"),
            0x13 => mbz(rt == 0 && rd == 0 && sa == 0, Mtlo, "mtlo fields"),
            0x18 => mbz(rd == 0 && sa == 0, Mult, "mult rd/sa"),
            0x19 => mbz(rd == 0 && sa == 0, Multu, "multu rd/sa"),
            0x1a => mbz(rd == 0 && sa == 0, Div, "div rd/sa"),
            0x1b => mbz(rd == 0 && sa == 0, Divu, "divu rd/sa"),
            0x20 => mbz(sa == 0, Add, "add sa"),
            0x21 => mbz(sa == 0, Addu, "addu sa"),
            0x22 => mbz(sa == 0, Sub, "sub sa"),
            0x23 => mbz(sa == 0, Subu, "subu sa"),
            0x24 => mbz(sa == 0, And, "and sa"),
            0x25 => mbz(sa == 0, Or, "or sa"),
            0x26 => mbz(sa == 0, Xor, "xor sa"),
            0x27 => mbz(sa == 0, Nor, "nor sa"),
            0x2a => mbz(sa == 0, Slt, "slt sa"),
            0x2b => mbz(sa == 0, Sltu, "sltu sa"),
            0x34 => d(Teq),
            _ => Err(Refusal::Unknown),
        },
        0x01 => match rt {
            0x00 => d(Bltz),
            0x01 => d(Bgez),
            0x10 => d(Bltzal),
            0x11 => d(Bgezal),
            _ => Err(Refusal::Unknown),
        },
        0x02 => d(J),
        0x03 => d(Jal),
        0x04 => d(Beq),
        0x05 => d(Bne),
        0x06 => mbz(rt == 0, Blez, "blez rt"),
        0x07 => mbz(rt == 0, Bgtz, "bgtz rt"),
        0x08 => d(Addi),
        0x09 => d(Addiu),
        0x0a => d(Slti),
        0x0b => d(Sltiu),
        0x0c => d(Andi),
        0x0d => d(Ori),
        0x0e => d(Xori),
        0x0f => mbz(rs == 0, Lui, "lui rs"),
        0x1c => match funct {
            0x00 => mbz(rd == 0 && sa == 0, Madd, "madd rd/sa"),
            0x01 => mbz(rd == 0 && sa == 0, Maddu, "maddu rd/sa"),
            0x02 => mbz(sa == 0, Mul, "mul sa"),
            0x04 => mbz(rd == 0 && sa == 0, Msub, "msub rd/sa"),
            0x05 => mbz(rd == 0 && sa == 0, Msubu, "msubu rd/sa"),
            0x20 => mbz(sa == 0, Clz, "clz sa"),
            0x21 => mbz(sa == 0, Clo, "clo sa"),
            _ => Err(Refusal::Unknown),
        },
        0x1f => match funct {
            0x3b => mbz(rs == 0 && sa == 0, Rdhwr, "rdhwr rs/sel"),
            // the rest of SPECIAL3 is MIPS32 Release 2 (EXT/INS/BSHFL) and the DSP ASE; capstone
            // gives some DSP forms (mul.ph ...) the id of the base instruction (mul)
            _ => Err(Refusal::Ase("SPECIAL3: MIPS32R2 / DSP ASE")),
        },
        0x20 => d(Lb),
        0x21 => d(Lh),
        0x22 => d(Lwl),
        0x23 => d(Lw),
        0x24 => d(Lbu),
        0x25 => d(Lhu),
        0x26 => d(Lwr),
        0x28 => d(Sb),
        0x29 => d(Sh),
        0x2a => d(Swl),
        0x2b => d(Sw),
        0x2e => d(Swr),
        0x30 => d(Ll),
        0x33 => d(Pref),
        0x38 => d(Sc),
        _ => Err(Refusal::Unknown),
    }
}

fn reg_byte(v: u32, i: u32) -> u8 {
    (v >> (8 * i)) as u8
}
fn with_reg_byte(v: u32, i: u32, b: u8) -> u32 {
    (v & !(0xffu32 << (8 * i))) | ((b as u32) << (8 * i))
}

/// LWL / LWR / SWL / SWR, byte by byte (register byte 3 is the most significant):
///   LWL: the bytes from the effective address to the end of its aligned word *in memory order of
///        significance* go to the most significant end of the register.
/// Written out per endianness from the tables "Bytes Loaded by LWL/LWR" / "Bytes Stored by
/// SWL/SWR" of the manual.
fn unaligned(st: &mut MipsState, k: K, rt: u32, ea: u32) {
    let kk = ea & 3;
    let be = st.big_endian;
    let mut reg = st.get(rt);
    match k {
        K::Lwl => {
            if be {
                for i in 0..(4 - kk) {
                    reg = with_reg_byte(reg, 3 - i, st.mem.read8(ea.wrapping_add(i)));
                }
            } else {
                for i in 0..=kk {
                    reg = with_reg_byte(reg, 3 - i, st.mem.read8(ea.wrapping_sub(i)));
                }
            }
            st.set(rt, reg);
        }
        K::Lwr => {
            if be {
                for i in 0..=kk {
                    reg = with_reg_byte(reg, i, st.mem.read8(ea.wrapping_sub(i)));
                }
            } else {
                for i in 0..(4 - kk) {
                    reg = with_reg_byte(reg, i, st.mem.read8(ea.wrapping_add(i)));
                }
            }
            st.set(rt, reg);
        }
        K::Swl => {
            if be {
                for i in 0..(4 - kk) {
                    st.mem.write8(ea.wrapping_add(i), reg_byte(reg, 3 - i));
                }
            } else {
                for i in 0..=kk {
                    st.mem.write8(ea.wrapping_sub(i), reg_byte(reg, 3 - i));
                }
            }
        }
        K::Swr => {
            if be {
                for i in 0..=kk {
                    st.mem.write8(ea.wrapping_sub(i), reg_byte(reg, i));
                }
            } else {
                for i in 0..(4 - kk) {
                    st.mem.write8(ea.wrapping_add(i), reg_byte(reg, i));
                }
            }
        }
        _ => unreachable!(),
    }
}

fn add_overflows(a: u32, b: u32) -> bool {
    // sign-extend to 33+ bits, add, compare bit 32 with bit 31 (the manual's formulation)
    let t = (a as i32 as i64) + (b as i32 as i64);
    ((t >> 32) & 1) != ((t >> 31) & 1)
}
fn sub_overflows(a: u32, b: u32) -> bool {
    let t = (a as i32 as i64) - (b as i32 as i64);
    ((t >> 32) & 1) != ((t >> 31) & 1)
}

/// Execute one non-branch instruction.  Ok(None) = completed, Ok(Some(trap)) = exception.
fn exec_simple(st: &mut MipsState, d: &Decoded) -> Result<Option<&'static str>, Refusal> {
    use K::*;
    let (rs, rt, rd) = (d.rs, d.rt, d.rd);
    let a = st.get(rs);
    let b = st.get(rt);
    let simm = d.simm();
    let ea = a.wrapping_add(simm);
    let be = st.big_endian;
    match d.k {
        Sll => st.set(rd, b << d.sa),
        Srl => st.set(rd, b >> d.sa),
        Sra => st.set(rd, ((b as i32) >> d.sa) as u32),
        Sllv => st.set(rd, b << (a & 31)),
        Srlv => st.set(rd, b >> (a & 31)),
        Srav => st.set(rd, ((b as i32) >> (a & 31)) as u32),
        Movz => {
            if b == 0 {
                st.set(rd, a)
            }
        }
        Movn => {
            if b != 0 {
                st.set(rd, a)
            }
        }
        Syscall => return Ok(Some("syscall")),
        Break => return Ok(Some("break")),
        Sync | Pref => {}
        Mfhi => st.set(rd, st.hi),
        Mflo => st.set(rd, st.lo),
        Mthi => st.hi = a,
        Mtlo => st.lo = a,
        Mult => {
            let p = (a as i32 as i64).wrapping_mul(b as i32 as i64) as u64;
            st.lo = p as u32;
            st.hi = (p >> 32) as u32;
        }
        Multu => {
            let p = (a as u64) * (b as u64);
            st.lo = p as u32;
            st.hi = (p >> 32) as u32;
        }
        Div => {
            if b == 0 {
                return Err(Refusal::Unpredictable("div by zero"));
            }
            // quotient truncated toward zero, remainder has the sign of the dividend;
            // 0x80000000 / -1 wraps (no exception is ever taken)
            st.lo = (a as i32).wrapping_div(b as i32) as u32;
            st.hi = (a as i32).wrapping_rem(b as i32) as u32;
        }
        Divu => {
            if b == 0 {
                return Err(Refusal::Unpredictable("divu by zero"));
            }
            st.lo = a / b;
            st.hi = a % b;
        }
        Add => {
            if add_overflows(a, b) {
                return Ok(Some("IntegerOverflow"));
            }
            st.set(rd, a.wrapping_add(b))
        }
        Addu => st.set(rd, a.wrapping_add(b)),
        Sub => {
            if sub_overflows(a, b) {
                return Ok(Some("IntegerOverflow"));
            }
            st.set(rd, a.wrapping_sub(b))
        }
        Subu => st.set(rd, a.wrapping_sub(b)),
        And => st.set(rd, a & b),
        Or => st.set(rd, a | b),
        Xor => st.set(rd, a ^ b),
        Nor => st.set(rd, !(a | b)),
        Slt => st.set(rd, ((a as i32) < (b as i32)) as u32),
        Sltu => st.set(rd, (a < b) as u32),
        Teq => {
            if a == b {
                return Ok(Some("trap"));
            }
        }
        Addi => {
            if add_overflows(a, simm) {
                return Ok(Some("IntegerOverflow"));
            }
            st.set(rt, a.wrapping_add(simm))
        }
        Addiu => st.set(rt, a.wrapping_add(simm)),
        Slti => st.set(rt, ((a as i32) < (simm as i32)) as u32),
        // the immediate is sign-extended and then compared as unsigned
        Sltiu => st.set(rt, (a < simm) as u32),
        Andi => st.set(rt, a & d.imm),
        Ori => st.set(rt, a | d.imm),
        Xori => st.set(rt, a ^ d.imm),
        Lui => st.set(rt, d.imm << 16),
        Madd | Msub => {
            let acc = (((st.hi as u64) << 32) | st.lo as u64) as i64;
            let p = (a as i32 as i64).wrapping_mul(b as i32 as i64);
            let r = if d.k == Madd { acc.wrapping_add(p) } else { acc.wrapping_sub(p) } as u64;
            st.lo = r as u32;
            st.hi = (r >> 32) as u32;
        }
        Maddu | Msubu => {
            let acc = ((st.hi as u64) << 32) | st.lo as u64;
            let p = (a as u64) * (b as u64);
            let r = if d.k == Maddu { acc.wrapping_add(p) } else { acc.wrapping_sub(p) };
            st.lo = r as u32;
            st.hi = (r >> 32) as u32;
        }
        Mul => {
            st.set(rd, (a as i32 as i64).wrapping_mul(b as i32 as i64) as u32);
            st.hilo_unpredictable = true;
        }
        Clz | Clo => {
            if rt != rd {
                return Err(Refusal::Unpredictable("clz/clo rt != rd"));
            }
            let v = if d.k == Clo { !a } else { a };
            let mut n = 0;
            for bit in (0..32).rev() {
                if (v >> bit) & 1 == 1 {
                    break;
                }
                n += 1;
            }
            st.set(rd, n)
        }
        Rdhwr => {
            if rd != 29 {
                return Err(Refusal::Unpredictable("rdhwr of a register other than 29"));
            }
            return Ok(Some("rdhwr"));
        }
        Lb => {
            let v = st.mem.read8(ea);
            st.set(rt, v as i8 as i32 as u32)
        }
        Lbu => {
            let v = st.mem.read8(ea);
            st.set(rt, v as u32)
        }
        Lh | Lhu => {
            if ea & 1 != 0 && !st.lenient {
                return Err(Refusal::AddressError);
            }
            let v = st.mem.read(ea, 2, be) as u16;
            st.set(rt, if d.k == Lh { v as i16 as i32 as u32 } else { v as u32 })
        }
        Lw | Ll => {
            if ea & 3 != 0 && !st.lenient {
                return Err(Refusal::AddressError);
            }
            let v = st.mem.read(ea, 4, be) as u32;
            st.set(rt, v)
        }
        Sb => st.mem.write8(ea, b as u8),
        Sh => {
            if ea & 1 != 0 && !st.lenient {
                return Err(Refusal::AddressError);
            }
            st.mem.write(ea, 2, (b & 0xffff) as u64, be)
        }
        Sw => {
            if ea & 3 != 0 && !st.lenient {
                return Err(Refusal::AddressError);
            }
            st.mem.write(ea, 4, b as u64, be)
        }
        Sc => {
            if ea & 3 != 0 && !st.lenient {
                return Err(Refusal::AddressError);
            }
            // modelled as succeeding (LLbit set): store, then rt <- 1
            st.mem.write(ea, 4, b as u64, be);
            st.set(rt, 1)
        }
        Lwl | Lwr | Swl | Swr => unaligned(st, d.k, rt, ea),
        Jr | Jalr | Bltz | Bgez | Bltzal | Bgezal | J | Jal | Beq | Bne | Blez | Bgtz => unreachable!(),
    }
    Ok(None)
}

/// Execute the instruction at `st.pc`; for a branch, `slot` is the word in its delay slot.
/// On `Trap` the state is the one at the point of the exception (destination not written).
pub fn exec(st: &mut MipsState, word: u32, slot: Option<u32>, q: &Quirks) -> Result<Outcome, Refusal> {
    use K::*;
    let d = decode(word)?;
    let pc = st.pc;
    if !d.is_branch() {
        return Ok(match exec_simple(st, &d)? {
            Some(t) => Outcome::Trap(t),
            None => Outcome::Next(pc.wrapping_add(4)),
        });
    }
    let slot_word = slot.ok_or(Refusal::MissingDelaySlot)?;
    let sd = decode(slot_word)?;
    if sd.is_branch() {
        return Err(Refusal::BranchInDelaySlot);
    }
    let a = st.get(d.rs);
    let b = st.get(d.rt);
    let rel = pc.wrapping_add(4).wrapping_add(d.simm() << 2);
    let region = (pc.wrapping_add(4) & 0xf000_0000) | ((word & 0x03ff_ffff) << 2);
    // condition, target and link register as decided by the branch itself
    let cond = |a: u32, b: u32| -> bool {
        match d.k {
            Beq => a == b,
            Bne => a != b,
            Blez => (a as i32) <= 0,
            Bgtz => (a as i32) > 0,
            Bltz | Bltzal => (a as i32) < 0,
            Bgez | Bgezal => (a as i32) >= 0,
            _ => true,
        }
    };
    let mut taken = cond(a, b);
    let mut target = match d.k {
        J | Jal => region,
        Jr | Jalr => a,
        _ => rel,
    };
    let mut link: Option<u32> = match d.k {
        Jal | Bltzal | Bgezal => Some(31),
        Jalr => Some(d.rd),
        _ => None,
    };
    match d.k {
        Bltzal | Bgezal if d.rs == 31 => return Err(Refusal::Unpredictable("b*al with rs = $ra")),
        Jalr if d.rs == d.rd => return Err(Refusal::Unpredictable("jalr with rs = rd")),
        _ => {}
    }
    if d.k == Jalr && q.jalr_links_ra && d.rd != 0 {
        link = Some(31);
    }
    if d.k == Jalr && q.jalr_target_from_rd && d.rd != 31 && d.rd != 0 {
        target = st.get(d.rd);
    }
    let link_value = pc.wrapping_add(8);
    if !q.link_after_slot {
        if let Some(l) = link {
            st.set(l, link_value);
        }
    }
    // the delay slot executes before control transfers
    st.pc = pc.wrapping_add(4);
    let trap = exec_simple(st, &sd)?;
    st.pc = pc;
    if let Some(t) = trap {
        return Ok(Outcome::Trap(t));
    }
    if q.link_after_slot {
        if let Some(l) = link {
            st.set(l, link_value);
        }
    }
    if q.target_after_slot && matches!(d.k, Jr | Jalr) {
        target = if d.k == Jalr && q.jalr_target_from_rd && d.rd != 31 && d.rd != 0 { st.get(d.rd) } else { st.get(d.rs) };
    }
    if q.al_cond_after_slot && !matches!(d.k, J | Jal | Jr | Jalr) {
        taken = cond(st.get(d.rs), st.get(d.rt));
    }
    Ok(Outcome::Next(if taken { target } else { pc.wrapping_add(8) }))
}

// ---------------------------------------------------------------------------------------------
// self-checks: unit vectors hand-ported from lib/translator/mips/test.rs (big-endian, where the
// expected values there are architecturally right) and algebraic identities.

fn enc_i(opc: u32, rs: u32, rt: u32, imm: u32) -> u32 {
    (opc << 26) | (rs << 21) | (rt << 16) | (imm & 0xffff)
}
fn enc_r(rs: u32, rt: u32, rd: u32, sa: u32, funct: u32) -> u32 {
    (rs << 21) | (rt << 16) | (rd << 11) | (sa << 6) | funct
}

pub fn self_check() -> Result<u64, String> {
    let mut n = 0u64;
    let q = Quirks::default();
    let run = |word: u32, slot: Option<u32>, be: bool, setup: &dyn Fn(&mut MipsState)| -> (MipsState, Result<Outcome, Refusal>) {
        let mut st = MipsState::new(be, 7);
        st.pc = 0x1000;
        setup(&mut st);
        let o = exec(&mut st, word, slot, &q);
        (st, o)
    };
    macro_rules! expect {
        ($cond:expr, $($msg:tt)*) => {
            n += 1;
            if !$cond { return Err(format!("mips_ref self-check: {}", format!($($msg)*))); }
        };
    }
    // --- vectors from falcon's tests (bytes as given there) ---
    // add $a0,$a1,$a2 = 00a62020
    let (st, o) = run(0x00a6_2020, None, true, &|s| { s.gpr[5] = 1; s.gpr[6] = 1 });
    expect!(st.gpr[4] == 2 && o == Ok(Outcome::Next(0x1004)), "add 1+1");
    let (st, o) = run(0x00a6_2020, None, true, &|s| { s.gpr[5] = 0x7fff_ffff; s.gpr[6] = 1; s.gpr[4] = 9 });
    expect!(st.gpr[4] == 9 && o == Ok(Outcome::Trap("IntegerOverflow")), "add overflow");
    let (st, o) = run(0x00a6_2020, None, true, &|s| { s.gpr[5] = 0xffff_ffff; s.gpr[6] = 1 });
    expect!(st.gpr[4] == 0 && o == Ok(Outcome::Next(0x1004)), "add -1+1");
    let (_, o) = run(0x00a6_2020, None, true, &|s| { s.gpr[5] = 0x8000_0000; s.gpr[6] = 0xffff_ffff });
    expect!(o == Ok(Outcome::Trap("IntegerOverflow")), "add min + -1");
    // addi $a0,$a1,0x1234 = 20a41234 ; addiu = 24a41234
    let (st, _) = run(0x20a4_1234, None, true, &|s| s.gpr[5] = 1);
    expect!(st.gpr[4] == 0x1235, "addi");
    let (st, _) = run(0x24a4_1234, None, true, &|s| s.gpr[5] = 0x7fff_ffff);
    expect!(st.gpr[4] == 0x8000_1233, "addiu wraps");
    // lw $a0,0xec($a1) (falcon's own lw vector uses the unaligned address 0xdeadbeef, which is an
    // Address Error architecturally, so an aligned variant is used here)
    let (st, _) = run(0x8ca4_00ec, None, true, &|s| { s.gpr[5] = 0xdead_be00; s.mem.write(0xdead_beec, 4, 0x1122_3344, true) });
    expect!(st.gpr[4] == 0x1122_3344, "lw be");
    let (st, _) = run(0x8ca4_00ec, None, false, &|s| { s.gpr[5] = 0xdead_be00; s.mem.write(0xdead_beec, 4, 0x1122_3344, true) });
    expect!(st.gpr[4] == 0x4433_2211, "lw le reads the same bytes in the other order");
    let (_, o) = run(0x8ca4_00ef, None, true, &|s| s.gpr[5] = 0xdead_be00);
    expect!(o == Err(Refusal::AddressError), "unaligned lw is an address error");
    // lwl $a0,0($a1) = 88a40000 ; memory 11223344 55667788 at 0xdeadbe00
    let m = |s: &mut MipsState| { s.mem.write(0xdead_be00, 4, 0x1122_3344, true); s.mem.write(0xdead_be04, 4, 0x5566_7788, true); s.gpr[4] = 0xaaaa_aaaa };
    let (st, _) = run(0x88a4_0000, None, true, &|s| { m(s); s.gpr[5] = 0xdead_be02 });
    expect!(st.gpr[4] == 0x3344_aaaa, "lwl be +2: {:x}", st.gpr[4]);
    let (st, _) = run(0x88a4_0000, None, true, &|s| { m(s); s.gpr[5] = 0xdead_be01 });
    expect!(st.gpr[4] == 0x2233_44aa, "lwl be +1: {:x}", st.gpr[4]);
    // lwr $a0,0($a1) = 98a40000
    let (st, _) = run(0x98a4_0000, None, true, &|s| { m(s); s.gpr[5] = 0xdead_be05 });
    expect!(st.gpr[4] == 0xaaaa_5566, "lwr be +5: {:x}", st.gpr[4]);
    // jalr $ra,$a0 = 0080f809 with slot addiu $a0,$a0,1 = 24840001 (falcon's jalr test: $ra = 0xc at pc 4)
    let (st, o) = run(0x0080_f809, Some(0x2484_0001), true, &|s| { s.pc = 4; s.gpr[4] = 0xf });
    expect!(o == Ok(Outcome::Next(0xf)) && st.gpr[31] == 0xc && st.gpr[4] == 0x10, "jalr: target before slot, link pc+8 ({:?})", o);
    // jal 0x10 = 0c000004 at pc 4
    let (st, o) = run(0x0c00_0004, Some(0x2484_0001), true, &|s| { s.pc = 4; s.gpr[4] = 0 });
    expect!(o == Ok(Outcome::Next(0x10)) && st.gpr[31] == 0xc && st.gpr[4] == 1, "jal");
    // madd $a0,$a1 = 70850000 : 2*3 added to hi:lo
    let (st, _) = run(0x7085_0000, None, true, &|s| { s.gpr[4] = 2; s.gpr[5] = 3; s.hi = 1; s.lo = 0xffff_fffe });
    expect!(st.hi == 2 && st.lo == 4, "madd carries into hi: {:x}:{:x}", st.hi, st.lo);
    // sltiu with a negative immediate compares against the sign-extended value as unsigned
    let (st, _) = run(enc_i(0x0b, 5, 4, 0xffff), None, true, &|s| s.gpr[5] = 0xffff_fffe);
    expect!(st.gpr[4] == 1, "sltiu -1");
    let (st, _) = run(enc_i(0x0b, 5, 4, 0x8000), None, true, &|s| s.gpr[5] = 0x0000_9000);
    expect!(st.gpr[4] == 1, "sltiu 0x8000 sign-extends");
    // srav uses only the low five bits of rs
    let (st, _) = run(enc_r(5, 6, 4, 0, 0x07), None, true, &|s| { s.gpr[5] = 33; s.gpr[6] = 0x8000_0000 });
    expect!(st.gpr[4] == 0xc000_0000, "srav 33 -> 1");
    // clz / clo
    let (st, _) = run((0x1c << 26) | enc_r(5, 4, 4, 0, 0x20), None, true, &|s| s.gpr[5] = 0x0001_0000);
    expect!(st.gpr[4] == 15, "clz");
    let (st, _) = run((0x1c << 26) | enc_r(5, 4, 4, 0, 0x21), None, true, &|s| s.gpr[5] = 0xffff_ffff);
    expect!(st.gpr[4] == 32, "clo all ones");
    // writes to $zero are discarded
    let (st, _) = run(enc_i(0x09, 5, 0, 7), None, true, &|s| s.gpr[5] = 1);
    expect!(st.gpr[0] == 0, "$zero stays zero");
    // div: truncation toward zero, remainder follows the dividend
    let (st, _) = run(enc_r(5, 6, 0, 0, 0x1a), None, true, &|s| { s.gpr[5] = (-7i32) as u32; s.gpr[6] = 2 });
    expect!(st.lo == (-3i32) as u32 && st.hi == (-1i32) as u32, "div -7/2");

    // more vectors from falcon's tests: div, msub, mul, mult, multu, swl / swr (big-endian)
    let (st, _) = run(0x0085_001a, None, true, &|s| { s.gpr[4] = 19; s.gpr[5] = 4 });
    expect!(st.lo == 4 && st.hi == 3, "div 19/4");
    let (st, _) = run(0x0085_001a, None, true, &|s| { s.gpr[4] = 0xffff_ffec; s.gpr[5] = 4 });
    expect!(st.lo == 0xffff_fffb && st.hi == 0, "div -20/4");
    let (st, _) = run(0x7085_0004, None, true, &|s| { s.gpr[4] = 5; s.gpr[5] = 10; s.lo = 1; s.hi = 2 });
    expect!(st.lo == 0xffff_ffcf && st.hi == 1, "msub: accumulator - product");
    let (st, _) = run(0x70a6_2002, None, true, &|s| { s.gpr[5] = 7; s.gpr[6] = 11 });
    expect!(st.gpr[4] == 77 && st.hilo_unpredictable, "mul");
    let (st, _) = run(0x0085_0018, None, true, &|s| { s.gpr[4] = 0xffff_ffff; s.gpr[5] = 2 });
    expect!(st.hi == 0xffff_ffff && st.lo == 0xffff_fffe, "mult -1*2");
    let (st, _) = run(0x0085_0019, None, true, &|s| { s.gpr[4] = 0xffff_ffff; s.gpr[5] = 2 });
    expect!(st.hi == 1 && st.lo == 0xffff_fffe, "multu 0xffffffff*2");
    // swl $a0,0($a1) at 0x12 over 11223344 -> 1122aabb ; at 0x11 -> 11aabbcc ; swr at 0x15 over 55667788 -> ccdd7788
    let (st, _) = run(0xa8a4_0000, None, true, &|s| { s.mem.write(0x10, 4, 0x1122_3344, true); s.gpr[4] = 0xaabb_ccdd; s.gpr[5] = 0x12 });
    expect!(st.mem.clone().read(0x10, 4, true) == 0x1122_aabb, "swl be +2");
    let (st, _) = run(0xa8a4_0000, None, true, &|s| { s.mem.write(0x10, 4, 0x1122_3344, true); s.gpr[4] = 0xaabb_ccdd; s.gpr[5] = 0x11 });
    expect!(st.mem.clone().read(0x10, 4, true) == 0x11aa_bbcc, "swl be +1");
    let (st, _) = run(0xb8a4_0000, None, true, &|s| { s.mem.write(0x14, 4, 0x5566_7788, true); s.gpr[4] = 0xaabb_ccdd; s.gpr[5] = 0x15 });
    expect!(st.mem.clone().read(0x14, 4, true) == 0xccdd_7788, "swr be +1");

    // --- algebraic identities over a sweep of values ---
    let vals: [u32; 8] = [0, 1, 0x7fff_ffff, 0x8000_0000, 0xffff_ffff, 0x1234_5678, 0xdead_beef, 0x0000_ffff];
    // LWL∘LWR reassembles an unaligned word in both endiannesses; SWL∘SWR stores one
    for be in [true, false] {
        for off in 0..4u32 {
            let base = 0x2000 + off;
            let mut st = MipsState::new(be, 99);
            st.pc = 0x1000;
            st.gpr[5] = base;
            st.gpr[4] = 0x5a5a_5a5a;
            let want = st.mem.clone().read(base, 4, be) as u32;
            // BE: lwl rt,0(a); lwr rt,3(a).  LE: lwr rt,0(a); lwl rt,3(a)
            let (first, second) = if be { (0x22, 0x26) } else { (0x26, 0x22) };
            exec(&mut st, enc_i(first, 5, 4, 0), None, &q).map_err(|e| format!("{:?}", e))?;
            exec(&mut st, enc_i(second, 5, 4, 3), None, &q).map_err(|e| format!("{:?}", e))?;
            expect!(st.gpr[4] == want, "lwl/lwr reassemble be={} off={}: {:x} != {:x}", be, off, st.gpr[4], want);
            // stores
            let mut st2 = MipsState::new(be, 99);
            st2.pc = 0x1000;
            st2.gpr[5] = base;
            st2.gpr[4] = 0xa1b2_c3d4;
            let (first, second) = if be { (0x2a, 0x2e) } else { (0x2e, 0x2a) };
            exec(&mut st2, enc_i(first, 5, 4, 0), None, &q).map_err(|e| format!("{:?}", e))?;
            exec(&mut st2, enc_i(second, 5, 4, 3), None, &q).map_err(|e| format!("{:?}", e))?;
            let got = st2.mem.clone().read(base, 4, be) as u32;
            expect!(got == 0xa1b2_c3d4, "swl/swr store be={} off={}: {:x}", be, off, got);
            // and nothing outside the four bytes was written
            expect!(st2.mem.written.len() == 4, "swl/swr wrote {} bytes", st2.mem.written.len());
            // an aligned LWL+LWR pair at the same address equals LW
            if off == 0 {
                let mut st3 = MipsState::new(be, 99);
                st3.gpr[5] = base;
                exec(&mut st3, enc_i(0x23, 5, 4, 0), None, &q).map_err(|e| format!("{:?}", e))?;
                expect!(st3.gpr[4] == want, "lw == lwl/lwr");
            }
        }
    }
    for &x in &vals {
        for &y in &vals {
            for (h, l) in [(0u32, 0u32), (0xffff_ffff, 0xffff_ffff), (0x7fff_ffff, 0xffff_ffff), (1, 2)] {
                // MADD = MULT then 64-bit add ; MSUB = acc - product ; unsigned variants likewise
                for (macc, mult, sub) in [(0x00u32, 0x18u32, false), (0x01, 0x19, false), (0x04, 0x18, true), (0x05, 0x19, true)] {
                    let mut a = MipsState::new(true, 1);
                    a.gpr[4] = x;
                    a.gpr[5] = y;
                    a.hi = h;
                    a.lo = l;
                    let mut b = a.clone();
                    exec(&mut a, (0x1c << 26) | enc_r(4, 5, 0, 0, macc), None, &q).map_err(|e| format!("{:?}", e))?;
                    exec(&mut b, enc_r(4, 5, 0, 0, mult), None, &q).map_err(|e| format!("{:?}", e))?;
                    let p = ((b.hi as u64) << 32) | b.lo as u64;
                    let acc = ((h as u64) << 32) | l as u64;
                    let r = if sub { acc.wrapping_sub(p) } else { acc.wrapping_add(p) };
                    expect!(a.hi == (r >> 32) as u32 && a.lo == r as u32, "madd/msub identity funct {} x={:x} y={:x}", macc, x, y);
                }
            }
            // MUL = low word of MULT ; SLT/SLTU against subtraction sign / borrow
            let mut a = MipsState::new(true, 1);
            a.gpr[4] = x;
            a.gpr[5] = y;
            let mut b = a.clone();
            exec(&mut a, (0x1c << 26) | enc_r(4, 5, 6, 0, 0x02), None, &q).map_err(|e| format!("{:?}", e))?;
            exec(&mut b, enc_r(4, 5, 0, 0, 0x18), None, &q).map_err(|e| format!("{:?}", e))?;
            expect!(a.gpr[6] == b.lo, "mul = lo(mult)");
            let mut c = MipsState::new(true, 1);
            c.gpr[4] = x;
            c.gpr[5] = y;
            exec(&mut c, enc_r(4, 5, 6, 0, 0x2a), None, &q).map_err(|e| format!("{:?}", e))?;
            let wide = (x as i32 as i64) - (y as i32 as i64);
            expect!(c.gpr[6] == (wide < 0) as u32, "slt = sign of the exact difference");
            exec(&mut c, enc_r(4, 5, 6, 0, 0x2b), None, &q).map_err(|e| format!("{:?}", e))?;
            expect!(c.gpr[6] == ((x as u64) < (y as u64)) as u32, "sltu");
            // ADD traps exactly when the exact sum does not fit
            let mut e = MipsState::new(true, 1);
            e.gpr[4] = x;
            e.gpr[5] = y;
            let o = exec(&mut e, enc_r(4, 5, 6, 0, 0x20), None, &q).map_err(|e| format!("{:?}", e))?;
            let exact = (x as i32 as i64) + (y as i32 as i64);
            let fits = exact >= i32::MIN as i64 && exact <= i32::MAX as i64;
            expect!((o == Outcome::Trap("IntegerOverflow")) == !fits, "add overflow iff sum does not fit");
        }
    }
    Ok(n)
}
