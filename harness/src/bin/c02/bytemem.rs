//! Total byte memory for the MIPS / PPC reference interpreters: a deterministic background
//! function of (seed, address) overlaid by the bytes written so far.  Every 32-bit address is
//! readable, so no effective address is ever "unmapped" for the reference; the set of addresses
//! the reference touched is recorded so that the IL side can be given exactly those bytes (plus
//! a margin) in its partial byte map.
#![allow(dead_code)]

use std::collections::{BTreeMap, BTreeSet};

#[derive(Clone, Debug, PartialEq, Eq)]
pub struct ByteMem {
    pub seed: u64,
    pub written: BTreeMap<u32, u8>,
    /// every address read or written by the reference (for prefilling the IL memory)
    pub touched: BTreeSet<u32>,
}

/// background byte at `addr`: a splitmix-style hash, so neighbouring bytes are unrelated and
/// every byte of a word is (almost surely) distinct — byte-order mistakes show.
pub fn background(seed: u64, addr: u32) -> u8 {
    let mut z = seed ^ (addr as u64).wrapping_mul(0x9E37_79B9_7F4A_7C15);
    z = (z ^ (z >> 30)).wrapping_mul(0xBF58_476D_1CE4_E5B9);
    z = (z ^ (z >> 27)).wrapping_mul(0x94D0_49BB_1331_11EB);
    z ^= z >> 31;
    (z >> 17) as u8
}

impl ByteMem {
    pub fn new(seed: u64) -> ByteMem {
        ByteMem { seed, written: BTreeMap::new(), touched: BTreeSet::new() }
    }
    /// value without recording a touch (for comparisons)
    pub fn peek(&self, addr: u32) -> u8 {
        match self.written.get(&addr) {
            Some(b) => *b,
            None => background(self.seed, addr),
        }
    }
    pub fn read8(&mut self, addr: u32) -> u8 {
        self.touched.insert(addr);
        self.peek(addr)
    }
    pub fn write8(&mut self, addr: u32, v: u8) {
        self.touched.insert(addr);
        self.written.insert(addr, v);
    }
    /// `n` bytes starting at `addr` (addresses wrap modulo 2^32), assembled in the given order
    pub fn read(&mut self, addr: u32, n: u32, big_endian: bool) -> u64 {
        let mut v: u64 = 0;
        for i in 0..n {
            let b = self.read8(addr.wrapping_add(i)) as u64;
            if big_endian {
                v = (v << 8) | b;
            } else {
                v |= b << (8 * i);
            }
        }
        v
    }
    pub fn write(&mut self, addr: u32, n: u32, value: u64, big_endian: bool) {
        for i in 0..n {
            let b = if big_endian { (value >> (8 * (n - 1 - i))) as u8 } else { (value >> (8 * i)) as u8 };
            self.write8(addr.wrapping_add(i), b);
        }
    }
}
