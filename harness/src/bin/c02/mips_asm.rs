//! MIPS32 template encoder: structured fields -> 32-bit instruction word, for every opcode the
//! falcon MIPS lifter accepts (lib/translator/mips/mod.rs), with every register / immediate /
//! shift / code field variable.  Encodings are from "MIPS32 Architecture For Programmers,
//! Volume II" (instruction formats, Table A.2-A.6 opcode maps).
//!
//! Reusable API:
//!   `Op`, `Fields`, `encode(op, &Fields) -> u32`, `word_bytes(word, big_endian)`,
//!   `TEMPLATES` (one entry per mnemonic capstone can report and falcon dispatches on, alias forms
//!   such as move/negu/beqz/b/bal/nop included), `ACCEPTED_MNEMONICS`,
//!   `gen_fields(tape)` / `Template::instantiate` (random fields with aliasing bias),
//!   `Op::is_branch`, `Op::mem_access`.
#![allow(dead_code)]

use fv::tape::Tape;

#[derive(Clone, Copy, Debug, PartialEq, Eq, Hash, PartialOrd, Ord)]
pub enum Op {
    Sll, Srl, Sra, Sllv, Srlv, Srav, Jr, Jalr, Movz, Movn, Syscall, Break, Sync, Mfhi, Mthi, Mflo, Mtlo,
    Mult, Multu, Div, Divu, Add, Addu, Sub, Subu, And, Or, Xor, Nor, Slt, Sltu, Teq,
    Bltz, Bgez, Bltzal, Bgezal, J, Jal, Beq, Bne, Blez, Bgtz,
    Addi, Addiu, Slti, Sltiu, Andi, Ori, Xori, Lui,
    Madd, Maddu, Mul, Msub, Msubu, Clz, Clo, Rdhwr,
    Lb, Lh, Lwl, Lw, Lbu, Lhu, Lwr, Sb, Sh, Swl, Sw, Swr, Ll, Pref, Sc,
}

/// Every field an instruction can carry.  `encode` uses only the fields the format defines and
/// writes zero into must-be-zero fields.
#[derive(Clone, Copy, Debug, Default, PartialEq, Eq)]
pub struct Fields {
    pub rs: u8,
    pub rt: u8,
    pub rd: u8,
    pub sa: u8,
    /// 16-bit immediate / offset (raw bits)
    pub imm: u16,
    /// 26-bit instr_index of J / JAL
    pub target: u32,
    /// 20-bit code of SYSCALL / BREAK; low 10 bits are the code of TEQ
    pub code: u32,
}

/// What kind of memory access an opcode makes: (bytes, required alignment, is_store)
#[derive(Clone, Copy, Debug, PartialEq, Eq)]
pub struct MemAccess {
    pub bytes: u32,
    pub align: u32,
    pub store: bool,
}

impl Op {
    pub fn is_branch(self) -> bool {
        use Op::*;
        matches!(self, Jr | Jalr | Bltz | Bgez | Bltzal | Bgezal | J | Jal | Beq | Bne | Blez | Bgtz)
    }
    pub fn links(self) -> bool {
        use Op::*;
        matches!(self, Jalr | Bltzal | Bgezal | Jal)
    }
    pub fn mem_access(self) -> Option<MemAccess> {
        use Op::*;
        let m = |bytes, align, store| Some(MemAccess { bytes, align, store });
        match self {
            Lb | Lbu => m(1, 1, false),
            Sb => m(1, 1, true),
            Lh | Lhu => m(2, 2, false),
            Sh => m(2, 2, true),
            Lw | Ll => m(4, 4, false),
            Sw | Sc => m(4, 4, true),
            Lwl | Lwr => m(4, 1, false),
            Swl | Swr => m(4, 1, true),
            _ => None,
        }
    }
}

const fn r(rs: u8, rt: u8, rd: u8, sa: u8, funct: u32) -> u32 {
    ((rs as u32 & 31) << 21) | ((rt as u32 & 31) << 16) | ((rd as u32 & 31) << 11) | ((sa as u32 & 31) << 6) | funct
}
const fn i(opc: u32, rs: u8, rt: u8, imm: u16) -> u32 {
    (opc << 26) | ((rs as u32 & 31) << 21) | ((rt as u32 & 31) << 16) | imm as u32
}

pub fn encode(op: Op, f: &Fields) -> u32 {
    use Op::*;
    let sp2 = 0x1cu32 << 26;
    match op {
        Sll => r(0, f.rt, f.rd, f.sa, 0x00),
        Srl => r(0, f.rt, f.rd, f.sa, 0x02),
        Sra => r(0, f.rt, f.rd, f.sa, 0x03),
        Sllv => r(f.rs, f.rt, f.rd, 0, 0x04),
        Srlv => r(f.rs, f.rt, f.rd, 0, 0x06),
        Srav => r(f.rs, f.rt, f.rd, 0, 0x07),
        Jr => r(f.rs, 0, 0, 0, 0x08),
        Jalr => r(f.rs, 0, f.rd, 0, 0x09),
        Movz => r(f.rs, f.rt, f.rd, 0, 0x0a),
        Movn => r(f.rs, f.rt, f.rd, 0, 0x0b),
        Syscall => ((f.code & 0xfffff) << 6) | 0x0c,
        Break => ((f.code & 0xfffff) << 6) | 0x0d,
        Sync => r(0, 0, 0, f.sa, 0x0f),
        Mfhi => r(0, 0, f.rd, 0, 0x10),
        Mthi => r(f.rs, 0, 0, 0, 0x11),
        Mflo => r(0, 0, f.rd, 0, 0x12),
        Mtlo => r(f.rs, 0, 0, 0, 0x13),
        Mult => r(f.rs, f.rt, 0, 0, 0x18),
        Multu => r(f.rs, f.rt, 0, 0, 0x19),
        Div => r(f.rs, f.rt, 0, 0, 0x1a),
        Divu => r(f.rs, f.rt, 0, 0, 0x1b),
        Add => r(f.rs, f.rt, f.rd, 0, 0x20),
        Addu => r(f.rs, f.rt, f.rd, 0, 0x21),
        Sub => r(f.rs, f.rt, f.rd, 0, 0x22),
        Subu => r(f.rs, f.rt, f.rd, 0, 0x23),
        And => r(f.rs, f.rt, f.rd, 0, 0x24),
        Or => r(f.rs, f.rt, f.rd, 0, 0x25),
        Xor => r(f.rs, f.rt, f.rd, 0, 0x26),
        Nor => r(f.rs, f.rt, f.rd, 0, 0x27),
        Slt => r(f.rs, f.rt, f.rd, 0, 0x2a),
        Sltu => r(f.rs, f.rt, f.rd, 0, 0x2b),
        Teq => ((f.rs as u32 & 31) << 21) | ((f.rt as u32 & 31) << 16) | ((f.code & 0x3ff) << 6) | 0x34,
        Bltz => i(0x01, f.rs, 0x00, f.imm),
        Bgez => i(0x01, f.rs, 0x01, f.imm),
        Bltzal => i(0x01, f.rs, 0x10, f.imm),
        Bgezal => i(0x01, f.rs, 0x11, f.imm),
        J => (0x02 << 26) | (f.target & 0x03ff_ffff),
        Jal => (0x03 << 26) | (f.target & 0x03ff_ffff),
        Beq => i(0x04, f.rs, f.rt, f.imm),
        Bne => i(0x05, f.rs, f.rt, f.imm),
        Blez => i(0x06, f.rs, 0, f.imm),
        Bgtz => i(0x07, f.rs, 0, f.imm),
        Addi => i(0x08, f.rs, f.rt, f.imm),
        Addiu => i(0x09, f.rs, f.rt, f.imm),
        Slti => i(0x0a, f.rs, f.rt, f.imm),
        Sltiu => i(0x0b, f.rs, f.rt, f.imm),
        Andi => i(0x0c, f.rs, f.rt, f.imm),
        Ori => i(0x0d, f.rs, f.rt, f.imm),
        Xori => i(0x0e, f.rs, f.rt, f.imm),
        Lui => i(0x0f, 0, f.rt, f.imm),
        Madd => sp2 | r(f.rs, f.rt, 0, 0, 0x00),
        Maddu => sp2 | r(f.rs, f.rt, 0, 0, 0x01),
        Mul => sp2 | r(f.rs, f.rt, f.rd, 0, 0x02),
        Msub => sp2 | r(f.rs, f.rt, 0, 0, 0x04),
        Msubu => sp2 | r(f.rs, f.rt, 0, 0, 0x05),
        // the manual requires the rt field of CLZ/CLO to equal rd
        Clz => sp2 | r(f.rs, f.rd, f.rd, 0, 0x20),
        Clo => sp2 | r(f.rs, f.rd, f.rd, 0, 0x21),
        Rdhwr => (0x1f << 26) | r(0, f.rt, f.rd, 0, 0x3b),
        Lb => i(0x20, f.rs, f.rt, f.imm),
        Lh => i(0x21, f.rs, f.rt, f.imm),
        Lwl => i(0x22, f.rs, f.rt, f.imm),
        Lw => i(0x23, f.rs, f.rt, f.imm),
        Lbu => i(0x24, f.rs, f.rt, f.imm),
        Lhu => i(0x25, f.rs, f.rt, f.imm),
        Lwr => i(0x26, f.rs, f.rt, f.imm),
        Sb => i(0x28, f.rs, f.rt, f.imm),
        Sh => i(0x29, f.rs, f.rt, f.imm),
        Swl => i(0x2a, f.rs, f.rt, f.imm),
        Sw => i(0x2b, f.rs, f.rt, f.imm),
        Swr => i(0x2e, f.rs, f.rt, f.imm),
        Ll => i(0x30, f.rs, f.rt, f.imm),
        Pref => i(0x33, f.rs, f.rt, f.imm),
        Sc => i(0x38, f.rs, f.rt, f.imm),
    }
}

pub fn word_bytes(word: u32, big_endian: bool) -> [u8; 4] {
    if big_endian {
        word.to_be_bytes()
    } else {
        word.to_le_bytes()
    }
}

/// One generator template: the mnemonic capstone is expected to report (falcon dispatches on
/// it), the architectural opcode, and the field constraints that make the alias form.
#[derive(Clone, Copy)]
pub struct Template {
    pub name: &'static str,
    pub op: Op,
    pub fix: fn(&mut Fields),
}

fn nofix(_: &mut Fields) {}
fn nz(x: u8) -> u8 {
    if x == 0 { 1 } else { x }
}

/// Plain forms keep the fields away from the alias patterns only where that would change the
/// mnemonic class (e.g. `addu rd, rs, $zero` is `move`); everything else stays free.
pub const TEMPLATES: &[Template] = &[
    Template { name: "add", op: Op::Add, fix: nofix },
    Template { name: "addi", op: Op::Addi, fix: nofix },
    Template { name: "addiu", op: Op::Addiu, fix: nofix },
    Template { name: "addu", op: Op::Addu, fix: |f| f.rt = nz(f.rt) },
    Template { name: "and", op: Op::And, fix: nofix },
    Template { name: "andi", op: Op::Andi, fix: nofix },
    Template { name: "b", op: Op::Beq, fix: |f| { f.rs = 0; f.rt = 0 } },
    Template { name: "bal", op: Op::Bgezal, fix: |f| f.rs = 0 },
    Template { name: "beq", op: Op::Beq, fix: |f| f.rt = nz(f.rt) },
    Template { name: "beqz", op: Op::Beq, fix: |f| { f.rs = nz(f.rs); f.rt = 0 } },
    Template { name: "bgez", op: Op::Bgez, fix: nofix },
    Template { name: "bgezal", op: Op::Bgezal, fix: |f| f.rs = nz(f.rs) },
    Template { name: "bgtz", op: Op::Bgtz, fix: nofix },
    Template { name: "blez", op: Op::Blez, fix: nofix },
    Template { name: "bltz", op: Op::Bltz, fix: nofix },
    Template { name: "bltzal", op: Op::Bltzal, fix: nofix },
    Template { name: "bne", op: Op::Bne, fix: |f| f.rt = nz(f.rt) },
    Template { name: "bnez", op: Op::Bne, fix: |f| f.rt = 0 },
    Template { name: "break", op: Op::Break, fix: nofix },
    Template { name: "clo", op: Op::Clo, fix: nofix },
    Template { name: "clz", op: Op::Clz, fix: nofix },
    Template { name: "div", op: Op::Div, fix: nofix },
    Template { name: "divu", op: Op::Divu, fix: nofix },
    Template { name: "j", op: Op::J, fix: nofix },
    Template { name: "jal", op: Op::Jal, fix: nofix },
    Template { name: "jalr", op: Op::Jalr, fix: |f| f.rd = nz(f.rd) },
    Template { name: "jr", op: Op::Jr, fix: nofix },
    // jalr $zero, rs is printed as "jr rs" by capstone
    Template { name: "jr(jalr-zero)", op: Op::Jalr, fix: |f| f.rd = 0 },
    Template { name: "lb", op: Op::Lb, fix: nofix },
    Template { name: "lbu", op: Op::Lbu, fix: nofix },
    Template { name: "lh", op: Op::Lh, fix: nofix },
    Template { name: "lhu", op: Op::Lhu, fix: nofix },
    Template { name: "ll", op: Op::Ll, fix: nofix },
    Template { name: "lui", op: Op::Lui, fix: nofix },
    Template { name: "lw", op: Op::Lw, fix: nofix },
    Template { name: "lwl", op: Op::Lwl, fix: nofix },
    Template { name: "lwr", op: Op::Lwr, fix: nofix },
    Template { name: "madd", op: Op::Madd, fix: nofix },
    Template { name: "maddu", op: Op::Maddu, fix: nofix },
    Template { name: "mfhi", op: Op::Mfhi, fix: nofix },
    Template { name: "mflo", op: Op::Mflo, fix: nofix },
    Template { name: "move", op: Op::Addu, fix: |f| f.rt = 0 },
    Template { name: "move(or)", op: Op::Or, fix: |f| f.rt = 0 },
    Template { name: "movn", op: Op::Movn, fix: nofix },
    Template { name: "movz", op: Op::Movz, fix: nofix },
    Template { name: "msub", op: Op::Msub, fix: nofix },
    Template { name: "msubu", op: Op::Msubu, fix: nofix },
    Template { name: "mthi", op: Op::Mthi, fix: nofix },
    Template { name: "mtlo", op: Op::Mtlo, fix: nofix },
    Template { name: "mul", op: Op::Mul, fix: nofix },
    Template { name: "mult", op: Op::Mult, fix: nofix },
    Template { name: "multu", op: Op::Multu, fix: nofix },
    Template { name: "negu", op: Op::Subu, fix: |f| f.rs = 0 },
    Template { name: "nop", op: Op::Sll, fix: |f| { f.rd = 0; f.rt = 0; f.sa = 0 } },
    Template { name: "nor", op: Op::Nor, fix: |f| f.rt = nz(f.rt) },
    Template { name: "or", op: Op::Or, fix: |f| f.rt = nz(f.rt) },
    Template { name: "ori", op: Op::Ori, fix: nofix },
    Template { name: "pref", op: Op::Pref, fix: nofix },
    Template { name: "rdhwr", op: Op::Rdhwr, fix: |f| f.rd = 29 },
    Template { name: "sb", op: Op::Sb, fix: nofix },
    Template { name: "sc", op: Op::Sc, fix: nofix },
    Template { name: "sh", op: Op::Sh, fix: nofix },
    Template { name: "sll", op: Op::Sll, fix: |f| if f.rd == 0 && f.rt == 0 && f.sa == 0 { f.rd = 1 } },
    Template { name: "sllv", op: Op::Sllv, fix: nofix },
    Template { name: "slt", op: Op::Slt, fix: nofix },
    Template { name: "slti", op: Op::Slti, fix: nofix },
    Template { name: "sltiu", op: Op::Sltiu, fix: nofix },
    Template { name: "sltu", op: Op::Sltu, fix: nofix },
    Template { name: "sra", op: Op::Sra, fix: nofix },
    Template { name: "srav", op: Op::Srav, fix: nofix },
    Template { name: "srl", op: Op::Srl, fix: nofix },
    Template { name: "srlv", op: Op::Srlv, fix: nofix },
    Template { name: "sub", op: Op::Sub, fix: |f| f.rs = nz(f.rs) },
    Template { name: "subu", op: Op::Subu, fix: |f| f.rs = nz(f.rs) },
    Template { name: "sw", op: Op::Sw, fix: nofix },
    Template { name: "swl", op: Op::Swl, fix: nofix },
    Template { name: "swr", op: Op::Swr, fix: nofix },
    Template { name: "sync", op: Op::Sync, fix: nofix },
    Template { name: "syscall", op: Op::Syscall, fix: nofix },
    Template { name: "teq", op: Op::Teq, fix: nofix },
    Template { name: "xor", op: Op::Xor, fix: nofix },
    Template { name: "xori", op: Op::Xori, fix: nofix },
];

/// Mnemonics (as the reference decoder names them, alias-aware) that falcon's MIPS lifter
/// accepts; measured at bring-up with the template generator and frozen here (it is the list of
/// `MIPS_INS_*` arms in lib/translator/mips/mod.rs).
pub const ACCEPTED_MNEMONICS: &[&str] = &[
    "add", "addi", "addiu", "addu", "and", "andi", "b", "bal", "beq", "beqz", "bgez", "bgezal", "bgtz", "blez",
    "bltz", "bltzal", "bne", "bnez", "break", "clo", "clz", "div", "divu", "j", "jal", "jalr", "jr", "lb", "lbu",
    "lh", "lhu", "ll", "lui", "lw", "lwl", "lwr", "madd", "maddu", "mfhi", "mflo", "move", "movn", "movz", "msub",
    "msubu", "mthi", "mtlo", "mul", "mult", "multu", "negu", "nop", "nor", "or", "ori", "pref", "rdhwr", "sb", "sc",
    "sh", "sll", "sllv", "slt", "slti", "sltiu", "sltu", "sra", "srav", "srl", "srlv", "sub", "subu", "sw", "swl",
    "swr", "sync", "syscall", "teq", "xor", "xori",
];

/// A 5-bit register field with aliasing bias: $zero, $ra and a small pool are over-represented.
pub fn gen_reg(t: &mut Tape) -> u8 {
    match t.weighted(&[3, 10, 2, 5]) {
        0 => 0,
        1 => t.below(32) as u8,
        2 => 31,
        _ => [2u8, 4, 5, 8, 9][t.below(5)],
    }
}

/// 16-bit immediate with boundary bias: 0, 1, -1, 0x7fff, 0x8000, small, small negative, random
pub fn gen_imm16(t: &mut Tape) -> u16 {
    match t.weighted(&[1, 1, 2, 1, 2, 3, 3, 8]) {
        0 => 0,
        1 => 1,
        2 => 0xffff,
        3 => 0x7fff,
        4 => 0x8000,
        5 => t.below(64) as u16,
        6 => 0u16.wrapping_sub(t.range(1, 64) as u16),
        _ => t.raw() as u16,
    }
}

pub fn gen_shamt(t: &mut Tape) -> u8 {
    match t.weighted(&[2, 2, 2, 1, 6]) {
        0 => 0,
        1 => 31,
        2 => 1,
        3 => 16,
        _ => t.below(32) as u8,
    }
}

/// Random fields with register-aliasing bias (rd=rs, rd=rt, rs=rt, rt=base).
pub fn gen_fields(t: &mut Tape) -> Fields {
    let mut f = Fields {
        rs: gen_reg(t),
        rt: gen_reg(t),
        rd: gen_reg(t),
        sa: gen_shamt(t),
        imm: gen_imm16(t),
        target: t.raw() & 0x03ff_ffff,
        code: if t.chance(1, 2) { t.raw() & 0xfffff } else { 0 },
    };
    match t.weighted(&[10, 2, 2, 2, 1]) {
        0 => {}
        1 => f.rd = f.rs,
        2 => f.rd = f.rt,
        3 => f.rt = f.rs,
        _ => {
            f.rd = f.rs;
            f.rt = f.rs
        }
    }
    if t.chance(1, 8) {
        f.target = [0u32, 1, 0x03ff_ffff, 0x0200_0000][t.below(4)];
    }
    f
}

impl Template {
    pub fn instantiate(&self, t: &mut Tape) -> (Op, Fields, u32) {
        let mut f = gen_fields(t);
        (self.fix)(&mut f);
        (self.op, f, encode(self.op, &f))
    }
}

pub fn template_by_name(name: &str) -> Option<&'static Template> {
    TEMPLATES.iter().find(|t| t.name == name)
}
