//! Run a `BlockTranslationResult` with the reference IL interpreter (`fv::refil::Machine`).
//!
//! A translated block is a list of per-instruction control-flow graphs plus a successor list.
//! Semantics (lib/translator/mod.rs translate_function_extended): the graphs execute in list
//! order, the exit of one falling into the entry of the next; after the last one, control goes to
//! the successor whose guard is one (guards are over the final state).  A `Branch` operation
//! inside a graph transfers control to its target (executor::Driver does exactly that), so it
//! ends the run with that next pc.  An `Intrinsic` is an outcome, it is not executed.
//!
//! Reusable API: `run_block(&BlockTranslationResult, RefState, step_limit) -> IlRun`.
#![allow(dead_code)]

use falcon::il;
use falcon::translator::BlockTranslationResult;
use fv::refil::{Effect, Fault, FnView, Loc, Machine, RefState};

#[derive(Clone, Debug, PartialEq, Eq)]
pub enum IlOutcome {
    /// control continues at this address (Branch target or the enabled successor)
    Next(u64),
    /// an Intrinsic operation was reached (mnemonic); the state is the one before it
    Intrinsic(String),
    /// the IL itself is broken for this state: ill-sorted assignment, undefined scalar, unmapped
    /// memory, no / two enabled edges or successors, step limit
    Fault(String),
}

#[derive(Clone, Debug)]
pub struct IlRun {
    pub state: RefState,
    pub outcome: IlOutcome,
    /// (address of the instruction graph, IL operations executed in it)
    pub trace: Vec<(u64, usize)>,
    pub steps: usize,
}

fn at_graph_end(view: &FnView, loc: Loc) -> bool {
    match loc {
        Loc::Instr(b, i) => {
            let is = &view.blocks[&b];
            is.last().map(|x| x.index) == Some(i) && view.out_edges(b).is_empty()
        }
        Loc::Empty(b) => view.out_edges(b).is_empty(),
        Loc::Edge(..) => false,
    }
}

pub fn run_block(btr: &BlockTranslationResult, state: RefState, step_limit: usize) -> IlRun {
    let mut state = state;
    let mut trace = Vec::new();
    let mut steps = 0usize;
    for (addr, cfg) in btr.instructions() {
        let view = FnView::of_cfg(cfg);
        let mut m = match Machine::new(&view, state.clone()) {
            Ok(m) => m,
            Err(f) => {
                return IlRun { state, outcome: IlOutcome::Fault(format!("graph-entry:{}", f.kind())), trace, steps };
            }
        };
        let mut ops = 0usize;
        loop {
            if steps >= step_limit {
                return IlRun { state: m.state, outcome: IlOutcome::Fault("step-limit".into()), trace, steps };
            }
            steps += 1;
            // an intrinsic is an outcome, not something to execute
            if let Loc::Instr(b, i) = m.loc {
                if let Some(iv) = view.instr(b, i) {
                    if let il::Operation::Intrinsic { intrinsic } = &iv.op {
                        trace.push((*addr, ops));
                        return IlRun { state: m.state, outcome: IlOutcome::Intrinsic(intrinsic.mnemonic().to_string()), trace, steps };
                    }
                }
            }
            let last = at_graph_end(&view, m.loc);
            if last {
                if let Loc::Empty(_) = m.loc {
                    break;
                }
            }
            match m.step() {
                Ok(Effect::Branch { target }) => {
                    trace.push((*addr, ops + 1));
                    return IlRun { state: m.state, outcome: IlOutcome::Next(target), trace, steps };
                }
                Ok(Effect::Pass) => {}
                Ok(_) => ops += 1,
                Err(Fault::NoEdge) if last && m.last_effect.is_some() => {
                    ops += 1;
                    break;
                }
                Err(f) => {
                    trace.push((*addr, ops));
                    let what = match &f {
                        Fault::UndefinedScalar(n) => format!("undefined-scalar:{}", n),
                        Fault::Sort(_) => "ill-sorted".to_string(),
                        other => other.kind().to_string(),
                    };
                    return IlRun { state: m.state, outcome: IlOutcome::Fault(what), trace, steps };
                }
            }
        }
        trace.push((*addr, ops));
        state = m.state;
    }
    // successors: exactly one guard must hold
    let mut chosen: Option<u64> = None;
    for (addr, cond) in btr.successors() {
        let enabled = match cond {
            None => true,
            Some(c) => match fv::refil::eval(c, &state.scalars) {
                Ok(v) if v.w == 1 => v.is_one(),
                Ok(_) => return IlRun { state, outcome: IlOutcome::Fault("successor-guard-not-1-bit".into()), trace, steps },
                Err(f) => return IlRun { state, outcome: IlOutcome::Fault(format!("successor-guard:{}", f.kind())), trace, steps },
            },
        };
        if enabled {
            if chosen.is_some() && chosen != Some(*addr) {
                return IlRun { state, outcome: IlOutcome::Fault("two-successors".into()), trace, steps };
            }
            chosen = Some(*addr);
        }
    }
    match chosen {
        Some(a) => IlRun { state, outcome: IlOutcome::Next(a), trace, steps },
        None => IlRun { state, outcome: IlOutcome::Fault("no-successor".into()), trace, steps },
    }
}

/// Readable dump of a translated block (for replay files and the `show` sub-command).
pub fn render_block(btr: &BlockTranslationResult) -> String {
    let mut s = String::new();
    for (addr, cfg) in btr.instructions() {
        s.push_str(&format!("  graph @0x{:x} entry={:?} exit={:?}\n", addr, cfg.entry(), cfg.exit()));
        for b in cfg.blocks() {
            s.push_str(&format!("    block {}\n", b.index()));
            for i in b.instructions() {
                s.push_str(&format!("      {}\n", i.operation()));
            }
        }
        let mut es: Vec<String> = cfg
            .edges()
            .iter()
            .map(|e| format!("    edge {}->{} {}", e.head(), e.tail(), e.condition().map(|c| c.to_string()).unwrap_or_default()))
            .collect();
        es.sort();
        for e in es {
            s.push_str(&e);
            s.push('\n');
        }
    }
    for (a, c) in btr.successors() {
        s.push_str(&format!("  successor 0x{:x} {}\n", a, c.as_ref().map(|c| c.to_string()).unwrap_or_default()));
    }
    s
}
