//! Reference interpreter for the 32-bit PowerPC instructions falcon lifts, written from
//! "PowerPC Microprocessor Family: The Programming Environments for 32-bit Microprocessors"
//! (UISA; instruction descriptions of chapter 8, branch BO encodings of table 4-? / section
//! 4.2.4.2, simplified mnemonics of appendix F).  It decodes the RAW 32-bit word by primary and
//! extended opcode — never through capstone — so simplified mnemonics (li, lis, mr, nop, slwi,
//! blr, bctr, bdnzl, mtlr, mflr, mtctr, cmpwi, cmplwi) are part of what a comparison tests.
//! Bit numbering is IBM's (bit 0 = most significant).
//!
//! State as falcon models it: r0..r31, lr, ctr, the 32 CR bits (crN-lt/gt/eq/so), XER[CA] as
//! "carry".  XER[SO]/XER[OV] are not modelled by falcon: CR bits that the architecture copies from
//! XER[SO] are reported in `so_copied` and are not compared.
//!
//! Reusable API: `PpcState`, `decode(word)`, `exec(&mut PpcState, word) -> Result<Outcome, Refusal>`,
//! `Decoded::mnemonic()`, `mask(mb, me)`, `self_check()`.
#![allow(dead_code)]

use super::bytemem::ByteMem;

#[derive(Clone, Debug, PartialEq, Eq)]
pub struct PpcState {
    pub gpr: [u32; 32],
    pub lr: u32,
    pub ctr: u32,
    /// CR bit i (IBM numbering): field n = bits 4n..4n+3 = LT, GT, EQ, SO
    pub cr: [bool; 32],
    /// XER[CA]
    pub ca: bool,
    pub pc: u32,
    pub mem: ByteMem,
    /// CR bits written with a copy of XER[SO] (outside the modelled state)
    pub so_copied: Vec<usize>,
}

impl PpcState {
    pub fn new(mem_seed: u64) -> PpcState {
        PpcState { gpr: [0; 32], lr: 0, ctr: 0, cr: [false; 32], ca: false, pc: 0, mem: ByteMem::new(mem_seed), so_copied: Vec::new() }
    }
    fn base(&self, ra: u32) -> u32 {
        // (rA|0)
        if ra == 0 { 0 } else { self.gpr[ra as usize] }
    }
    fn record(&mut self, field: usize, signed_value: i64) {
        self.cr[4 * field] = signed_value < 0;
        self.cr[4 * field + 1] = signed_value > 0;
        self.cr[4 * field + 2] = signed_value == 0;
        self.so_copied.push(4 * field + 3);
    }
}

#[derive(Clone, Copy, Debug, PartialEq, Eq)]
pub enum Outcome {
    Next(u32),
    Trap(&'static str),
}

#[derive(Clone, Copy, Debug, PartialEq, Eq)]
pub enum Refusal {
    Unknown,
    /// reserved field non-zero, or L = 1 in a compare on a 32-bit implementation
    Reserved(&'static str),
    /// the UISA calls the form invalid (lwzu with rA = 0 or rA = rD, stwu with rA = 0, bcctr
    /// that decrements CTR)
    InvalidForm(&'static str),
    /// stmw with an effective address that is not a multiple of four
    Unaligned,
}

#[derive(Clone, Copy, Debug, PartialEq, Eq, Hash, PartialOrd, Ord)]
pub enum K {
    Add, Addi, Addis, Addze, B, Bc, Bclr, Bcctr, Cmpi, Cmpli, Lbz, Lwz, Lwzu, Mfspr, Mtspr, Or, Ori, Rlwinm,
    Srawi, Stmw, Stw, Stwu, Subf,
}

#[derive(Clone, Copy, Debug, PartialEq, Eq)]
pub struct Decoded {
    pub k: K,
    pub rt: u32,
    pub ra: u32,
    pub rb: u32,
    pub imm: u32,
    pub rc: bool,
    pub oe: bool,
    pub lk: bool,
    pub aa: bool,
    pub word: u32,
}

impl Decoded {
    pub fn simm(&self) -> u32 {
        self.imm as u16 as i16 as i32 as u32
    }
    pub fn bo(&self) -> u32 {
        self.rt
    }
    pub fn bi(&self) -> u32 {
        self.ra
    }
    pub fn crfd(&self) -> u32 {
        self.rt >> 2
    }
    pub fn spr(&self) -> u32 {
        // the two 5-bit halves are swapped in the encoding
        (self.rb << 5) | self.ra
    }
    pub fn sh(&self) -> u32 {
        self.rb
    }
    pub fn mb(&self) -> u32 {
        (self.word >> 6) & 31
    }
    pub fn me(&self) -> u32 {
        (self.word >> 1) & 31
    }
    pub fn is_branch(&self) -> bool {
        matches!(self.k, K::B | K::Bc | K::Bclr | K::Bcctr)
    }
    /// simplified mnemonic as a disassembler prints it (appendix F of the PEM; the subset that
    /// matters for falcon's dispatch plus a few neighbours that it rejects)
    pub fn mnemonic(&self) -> &'static str {
        let dot = self.rc;
        match self.k {
            K::Add => match (self.oe, dot) { (false, false) => "add", (false, true) => "add.", (true, false) => "addo", (true, true) => "addo." },
            K::Subf => match (self.oe, dot) { (false, false) => "subf", (false, true) => "subf.", (true, false) => "subfo", (true, true) => "subfo." },
            K::Addze => match (self.oe, dot) { (false, false) => "addze", (false, true) => "addze.", (true, false) => "addzeo", (true, true) => "addzeo." },
            K::Addi => if self.ra == 0 { "li" } else { "addi" },
            K::Addis => if self.ra == 0 { "lis" } else { "addis" },
            K::B => match (self.aa, self.lk) { (false, false) => "b", (false, true) => "bl", (true, false) => "ba", (true, true) => "bla" },
            K::Bc => {
                let bo = self.bo();
                if self.aa {
                    "bca/bcla"
                } else if bo & 0b10110 == 0b10000 {
                    // decrement CTR, branch if CTR != 0, condition ignored (BI is then a don't-care)
                    if self.lk { "bdnzl" } else { "bdnz" }
                } else if bo & 0b10110 == 0b10010 {
                    if self.lk { "bdzl" } else { "bdz" }
                } else if bo & 0b10100 == 0b10100 {
                    if self.lk { "bcl-always" } else { "bc-always" }
                } else if self.lk {
                    "bcl"
                } else {
                    "bc"
                }
            }
            K::Bclr => {
                if self.bo() & 0x14 == 0x14 && self.bi() == 0 {
                    if self.lk { "blrl" } else { "blr" }
                } else if self.lk {
                    "bclrl"
                } else {
                    "bclr"
                }
            }
            K::Bcctr => {
                if self.bo() & 0x14 == 0x14 && self.bi() == 0 {
                    if self.lk { "bctrl" } else { "bctr" }
                } else if self.lk {
                    "bcctrl"
                } else {
                    "bcctr"
                }
            }
            K::Cmpi => "cmpwi",
            K::Cmpli => "cmplwi",
            K::Lbz => "lbz",
            K::Lwz => "lwz",
            K::Lwzu => "lwzu",
            K::Mfspr => match self.spr() { 8 => "mflr", 9 => "mfctr", 1 => "mfxer", _ => "mfspr" },
            K::Mtspr => match self.spr() { 8 => "mtlr", 9 => "mtctr", 1 => "mtxer", _ => "mtspr" },
            K::Or => if self.rt == self.rb { if dot { "mr." } else { "mr" } } else if dot { "or." } else { "or" },
            K::Ori => if self.rt == 0 && self.ra == 0 && self.imm == 0 { "nop" } else { "ori" },
            K::Rlwinm => {
                // capstone: slwi / srwi are substituted by the printer for the non-record form
                // only (slwi first, so `rlwinm x,y,0,0,31` is `slwi x,y,0`); rotlwi / clrlwi are
                // table aliases and exist for the record form too
                let (sh, mb, me) = (self.sh(), self.mb(), self.me());
                if !dot {
                    if mb == 0 && me == 31 - sh {
                        "slwi"
                    } else if me == 31 && sh != 0 && mb == 32 - sh {
                        "srwi"
                    } else if mb == 0 && me == 31 {
                        "rotlwi"
                    } else if sh == 0 && me == 31 {
                        "clrlwi"
                    } else {
                        "rlwinm"
                    }
                } else if mb == 0 && me == 31 {
                    "rotlwi."
                } else if sh == 0 && me == 31 {
                    "clrlwi."
                } else {
                    "rlwinm."
                }
            }
            K::Srawi => if dot { "srawi." } else { "srawi" },
            K::Stmw => "stmw",
            K::Stw => "stw",
            K::Stwu => "stwu",
        }
    }
    pub fn render(&self) -> String {
        let s = self.simm() as i32;
        match self.k {
            K::Add | K::Subf => format!("{} r{},r{},r{}", self.mnemonic(), self.rt, self.ra, self.rb),
            K::Addze => format!("{} r{},r{}", self.mnemonic(), self.rt, self.ra),
            K::Addi | K::Addis => format!("{} r{},r{},{}", self.mnemonic(), self.rt, self.ra, s),
            K::B => format!("{} LI=0x{:x}", self.mnemonic(), (self.word >> 2) & 0x00ff_ffff),
            K::Bc => format!("{} BO={},BI={},BD={}", self.mnemonic(), self.bo(), self.bi(), ((self.word & 0xfffc) as u16 as i16)),
            K::Bclr | K::Bcctr => format!("{} BO={},BI={}", self.mnemonic(), self.bo(), self.bi()),
            K::Cmpi => format!("cmpwi cr{},r{},{}", self.crfd(), self.ra, s),
            K::Cmpli => format!("cmplwi cr{},r{},{}", self.crfd(), self.ra, self.imm),
            K::Lbz | K::Lwz | K::Lwzu | K::Stw | K::Stwu | K::Stmw => format!("{} r{},{}(r{})", self.mnemonic(), self.rt, s, self.ra),
            K::Mfspr | K::Mtspr => format!("{} r{} (spr {})", self.mnemonic(), self.rt, self.spr()),
            K::Or => format!("{} r{},r{},r{}", self.mnemonic(), self.ra, self.rt, self.rb),
            K::Ori => format!("{} r{},r{},0x{:x}", self.mnemonic(), self.ra, self.rt, self.imm),
            K::Rlwinm => format!("{}[rlwinm] r{},r{},{},{},{}", self.mnemonic(), self.ra, self.rt, self.sh(), self.mb(), self.me()),
            K::Srawi => format!("{} r{},r{},{}", self.mnemonic(), self.ra, self.rt, self.sh()),
        }
    }
}

pub fn decode(word: u32) -> Result<Decoded, Refusal> {
    let opc = word >> 26;
    let rt = (word >> 21) & 31;
    let ra = (word >> 16) & 31;
    let rb = (word >> 11) & 31;
    let imm = word & 0xffff;
    let xo10 = (word >> 1) & 0x3ff;
    let xo9 = (word >> 1) & 0x1ff;
    let rc = word & 1 == 1;
    let oe = (word >> 10) & 1 == 1;
    let mk = |k: K, rc: bool, oe: bool, lk: bool, aa: bool| Ok(Decoded { k, rt, ra, rb, imm, rc, oe, lk, aa, word });
    match opc {
        10 | 11 => {
            if (word >> 22) & 1 != 0 {
                return Err(Refusal::Reserved("compare bit 9"));
            }
            if (word >> 21) & 1 != 0 {
                return Err(Refusal::Reserved("compare with L = 1 on a 32-bit implementation"));
            }
            mk(if opc == 10 { K::Cmpli } else { K::Cmpi }, false, false, false, false)
        }
        14 => mk(K::Addi, false, false, false, false),
        15 => mk(K::Addis, false, false, false, false),
        16 => mk(K::Bc, false, false, word & 1 == 1, word & 2 == 2),
        18 => mk(K::B, false, false, word & 1 == 1, word & 2 == 2),
        19 => match xo10 {
            16 | 528 => {
                if rb != 0 {
                    return Err(Refusal::Reserved("bclr/bcctr bits 16-20"));
                }
                mk(if xo10 == 16 { K::Bclr } else { K::Bcctr }, false, false, word & 1 == 1, false)
            }
            _ => Err(Refusal::Unknown),
        },
        21 => mk(K::Rlwinm, rc, false, false, false),
        24 => mk(K::Ori, false, false, false, false),
        31 => {
            // XO-form arithmetic has a 9-bit extended opcode with OE above it
            match xo9 {
                266 => return mk(K::Add, rc, oe, false, false),
                40 => return mk(K::Subf, rc, oe, false, false),
                202 => {
                    if rb != 0 {
                        return Err(Refusal::Reserved("addze bits 16-20"));
                    }
                    return mk(K::Addze, rc, oe, false, false);
                }
                _ => {}
            }
            match xo10 {
                444 => mk(K::Or, rc, false, false, false),
                824 => mk(K::Srawi, rc, false, false, false),
                339 | 467 => {
                    if rc {
                        return Err(Refusal::Reserved("mfspr/mtspr bit 31"));
                    }
                    mk(if xo10 == 339 { K::Mfspr } else { K::Mtspr }, false, false, false, false)
                }
                _ => Err(Refusal::Unknown),
            }
        }
        32 => mk(K::Lwz, false, false, false, false),
        33 => mk(K::Lwzu, false, false, false, false),
        34 => mk(K::Lbz, false, false, false, false),
        36 => mk(K::Stw, false, false, false, false),
        37 => mk(K::Stwu, false, false, false, false),
        47 => mk(K::Stmw, false, false, false, false),
        _ => Err(Refusal::Unknown),
    }
}

/// MASK(mb, me) of the rotate instructions, bit by bit from the definition: ones from bit mb
/// through bit me (IBM numbering), wrapping around through bit 31 to bit 0 when mb > me.
pub fn mask(mb: u32, me: u32) -> u32 {
    let mut m = 0u32;
    let mut i = mb & 31;
    loop {
        m |= 0x8000_0000u32 >> i;
        if i == (me & 31) {
            break;
        }
        i = (i + 1) & 31;
    }
    m
}

pub fn exec(st: &mut PpcState, word: u32) -> Result<Outcome, Refusal> {
    let d = decode(word)?;
    let cia = st.pc;
    let next = Ok(Outcome::Next(cia.wrapping_add(4)));
    let (rt, ra, rb) = (d.rt as usize, d.ra as usize, d.rb as usize);
    let simm = d.simm();
    match d.k {
        K::Add => {
            let r = st.gpr[ra].wrapping_add(st.gpr[rb]);
            st.gpr[rt] = r;
            if d.rc {
                st.record(0, r as i32 as i64);
            }
            next
        }
        K::Subf => {
            // rD <- ¬(rA) + (rB) + 1
            let r = (!st.gpr[ra]).wrapping_add(st.gpr[rb]).wrapping_add(1);
            st.gpr[rt] = r;
            if d.rc {
                st.record(0, r as i32 as i64);
            }
            next
        }
        K::Addze => {
            let wide = st.gpr[ra] as u64 + st.ca as u64;
            st.gpr[rt] = wide as u32;
            st.ca = (wide >> 32) & 1 == 1;
            if d.rc {
                st.record(0, wide as u32 as i32 as i64);
            }
            next
        }
        K::Addi => {
            st.gpr[rt] = st.base(d.ra).wrapping_add(simm);
            next
        }
        K::Addis => {
            st.gpr[rt] = st.base(d.ra).wrapping_add(d.imm << 16);
            next
        }
        K::B => {
            let li = ((word & 0x03ff_fffc) as i32) << 6 >> 6; // sign-extend the 26-bit LI||0b00
            let target = if d.aa { li as u32 } else { cia.wrapping_add(li as u32) };
            if d.lk {
                st.lr = cia.wrapping_add(4);
            }
            Ok(Outcome::Next(target))
        }
        K::Bc | K::Bclr | K::Bcctr => {
            let bo = d.bo();
            let (bo0, bo1, bo2, bo3) = (bo & 16 != 0, bo & 8 != 0, bo & 4 != 0, bo & 2 != 0);
            if d.k == K::Bcctr && !bo2 {
                return Err(Refusal::InvalidForm("bcctr with BO[2] = 0"));
            }
            if !bo2 {
                st.ctr = st.ctr.wrapping_sub(1);
            }
            let ctr_ok = bo2 || ((st.ctr != 0) != bo3);
            let cond_ok = bo0 || (st.cr[d.bi() as usize] == bo1);
            let target = match d.k {
                K::Bc => {
                    let bd = (word & 0xfffc) as u16 as i16 as i32 as u32;
                    if d.aa { bd } else { cia.wrapping_add(bd) }
                }
                K::Bclr => st.lr & !3,
                _ => st.ctr & !3,
            };
            if d.lk {
                st.lr = cia.wrapping_add(4);
            }
            if ctr_ok && cond_ok {
                Ok(Outcome::Next(target))
            } else {
                next
            }
        }
        K::Cmpi => {
            let a = st.gpr[ra] as i32 as i64;
            let b = simm as i32 as i64;
            let f = d.crfd() as usize;
            st.cr[4 * f] = a < b;
            st.cr[4 * f + 1] = a > b;
            st.cr[4 * f + 2] = a == b;
            st.so_copied.push(4 * f + 3);
            next
        }
        K::Cmpli => {
            let a = st.gpr[ra] as u64;
            let b = d.imm as u64;
            let f = d.crfd() as usize;
            st.cr[4 * f] = a < b;
            st.cr[4 * f + 1] = a > b;
            st.cr[4 * f + 2] = a == b;
            st.so_copied.push(4 * f + 3);
            next
        }
        K::Lbz => {
            let ea = st.base(d.ra).wrapping_add(simm);
            st.gpr[rt] = st.mem.read8(ea) as u32;
            next
        }
        K::Lwz => {
            let ea = st.base(d.ra).wrapping_add(simm);
            st.gpr[rt] = st.mem.read(ea, 4, true) as u32;
            next
        }
        K::Lwzu => {
            if d.ra == 0 || d.ra == d.rt {
                return Err(Refusal::InvalidForm("lwzu with rA = 0 or rA = rD"));
            }
            let ea = st.gpr[ra].wrapping_add(simm);
            st.gpr[rt] = st.mem.read(ea, 4, true) as u32;
            st.gpr[ra] = ea;
            next
        }
        K::Stw => {
            let ea = st.base(d.ra).wrapping_add(simm);
            st.mem.write(ea, 4, st.gpr[rt] as u64, true);
            next
        }
        K::Stwu => {
            if d.ra == 0 {
                return Err(Refusal::InvalidForm("stwu with rA = 0"));
            }
            let ea = st.gpr[ra].wrapping_add(simm);
            st.mem.write(ea, 4, st.gpr[rt] as u64, true);
            st.gpr[ra] = ea;
            next
        }
        K::Stmw => {
            let mut ea = st.base(d.ra).wrapping_add(simm);
            if ea & 3 != 0 {
                return Err(Refusal::Unaligned);
            }
            for r in rt..32 {
                st.mem.write(ea, 4, st.gpr[r] as u64, true);
                ea = ea.wrapping_add(4);
            }
            next
        }
        K::Mfspr => {
            st.gpr[rt] = match d.spr() {
                8 => st.lr,
                9 => st.ctr,
                _ => return Err(Refusal::Unknown),
            };
            next
        }
        K::Mtspr => {
            match d.spr() {
                8 => st.lr = st.gpr[rt],
                9 => st.ctr = st.gpr[rt],
                _ => return Err(Refusal::Unknown),
            }
            next
        }
        K::Or => {
            // or rA,rS,rB : rS is in the rt position
            let r = st.gpr[rt] | st.gpr[rb];
            st.gpr[ra] = r;
            if d.rc {
                st.record(0, r as i32 as i64);
            }
            next
        }
        K::Ori => {
            st.gpr[ra] = st.gpr[rt] | d.imm;
            next
        }
        K::Rlwinm => {
            let r = st.gpr[rt].rotate_left(d.sh()) & mask(d.mb(), d.me());
            st.gpr[ra] = r;
            if d.rc {
                st.record(0, r as i32 as i64);
            }
            next
        }
        K::Srawi => {
            let s = st.gpr[rt];
            let n = d.sh();
            let r = ((s as i32) >> n) as u32;
            // CA: the source is negative and a 1 bit was shifted out
            let lost = if n == 0 { 0 } else { s & ((1u32 << n) - 1) };
            st.ca = (s as i32) < 0 && lost != 0;
            st.gpr[ra] = r;
            if d.rc {
                st.record(0, r as i32 as i64);
            }
            next
        }
    }
}

// ---------------------------------------------------------------------------------------------

pub fn self_check() -> Result<u64, String> {
    let mut n = 0u64;
    macro_rules! expect {
        ($cond:expr, $($msg:tt)*) => {
            n += 1;
            if !$cond { return Err(format!("ppc_ref self-check: {}", format!($($msg)*))); }
        };
    }
    // rotate-mask identities
    for mb in 0..32u32 {
        for me in 0..32u32 {
            let m = mask(mb, me);
            let closed = if mb <= me {
                (0xffff_ffffu32 >> mb) & (0xffff_ffffu32 << (31 - me))
            } else {
                (0xffff_ffffu32 >> mb) | (0xffff_ffffu32 << (31 - me))
            };
            expect!(m == closed, "mask({},{}) = {:x}, closed form {:x}", mb, me, m, closed);
            expect!(m.count_ones() == ((me + 32 - mb) % 32) + 1, "popcount mask({},{})", mb, me);
            if mb != (me + 1) % 32 {
                // the complement of a mask is the mask of the complementary range
                expect!(!m == mask((me + 1) % 32, (mb + 31) % 32), "complement mask({},{})", mb, me);
            } else {
                expect!(m == 0xffff_ffff, "mask(me+1, me) is all ones");
            }
        }
    }
    expect!(mask(0, 31) == 0xffff_ffff && mask(0, 0) == 0x8000_0000 && mask(31, 31) == 1, "mask corners");
    // falcon's only PPC vector: rlwinm r6,r4,2,0,29 (0x5486103a)
    let mut st = PpcState::new(3);
    st.gpr[4] = 0x9000_3000;
    st.gpr[6] = 0xffff_ffff;
    let o = exec(&mut st, 0x5486_103a).map_err(|e| format!("{:?}", e))?;
    expect!(st.gpr[6] == 0x4000_c000 && o == Outcome::Next(4), "rlwinm vector 1: {:x}", st.gpr[6]);
    st.gpr[4] = 0xb004_3000;
    exec(&mut st, 0x5486_103a).map_err(|e| format!("{:?}", e))?;
    expect!(st.gpr[6] == 0xc010_c000, "rlwinm vector 2: {:x}", st.gpr[6]);
    expect!(decode(0x5486_103a).unwrap().mnemonic() == "slwi", "rlwinm 6,4,2,0,29 is slwi 6,4,2");
    // slwi / srwi / rotlwi as rlwinm equal plain shifts and rotates
    for &x in &[0u32, 1, 0x8000_0001, 0xdead_beef, 0xffff_ffff] {
        for nn in 0..32u32 {
            let rl = |sh: u32, mb: u32, me: u32| -> u32 {
                let mut s = PpcState::new(1);
                s.gpr[4] = x;
                exec(&mut s, (21 << 26) | (4 << 21) | (5 << 16) | (sh << 11) | (mb << 6) | (me << 1)).unwrap();
                s.gpr[5]
            };
            expect!(rl(nn, 0, 31 - nn) == x << nn, "slwi {}", nn);
            if nn > 0 {
                expect!(rl(32 - nn, nn, 31) == x >> nn, "srwi {}", nn);
            }
            expect!(rl(nn, 0, 31) == x.rotate_left(nn), "rotlwi {}", nn);
            // srawi: value and carry against exact arithmetic
            let mut s = PpcState::new(1);
            s.gpr[4] = x;
            exec(&mut s, (31 << 26) | (4 << 21) | (5 << 16) | (nn << 11) | (824 << 1)).unwrap();
            let exact = (x as i32 as i64).div_euclid(1i64 << nn);
            expect!(s.gpr[5] == exact as u32, "srawi value");
            expect!(s.ca == ((x as i32) < 0 && (exact << nn) != x as i32 as i64), "srawi carry x={:x} n={}", x, nn);
        }
    }
    // subf = rB - rA ; addze carries ; li / lis ignore r0 ; mtlr / mflr / mtctr
    let mut s = PpcState::new(1);
    s.gpr[3] = 5;
    s.gpr[4] = 3;
    exec(&mut s, (31 << 26) | (5 << 21) | (3 << 16) | (4 << 11) | (40 << 1)).unwrap();
    expect!(s.gpr[5] == (3u32).wrapping_sub(5), "subf");
    s.gpr[3] = 0xffff_ffff;
    s.ca = true;
    exec(&mut s, (31 << 26) | (5 << 21) | (3 << 16) | (202 << 1)).unwrap();
    expect!(s.gpr[5] == 0 && s.ca, "addze carry out");
    s.gpr[0] = 0x1234;
    exec(&mut s, (14 << 26) | (5 << 21) | (0 << 16) | 0xfffe).unwrap();
    expect!(s.gpr[5] == 0xffff_fffe, "li -2 ignores r0");
    exec(&mut s, (15 << 26) | (5 << 21) | (0 << 16) | 0x1234).unwrap();
    expect!(s.gpr[5] == 0x1234_0000, "lis");
    s.gpr[7] = 0xcafe_f00d;
    exec(&mut s, 0x7ce8_03a6).unwrap(); // mtlr r7
    expect!(s.lr == 0xcafe_f00d && decode(0x7ce8_03a6).unwrap().mnemonic() == "mtlr", "mtlr r7");
    exec(&mut s, 0x7d08_02a6).unwrap(); // mflr r8
    expect!(s.gpr[8] == 0xcafe_f00d && decode(0x7d08_02a6).unwrap().mnemonic() == "mflr", "mflr r8");
    exec(&mut s, 0x7ce9_03a6).unwrap(); // mtctr r7
    expect!(s.ctr == 0xcafe_f00d && decode(0x7ce9_03a6).unwrap().mnemonic() == "mtctr", "mtctr r7");
    // blr = 4e800020 ; bctr = 4e800420 ; bdnzl ; beq
    s.pc = 0x100;
    let o = exec(&mut s, 0x4e80_0020).unwrap();
    expect!(o == Outcome::Next(0xcafe_f00c) && decode(0x4e80_0020).unwrap().mnemonic() == "blr", "blr goes to LR & ~3");
    let o = exec(&mut s, 0x4e80_0420).unwrap();
    expect!(o == Outcome::Next(0xcafe_f00c) && decode(0x4e80_0420).unwrap().mnemonic() == "bctr", "bctr");
    s.ctr = 2;
    let o = exec(&mut s, 0x4200_0011).unwrap(); // bdnzl +16
    expect!(o == Outcome::Next(0x110) && s.ctr == 1 && s.lr == 0x104, "bdnzl taken");
    let o = exec(&mut s, 0x4200_0011).unwrap();
    expect!(o == Outcome::Next(0x104) && s.ctr == 0 && s.lr == 0x104, "bdnzl falls through at zero");
    s.cr[2] = true;
    let o = exec(&mut s, 0x4182_0008).unwrap(); // beq cr0,+8
    expect!(o == Outcome::Next(0x108), "beq taken");
    s.cr[2] = false;
    let o = exec(&mut s, 0x4182_0008).unwrap();
    expect!(o == Outcome::Next(0x104), "beq not taken");
    // cmpwi cr7,r3,-1 : signed ; cmplwi unsigned
    s.gpr[3] = 0xffff_fffe;
    exec(&mut s, (11 << 26) | (7 << 23) | (3 << 16) | 0xffff).unwrap();
    expect!(s.cr[28] && !s.cr[29] && !s.cr[30], "cmpwi -2 < -1");
    exec(&mut s, (10 << 26) | (7 << 23) | (3 << 16) | 0xffff).unwrap();
    expect!(!s.cr[28] && s.cr[29] && !s.cr[30], "cmplwi 0xfffffffe > 0xffff");
    // stmw r30 stores r30, r31 ascending ; lwz reads big-endian
    let mut s = PpcState::new(5);
    s.gpr[1] = 0x2000;
    s.gpr[30] = 0x1122_3344;
    s.gpr[31] = 0x5566_7788;
    exec(&mut s, (47 << 26) | (30 << 21) | (1 << 16) | 8).unwrap();
    expect!(s.mem.peek(0x2008) == 0x11 && s.mem.peek(0x200f) == 0x88 && s.mem.written.len() == 8, "stmw");
    exec(&mut s, (32 << 26) | (5 << 21) | (1 << 16) | 0xc).unwrap();
    expect!(s.gpr[5] == 0x5566_7788, "lwz");
    Ok(n)
}
