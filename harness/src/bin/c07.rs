//! C07 — the concrete executor implements the IL operational semantics exactly.
//!
//! Domain: programs of 1-3 generated IL functions (`fv::gen_il::gen_fn`, widths 1..128, stores /
//! loads of 8..128 bits, both memory endiannesses, every instruction carries an address) plus an
//! initial scalar / memory state (missing scalars, holes in memory).  Generator classes: plain
//! (guards exclusive and exhaustive by construction), broken guards, intrinsics, branches (to an
//! instruction address of the same / another function, through a scalar, to nowhere), on-demand
//! lifting (a `Branch` to an address that holds a tiny amd64 function in executable memory).
//!
//! Oracle: `fv::refil::Machine` (Bv arithmetic, byte-map memory) run in lock-step with
//! `falcon::executor::Driver::step`, wrapped here into a program-level machine that gives
//! `Branch` the meaning the property states ("indirect branch to the evaluated address": the
//! first IL instruction carrying that address, in whichever function).  After every step:
//! location (function, block, instruction / edge / empty block), every scalar name known to the
//! program, the bytes around the access; at the end every byte either side knows about.  Faults
//! must correspond in kind.

use falcon::architecture::{Amd64, Architecture, Endian};
use falcon::executor::{Driver, Memory as ExMemory, State};
use falcon::il;
use falcon::memory::{backing, MemoryPermissions};
use falcon::{Error, RC};
use fv::bv::Bv;
use fv::engine::{self, guard, Failure, Obs, Spec, Tier};
use fv::gen_il::{gen_fn, gen_state, FnSpec, IlParams, OpSpec, Pool};
use fv::refil::{self, Effect, Fault, FnView, IntrinsicMode, Loc, Machine, RefMem, RefState};
use fv::tape::{from_tape, Tape};
use serde::{Deserialize, Serialize};
use std::collections::{BTreeMap, BTreeSet};

const SCRATCH: u64 = 0x1000_0000;
const SCRATCH_LEN: u64 = 64;
const FN_BASE: u64 = 0x4000;
const FN_STRIDE: u64 = 0x400;
const BLOB_ADDR: u64 = 0x2000_0000;
const NOWHERE: u64 = 0x7000_0000;
const PLACEHOLDER: u64 = 0x0dea_d000;
const PAGE: u64 = 1024;

/// Tiny amd64 functions for the on-demand lifting arm.  Their *meaning* is not checked here (that
/// is C01): the reference interprets whatever IL falcon lifted for them.
const BLOBS: &[(&str, &[u8])] = &[
    ("ret", &[0xc3]),
    ("xor eax,eax; ret", &[0x31, 0xc0, 0xc3]),
    ("mov rax,42; ret", &[0x48, 0xc7, 0xc0, 0x2a, 0, 0, 0, 0xc3]),
    ("mov rax,rdi; add rax,rsi; ret", &[0x48, 0x89, 0xf8, 0x48, 0x01, 0xf0, 0xc3]),
    ("test rdi,rdi; je +3; inc rax; ret", &[0x48, 0x85, 0xff, 0x74, 0x03, 0x48, 0xff, 0xc0, 0xc3]),
    ("mov [rsp-8],rdi; mov rax,[rsp-8]; ret", &[0x48, 0x89, 0x7c, 0x24, 0xf8, 0x48, 0x8b, 0x44, 0x24, 0xf8, 0xc3]),
    ("jmp rax", &[0xff, 0xe0]),
    // both successors of the conditional jump coincide: falcon's lifter emits ONE guarded edge
    ("test rdi,rdi; je +0; ret", &[0x48, 0x85, 0xff, 0x74, 0x00, 0xc3]),
];

const KLASSES: [&str; 5] = ["plain", "broken-guards", "intrinsics", "branches", "lift"];

#[derive(Clone, Debug, Serialize, Deserialize)]
struct Blob {
    addr: u64,
    what: String,
    bytes: Vec<u8>,
}

#[derive(Clone, Debug, Serialize, Deserialize)]
struct Case {
    klass: String,
    fns: Vec<FnSpec>,
    start_fn: usize,
    state: RefState,
    blob: Option<Blob>,
    /// every scalar name (with its width) that is observed after each step
    names: Vec<(String, usize)>,
    max_steps: usize,
    /// the initial memory image reaches the executor as a permissioned backing (the way a loaded
    /// binary does) instead of through stores
    #[serde(default)]
    backed: bool,
}

// ------------------------------------------------------------------------------------------
// generation

fn konst(v: u64, bits: usize) -> il::Expression {
    il::Expression::constant(il::Constant::new_big(num_bigint::BigUint::from(v), bits))
}

/// name <-> width must be a function across the whole program (the executor's scalar map is
/// keyed by name only, and every lifter guarantees it): `sK` of width w becomes `r<w>_<K>`.
fn renamed(s: &il::Scalar) -> il::Scalar {
    let n = s.name();
    if let Some(k) = n.strip_prefix('s') {
        il::scalar(format!("r{}_{}", s.bits(), k), s.bits())
    } else {
        s.clone()
    }
}

fn rename_op(op: &mut il::Operation) {
    if let Some(v) = op.scalars_read_mut() {
        for s in v {
            *s = renamed(s);
        }
    }
    if let Some(v) = op.scalars_written_mut() {
        for s in v {
            *s = renamed(s);
        }
    }
}

/// Addresses a branch can name: the first instruction of every run of equal addresses.
fn addressable(f: &FnSpec) -> Vec<u64> {
    let mut v = Vec::new();
    for ops in &f.blocks {
        let mut prev = None;
        for o in ops {
            if o.address != prev {
                if let Some(a) = o.address {
                    v.push(a);
                }
            }
            prev = o.address;
        }
    }
    v
}

fn decode(t: &mut Tape) -> Case {
    let klass = t.weighted(&[32, 16, 12, 30, 10]);
    let big_endian = t.chance(1, 2);
    let addr_bits = if klass == 4 || !t.chance(1, 4) { 64 } else { 32 };
    let p = IlParams {
        max_blocks: 6,
        max_ops: 4,
        widths: vec![1, 8, 16, 32, 64, 128],
        max_scalars: 6,
        addr_bits,
        mem: true,
        branch: klass >= 3,
        intrinsic: klass == 2,
        definitely_assigned: false,
        entry_no_preds: false,
        unreachable: false,
        broken_guards_permille: if klass == 1 { 450 } else { 0 },
        scratch_base: SCRATCH,
        scratch_len: SCRATCH_LEN,
        max_expr_depth: 3,
        branch_targets: vec![PLACEHOLDER],
        raw_divisor_permille: 40,
        raw_address_permille: 50,
        raw_ashr: false,
        index_gaps_permille: 250,
        nop_placeholders: true,
        function_index: false,
    };
    let nf = if klass >= 3 { t.range(1, 3) } else { 1 };
    let mut fns: Vec<FnSpec> = Vec::new();
    let mut names: BTreeMap<String, usize> = BTreeMap::new();
    for fi in 0..nf {
        let g = gen_fn(t, &p);
        let mut spec = g.spec;
        let base = FN_BASE + fi as u64 * FN_STRIDE;
        spec.address = base;
        let mut count = 0u64;
        for ops in spec.blocks.iter_mut() {
            for o in ops.iter_mut() {
                rename_op(&mut o.op);
                o.address = Some(base + 4 * count);
                count += 1;
            }
        }
        for e in spec.edges.iter_mut() {
            if let Some(c) = e.2.as_mut() {
                for s in c.scalars_mut() {
                    *s = renamed(s);
                }
            }
        }
        for (n, w) in &g.pool.scalars {
            let r = renamed(&il::scalar(n.clone(), *w));
            names.insert(r.name().to_string(), r.bits());
        }
        // make sure the branch classes really branch
        if klass >= 3 {
            let has = spec.blocks.iter().flatten().any(|o| matches!(o.op, il::Operation::Branch { .. }));
            if !has && t.chance(4, 5) {
                let b = t.below(spec.blocks.len().min(3));
                let pos = t.below(spec.blocks[b].len() + 1);
                spec.blocks[b].insert(
                    pos,
                    OpSpec { op: il::Operation::Branch { target: konst(PLACEHOLDER, addr_bits) }, address: Some(base + 4 * count) },
                );
            }
        }
        // accesses wider than any pool scalar (136..512 bits, what vector registers need): a load
        // of that width assembled from the byte-wise initial image / narrower stores, sometimes
        // stored back at another offset and loaded again across the seam of the wide store
        if t.chance(1, 4) {
            let w = *t.pick(&[136usize, 192, 256, 256, 256, 512]);
            let n = (w / 8) as usize;
            let sc = il::scalar(format!("v{}", w), w);
            names.insert(sc.name().to_string(), w);
            let span = SCRATCH_LEN as usize + 16 - n; // the image is mapped up to SCRATCH + 88
            let mut seq = vec![il::Operation::Load { dst: sc.clone(), index: konst(SCRATCH + t.below(span + 1) as u64, addr_bits) }];
            if t.chance(1, 2) {
                let a = SCRATCH + t.below(span + 1) as u64;
                seq.push(il::Operation::Store { index: konst(a, addr_bits), src: il::Expression::Scalar(sc.clone()) });
                let d = 1 + t.below(n - 1) as u64;
                let a2 = if a + d <= SCRATCH + span as u64 { a + d } else { a - d.min(a - SCRATCH + 8) };
                seq.push(il::Operation::Load { dst: sc.clone(), index: konst(a2, addr_bits) });
            }
            let b = t.below(spec.blocks.len().min(2));
            let pos = t.below(spec.blocks[b].len() + 1);
            for (k, op) in seq.into_iter().enumerate() {
                count += 1;
                spec.blocks[b].insert(pos + k, OpSpec { op, address: Some(base + 4 * count) });
            }
        }
        // several IL instructions per machine address, as lifters produce
        for ops in spec.blocks.iter_mut() {
            for k in 1..ops.len() {
                if t.chance(1, 5) {
                    ops[k].address = ops[k - 1].address;
                }
            }
        }
        // the function's own address need not be its lowest one (a loop head or cold block laid out
        // before the entry): some instructions then lie below the function address
        if klass >= 3 && count > 1 && t.chance(1, 4) {
            spec.address = base + 4 * t.below(count as usize) as u64;
        }
        fns.push(spec);
    }
    // resolve the placeholder branch targets now that every address is known
    let lists: Vec<Vec<u64>> = fns.iter().map(addressable).collect();
    let all: Vec<u64> = lists.iter().flatten().copied().collect();
    let pick_addr = |t: &mut Tape, list: &[u64]| -> u64 {
        if list.is_empty() {
            NOWHERE
        } else {
            *t.pick(list)
        }
    };
    let mut uses_bt = false;
    for fi in 0..nf {
        let others: Vec<u64> = lists.iter().enumerate().filter(|(i, _)| *i != fi).flat_map(|(_, l)| l.iter().copied()).collect();
        for ops in fns[fi].blocks.iter_mut() {
            for o in ops.iter_mut() {
                let is_placeholder = match &o.op {
                    il::Operation::Branch { target: il::Expression::Constant(c) } => c.value_u64() == Some(PLACEHOLDER),
                    _ => false,
                };
                if !is_placeholder {
                    continue;
                }
                let w: [u32; 5] = if klass == 4 { [20, 15, 50, 10, 5] } else { [40, 40, 0, 12, 8] };
                let target = match t.weighted(&w) {
                    0 => konst(pick_addr(t, &lists[fi]), addr_bits),
                    1 => konst(pick_addr(t, if others.is_empty() { &lists[fi] } else { &others }), addr_bits),
                    2 => konst(BLOB_ADDR, addr_bits),
                    3 => {
                        uses_bt = true;
                        il::Expression::Scalar(il::scalar("bt", addr_bits))
                    }
                    _ => konst(if t.chance(1, 2) { SCRATCH + 8 } else { NOWHERE }, addr_bits),
                };
                o.op = il::Operation::Branch { target };
            }
        }
    }
    // initial state
    let pool = Pool { scalars: names.iter().map(|(n, w)| (n.clone(), *w)).collect() };
    let missing = [0u32, 60, 250][t.weighted(&[50, 30, 20])];
    let mut state = gen_state(t, &pool, &p, big_endian, missing);
    if uses_bt || klass >= 3 {
        names.insert("bt".into(), addr_bits);
        if !(missing > 0 && (t.raw() % 1000) < missing) {
            let a = if klass == 4 && t.chance(1, 3) { BLOB_ADDR } else { pick_addr(t, &all) };
            state.scalars.insert("bt".into(), Bv::from_u64(a, addr_bits));
        }
    }
    let mut blob = None;
    if klass == 4 {
        let bi = t.below(BLOBS.len());
        let (what, bytes) = BLOBS[bi];
        // self-modifying arm: one byte of the code is overwritten by a Store right before a Branch
        // to it; the function lifted on demand must be the one the CURRENT bytes spell
        if t.chance(1, 3) {
            let curated: &[(usize, u8)] = match bi {
                1 => &[(0, 0x29), (1, 0xc9)],
                2 => &[(3, 0x07), (3, 0xff)],
                3 => &[(4, 0x29), (2, 0xf0)],
                4 => &[(4, 0x00), (7, 0xc8)],
                5 => &[(4, 0xf0)],
                6 => &[(1, 0xe7)],
                _ => &[],
            };
            let (off, val) = if !curated.is_empty() && t.chance(2, 3) { curated[t.below(curated.len())] } else { (t.below(bytes.len()), t.raw() as u8) };
            let st = il::Operation::Store { index: konst(BLOB_ADDR + off as u64, addr_bits), src: konst(val as u64, 8) };
            'outer: for f in fns.iter_mut() {
                for ops in f.blocks.iter_mut() {
                    let pos = ops.iter().position(|o| matches!(&o.op, il::Operation::Branch { target: il::Expression::Constant(c) } if c.value_u64() == Some(BLOB_ADDR)));
                    if let Some(pos) = pos {
                        let address = ops[pos].address.map(|a| a.wrapping_sub(2));
                        ops.insert(pos, OpSpec { op: st, address });
                        break 'outer;
                    }
                }
            }
        }
        for (i, b) in bytes.iter().enumerate() {
            state.mem.bytes.insert(BLOB_ADDR + i as u64, *b);
        }
        blob = Some(Blob { addr: BLOB_ADDR, what: what.to_string(), bytes: bytes.to_vec() });
        for r in ["rax", "rdi", "rsi", "rsp"] {
            names.insert(r.into(), 64);
            if missing > 0 && (t.raw() % 1000) < missing {
                continue;
            }
            let v = match r {
                "rsp" => SCRATCH + 16 + 8 * t.below(4) as u64,
                "rax" if t.chance(1, 2) => pick_addr(t, &all),
                _ => t.biased(64) as u64,
            };
            state.scalars.insert(r.into(), Bv::from_u64(v, 64));
        }
        // a return address for `ret`
        if let Some(rsp) = state.scalars.get("rsp").and_then(|v| v.to_u64()) {
            if t.chance(3, 4) {
                let ra = pick_addr(t, &all);
                let _ = state.mem.store(rsp, &Bv::from_u64(ra, 64));
            }
        }
    }
    // a hole in the mapped window
    if t.chance(1, 6) {
        let a = SCRATCH - 8 + t.below(100) as u64;
        let len = 1 + t.below(12) as u64;
        for x in a..a + len {
            state.mem.bytes.remove(&x);
        }
    }
    names.insert("zz".into(), 32); // never defined, never written
    let start_fn = t.below(nf);
    let max_steps = 6 + t.below(59);
    Case {
        klass: KLASSES[klass].to_string(),
        fns,
        start_fn,
        state,
        blob,
        names: names.into_iter().collect(),
        max_steps,
        backed: t.chance(1, 3),
    }
}

// ------------------------------------------------------------------------------------------
// reference: program-level wrapper around fv::refil::Machine

struct RefProg {
    views: Vec<FnView>,
    cur: usize,
    loc: Loc,
    state: RefState,
    events: u64,
}

enum Out {
    /// operation applied and successor chosen
    Moved(Effect),
    /// the operation itself faulted; state unchanged
    OpFault(Fault),
    /// operation applied, but choosing the successor failed (no / two enabled edges, guard fault)
    SuccFault(Effect, Fault),
    /// a Branch evaluated to this address; location not yet updated
    Branch(u64),
}

impl RefProg {
    fn step(&mut self) -> Out {
        let state = std::mem::replace(&mut self.state, RefState { scalars: BTreeMap::new(), mem: RefMem::new(false) });
        let mut m = Machine {
            view: &self.views[self.cur],
            loc: self.loc,
            state,
            intrinsics: IntrinsicMode::Fault,
            events: self.events,
            havoc_seed: 0,
            last_effect: None,
        };
        let r = m.step();
        let Machine { loc, state, events, last_effect, .. } = m;
        self.state = state;
        self.events = events;
        match r {
            Ok(Effect::Branch { target }) => Out::Branch(target),
            Ok(e) => {
                self.loc = loc;
                Out::Moved(e)
            }
            Err(f) => match last_effect {
                Some(e) => Out::SuccFault(e, f),
                None => Out::OpFault(f),
            },
        }
    }
}

/// "indirect branch to the evaluated address": every instruction carrying that address, in
/// (function, block, position) order.
fn lookup(views: &[FnView], addr: u64) -> Vec<(usize, usize, usize, usize)> {
    let mut v = Vec::new();
    for (fi, view) in views.iter().enumerate() {
        for (b, is) in &view.blocks {
            for (pos, i) in is.iter().enumerate() {
                if i.address == Some(addr) {
                    v.push((fi, *b, pos, i.index));
                }
            }
        }
    }
    v
}

/// The candidates are one run of consecutive instructions of one block.
fn unambiguous(c: &[(usize, usize, usize, usize)]) -> bool {
    c.windows(2).all(|w| w[0].0 == w[1].0 && w[0].1 == w[1].1 && w[0].2 + 1 == w[1].2)
}

/// Every fault kind that some evaluation order of `e` can report in this valuation.
fn expr_faults(e: &il::Expression, s: &refil::Scalars, out: &mut BTreeSet<&'static str>) {
    use il::Expression as E;
    match e {
        E::Scalar(sc) => {
            if !s.contains_key(sc.name()) {
                out.insert("undefined-scalar");
            }
        }
        E::Constant(_) => {}
        E::Divu(l, r) | E::Modu(l, r) | E::Divs(l, r) | E::Mods(l, r) => {
            expr_faults(l, s, out);
            expr_faults(r, s, out);
            if let Ok(v) = refil::eval(r, s) {
                if v.is_zero() {
                    out.insert("div-zero");
                }
            }
        }
        E::Add(l, r) | E::Sub(l, r) | E::Mul(l, r) | E::And(l, r) | E::Or(l, r) | E::Xor(l, r) | E::Shl(l, r)
        | E::Shr(l, r) | E::AShr(l, r) | E::Cmpeq(l, r) | E::Cmpneq(l, r) | E::Cmplts(l, r) | E::Cmpltu(l, r) => {
            expr_faults(l, s, out);
            expr_faults(r, s, out);
        }
        E::Zext(_, x) | E::Sext(_, x) | E::Trun(_, x) => expr_faults(x, s, out),
        E::Ite(c, a, b) => {
            expr_faults(c, s, out);
            if let Ok(v) = refil::eval(c, s) {
                expr_faults(if v.is_one() { a } else { b }, s, out);
            }
        }
    }
}

struct EdgeAnalysis {
    n_out: usize,
    guarded: usize,
    enabled: Vec<(usize, usize)>,
    faults: BTreeSet<&'static str>,
}

fn analyse_edges(view: &FnView, block: usize, s: &refil::Scalars) -> EdgeAnalysis {
    let mut ea = EdgeAnalysis { n_out: 0, guarded: 0, enabled: Vec::new(), faults: BTreeSet::new() };
    for e in view.out_edges(block) {
        ea.n_out += 1;
        match &e.cond {
            None => ea.enabled.push((e.head, e.tail)),
            Some(c) => {
                ea.guarded += 1;
                match refil::eval(c, s) {
                    Ok(v) => {
                        if v.is_one() {
                            ea.enabled.push((e.head, e.tail));
                        }
                    }
                    Err(f) => {
                        ea.faults.insert(f.kind());
                        expr_faults(c, s, &mut ea.faults);
                    }
                }
            }
        }
    }
    ea
}

/// What the reference is about to execute (computed before the step).
struct Pre {
    /// assign / store / load / branch / intrinsic / nop / edge / empty-block
    kind: &'static str,
    block: Option<usize>,
    /// the step ends a block (successor chosen among the out-edges)
    ends_block: bool,
    n_out: usize,
    /// address and byte length of the memory access, when the index evaluates
    access: Option<(u64, u64)>,
    /// fault kinds the operation itself may report
    possible: BTreeSet<&'static str>,
    /// name of the scalar the operation writes
    writes: Option<String>,
}

fn describe(rp: &RefProg) -> Pre {
    let view = &rp.views[rp.cur];
    let s = &rp.state.scalars;
    let mut pre = Pre { kind: "edge", block: None, ends_block: false, n_out: 0, access: None, possible: BTreeSet::new(), writes: None };
    match rp.loc {
        Loc::Edge(..) => {}
        Loc::Empty(b) => {
            pre.kind = "empty-block";
            pre.block = Some(b);
            pre.ends_block = true;
            pre.n_out = view.out_edges(b).len();
        }
        Loc::Instr(b, i) => {
            pre.block = Some(b);
            let is = &view.blocks[&b];
            let pos = is.iter().position(|x| x.index == i).unwrap();
            pre.ends_block = pos + 1 == is.len();
            pre.n_out = view.out_edges(b).len();
            let addr_of = |e: &il::Expression| refil::eval(e, s).ok().and_then(|v| v.to_u64());
            match &is[pos].op {
                il::Operation::Assign { dst, src } => {
                    pre.kind = "assign";
                    pre.writes = Some(dst.name().to_string());
                    expr_faults(src, s, &mut pre.possible);
                }
                il::Operation::Store { index, src } => {
                    pre.kind = "store";
                    expr_faults(src, s, &mut pre.possible);
                    expr_faults(index, s, &mut pre.possible);
                    if let (Some(a), Ok(w)) = (addr_of(index), refil::sort_of(src)) {
                        pre.access = Some((a, (w / 8) as u64));
                    }
                }
                il::Operation::Load { dst, index } => {
                    pre.kind = "load";
                    pre.writes = Some(dst.name().to_string());
                    expr_faults(index, s, &mut pre.possible);
                    if let Some(a) = addr_of(index) {
                        let n = (dst.bits() / 8) as u64;
                        pre.access = Some((a, n));
                        if (0..n).any(|k| a.checked_add(k).map(|x| !rp.state.mem.bytes.contains_key(&x)).unwrap_or(true)) {
                            pre.possible.insert("unmapped");
                        }
                    }
                }
                il::Operation::Branch { target } => {
                    pre.kind = "branch";
                    pre.ends_block = false;
                    expr_faults(target, s, &mut pre.possible);
                }
                il::Operation::Intrinsic { .. } => {
                    pre.kind = "intrinsic";
                    pre.possible.insert("intrinsic");
                }
                il::Operation::Nop { .. } => pre.kind = "nop",
            }
        }
    }
    pre
}

// ------------------------------------------------------------------------------------------
// falcon side

fn build_program(case: &Case) -> Result<il::Program, String> {
    let mut program = il::Program::new();
    for f in &case.fns {
        program.add_function(f.build()?);
    }
    Ok(program)
}

fn build_state(case: &Case) -> Result<State, String> {
    let endian = if case.state.mem.big_endian { Endian::Big } else { Endian::Little };
    let mut lo_hi = None;
    let mut bk = backing::Memory::new(endian.clone());
    let mut any_backing = false;
    if let Some(b) = &case.blob {
        // the way a loaded binary reaches the executor: a permissioned backing
        bk.set_memory(b.addr, b.bytes.clone(), MemoryPermissions::READ | MemoryPermissions::EXECUTE);
        lo_hi = Some((b.addr, b.addr + b.bytes.len() as u64));
        any_backing = true;
    }
    let outside_blob = |a: u64| lo_hi.map(|(lo, hi)| a < lo || a >= hi).unwrap_or(true);
    if case.backed {
        // every maximal run of mapped bytes becomes one backing section
        let mut run: Option<(u64, Vec<u8>)> = None;
        for (a, b) in case.state.mem.bytes.iter().filter(|(a, _)| outside_blob(**a)) {
            match &mut run {
                Some((start, bytes)) if *start + bytes.len() as u64 == *a => bytes.push(*b),
                _ => {
                    if let Some((start, bytes)) = run.take() {
                        bk.set_memory(start, bytes, MemoryPermissions::READ | MemoryPermissions::WRITE);
                    }
                    run = Some((*a, vec![*b]));
                }
            }
        }
        if let Some((start, bytes)) = run.take() {
            bk.set_memory(start, bytes, MemoryPermissions::READ | MemoryPermissions::WRITE);
        }
        any_backing = true;
    }
    let mut mem = if any_backing { ExMemory::new_with_backing(endian, RC::new(bk)) } else { ExMemory::new(endian) };
    if !case.backed {
        for (a, b) in case.state.mem.bytes.iter().filter(|(a, _)| outside_blob(**a)) {
            mem.store(*a, il::const_(*b as u64, 8)).map_err(|e| e.to_string())?;
        }
    }
    let mut st = State::new(mem);
    for (k, v) in &case.state.scalars {
        st.set_scalar(k.clone(), v.to_constant());
    }
    Ok(st)
}

fn floc(l: Loc) -> il::FunctionLocation {
    match l {
        Loc::Instr(b, i) => il::FunctionLocation::Instruction(b, i),
        Loc::Edge(h, t) => il::FunctionLocation::Edge(h, t),
        Loc::Empty(b) => il::FunctionLocation::EmptyBlock(b),
    }
}

fn ploc(f: usize, l: Loc) -> il::ProgramLocation {
    il::ProgramLocation::new(Some(f), floc(l))
}

fn err_kind(e: &Error) -> &'static str {
    match e {
        Error::ExecutorScalar(_) => "undefined-scalar",
        Error::ExecutorInvalidAddress => "unmapped",
        Error::AccessUnmappedMemory(_) => "unmapped",
        Error::DivideByZero => "div-zero",
        Error::UnhandledIntrinsic(_) => "intrinsic",
        Error::ExecutorNoValidLocation => "no-edge",
        Error::ExecutorNoEdgeCondition => "no-edge-condition",
        Error::ExecutorLiftFail(..) => "lift-fail",
        Error::Sort => "sort",
        Error::TooManyAddressBits => "address-too-wide",
        Error::Arithmetic(_) => "arithmetic",
        Error::Custom(_) => "custom",
        Error::Chain(a, _) => err_kind(a),
        Error::ProgramLocationApplication | Error::FunctionLocationApplication => "location-application",
        _ => "other",
    }
}

fn fal_byte(st: &State, a: u64) -> Result<Option<u8>, String> {
    match st.memory().load(a, 8) {
        Ok(Some(c)) => {
            if c.bits() != 8 {
                return Err(format!("load(0x{:x}, 8) returned a {}-bit value", a, c.bits()));
            }
            match c.value_u64() {
                Some(v) if v < 256 => Ok(Some(v as u8)),
                _ => Err(format!("load(0x{:x}, 8) returned {}", a, c)),
            }
        }
        Ok(None) => Ok(None),
        Err(e) => Err(format!("load(0x{:x}, 8) failed: {}", a, e)),
    }
}

/// Compare the bytes of `lo..=hi` (clamped); `Err((addr, falcon, reference))`.
fn cmp_range(st: &State, m: &RefMem, lo: u64, hi: u64) -> Result<(), (u64, String, Option<u8>)> {
    let mut a = lo;
    loop {
        let want = m.bytes.get(&a).copied();
        match fal_byte(st, a) {
            Ok(got) if got == want => {}
            Ok(got) => return Err((a, format!("{:02x?}", got), want)),
            Err(e) => return Err((a, e, want)),
        }
        if a == hi {
            return Ok(());
        }
        a += 1;
    }
}

fn scalar_mismatch(st: &State, rs: &RefState, names: &[(String, usize)]) -> Option<(String, String, String)> {
    for (n, _) in names {
        let got = st.get_scalar(n).map(Bv::from_constant);
        let want = rs.scalars.get(n);
        if got.as_ref() != want {
            return Some((n.clone(), format!("{:?}", got), format!("{:?}", want)));
        }
    }
    None
}

fn digest(st: &State, loc: &il::ProgramLocation, names: &[(String, usize)]) -> u64 {
    let vals: Vec<Option<String>> = names.iter().map(|(n, _)| st.get_scalar(n).map(|c| format!("{}", c))).collect();
    engine::fingerprint(&(format!("{}", loc), vals))
}

// ------------------------------------------------------------------------------------------
// the check

struct Ctx {
    names: Vec<(String, usize)>,
}

fn collect_names(view: &FnView, names: &mut Vec<(String, usize)>) {
    let mut seen: BTreeSet<String> = names.iter().map(|n| n.0.clone()).collect();
    let mut add = |s: &il::Scalar| {
        if seen.insert(s.name().to_string()) {
            names.push((s.name().to_string(), s.bits()));
        }
    };
    for is in view.blocks.values() {
        for i in is {
            if let Some(v) = i.op.scalars_read() {
                v.into_iter().for_each(&mut add);
            }
            if let Some(v) = i.op.scalars_written() {
                v.into_iter().for_each(&mut add);
            }
        }
    }
    for e in &view.edges {
        if let Some(c) = &e.cond {
            c.scalars().into_iter().for_each(&mut add);
        }
    }
}

/// After a step both sides survived: location, every scalar, bytes around the access.
fn compare_step(ctx: &Ctx, d: &Driver, rp: &RefProg, pre: &Pre, eff: &Effect, step: usize) -> Result<(), Failure> {
    let want = ploc(rp.cur, rp.loc);
    if d.location() != &want {
        let sig = if pre.kind == "branch" {
            "C07|branch|wrong-location".to_string()
        } else if pre.ends_block && pre.n_out >= 2 {
            "C07|successor|wrong-edge".to_string()
        } else {
            format!("C07|step|{}|wrong-location", pre.kind)
        };
        fv::fail!(sig, "step {} ({}): driver is at {}, reference at {}", step, pre.kind, d.location(), want);
    }
    if let Some((n, got, want)) = scalar_mismatch(d.state(), &rp.state, &ctx.names) {
        let sig = if pre.writes.as_deref() == Some(n.as_str()) {
            format!("C07|step|{}|wrong-value", pre.kind)
        } else {
            format!("C07|step|{}|frame-scalar", pre.kind)
        };
        fv::fail!(sig, "step {} ({}): scalar {} is {} in the driver, {} in the reference", step, pre.kind, n, got, want);
    }
    let access = match eff {
        Effect::Store { addr, value } => Some((*addr, (value.w / 8) as u64)),
        Effect::Load { addr, value, .. } => Some((*addr, (value.w / 8) as u64)),
        _ => None,
    };
    if let Some((a, n)) = access {
        let lo = a.saturating_sub(17);
        let hi = a.saturating_add(n + 16);
        let r = guard(|| cmp_range(d.state(), &rp.state.mem, lo, hi));
        match r {
            Ok(Ok(())) => {}
            Ok(Err((x, got, want))) => {
                let inside = x >= a && x - a < n;
                let sig = if inside { format!("C07|step|{}|wrong-bytes", pre.kind) } else { format!("C07|step|{}|frame-memory", pre.kind) };
                fv::fail!(sig, "step {} ({} of {} bytes at 0x{:x}): byte 0x{:x} is {} in the driver, {:02x?} in the reference", step, pre.kind, n, a, x, got, want);
            }
            Err(pi) => fv::fail!(format!("C07|memory-read|{}", pi.sig()), "step {}: reading memory back panicked: {} ({}:{})", step, pi.msg, pi.file, pi.line),
        }
        // after a store: wider reads overlapping the written range must assemble the same bytes
        if matches!(eff, Effect::Store { .. }) {
            let st = d.state();
            let m = &rp.state.mem;
            let r = guard(|| -> Result<(), String> {
                for bits in [16usize, 32, 64] {
                    let k = (bits / 8) as u64;
                    let mut x = a.saturating_sub(k - 1);
                    while x < a.saturating_add(n) {
                        if x.checked_add(k).is_some() {
                            let want = m.load(x, bits).ok();
                            let got = st.memory().load(x, bits).map_err(|e| format!("load(0x{:x}, {}) failed: {}", x, bits, e))?;
                            let got = got.as_ref().map(Bv::from_constant);
                            if got != want {
                                return Err(format!("load(0x{:x}, {}) is {:?} in the driver's memory, {:?} in the reference", x, bits, got, want));
                            }
                        }
                        x += 1;
                    }
                }
                Ok(())
            });
            match r {
                Ok(Ok(())) => {}
                Ok(Err(msg)) => fv::fail!("C07|step|store|wide-readback", "step {} (store of {} bytes at 0x{:x}): {}", step, n, a, msg),
                Err(pi) => fv::fail!(format!("C07|memory-read|{}", pi.sig()), "step {}: reading memory back panicked: {} ({}:{})", step, pi.msg, pi.file, pi.line),
            }
        }
    }
    Ok(())
}

/// Every byte either side knows about.
fn final_sweep(d: &Driver, rp: &RefProg, step: usize) -> Result<(), Failure> {
    let st = d.state();
    let m = &rp.state.mem;
    let r = guard(|| -> Result<(), (u64, String, Option<u8>)> {
        for a in m.bytes.keys() {
            cmp_range(st, m, *a, *a)?;
            for n in [a.wrapping_sub(1), a.wrapping_add(1)] {
                if !m.bytes.contains_key(&n) {
                    cmp_range(st, m, n, n)?;
                }
            }
        }
        // everything falcon holds a cell for must be mapped in the reference
        let mut pages: Vec<u64> = st.memory().pages().keys().copied().collect();
        pages.sort();
        for pa in pages {
            let page = &st.memory().pages()[&pa];
            for (off, c) in page.cells().iter().enumerate() {
                if c.is_some() && !m.bytes.contains_key(&(pa + off as u64)) {
                    return Err((pa + off as u64, "a memory cell".to_string(), None));
                }
            }
        }
        Ok(())
    });
    match r {
        Ok(Ok(())) => Ok(()),
        Ok(Err((x, got, want))) => fv::fail!("C07|final|memory", "after {} steps: byte 0x{:x} is {} in the driver, {:02x?} in the reference", step, x, got, want),
        Err(pi) => fv::fail!(format!("C07|memory-read|{}", pi.sig()), "final sweep panicked: {} ({}:{})", pi.msg, pi.file, pi.line),
    }
}

#[derive(Default)]
struct Stats {
    steps: usize,
    ops: BTreeSet<&'static str>,
    widths: BTreeSet<u64>,
    wide_access: bool,
    multiway: bool,
    end: String,
}

fn check(case: &Case, obs: &mut Obs) -> Result<(), Failure> {
    obs.class(&format!("klass-{}", case.klass));
    if case.backed {
        obs.class("initial-memory-in-backing");
    }
    if case.state.mem.big_endian {
        obs.class("big-endian");
    }
    if case.names.iter().any(|(n, _)| n != "zz" && !case.state.scalars.contains_key(n)) {
        obs.class("initial-missing-scalar");
    }
    let program = match build_program(case) {
        Ok(p) => p,
        Err(e) => fv::fail!("C07|harness|build-program", "falcon rejected a generated function: {}", e),
    };
    let (trace, stats) = lockstep(case, program.clone(), obs)?;
    // determinism: a second run from an equal state gives the same trace
    let second = falcon_only(case, program, trace.len())?;
    if second != trace {
        let k = trace.iter().zip(second.iter()).position(|(a, b)| a != b).unwrap_or(trace.len().min(second.len()));
        fv::fail!("C07|determinism", "two runs from equal states differ at step {} ({} vs {} trace entries)", k, trace.len(), second.len());
    }
    if stats.steps >= 3 && (stats.wide_access || stats.multiway) {
        obs.nontrivial(&(stats.ops.clone(), stats.widths.clone(), case.state.mem.big_endian, stats.end.clone(), case.klass.clone()));
        obs.class("nontrivial");
    }
    if obs.want_sample() {
        obs.sample(render(case));
    }
    Ok(())
}

/// Falcon alone: the digest after every successful step, then the final error text.
fn falcon_only(case: &Case, program: il::Program, entries: usize) -> Result<Vec<u64>, Failure> {
    let view0 = FnView::of(program.function(case.start_fn).unwrap());
    let start = match view0.entry_loc() {
        Ok(l) => l,
        Err(_) => return Ok(Vec::new()),
    };
    let state = build_state(case).map_err(|e| Failure::new("C07|harness|build-state", e))?;
    let arch: RC<dyn Architecture> = RC::new(Amd64::new());
    let mut driver = Driver::new(RC::new(program), ploc(case.start_fn, start), state, arch);
    let mut out = Vec::new();
    let mut names = case.names.clone();
    while out.len() < entries {
        let before_fns = driver.program().functions().len();
        match guard(move || driver.step()) {
            Ok(Ok(d)) => {
                if d.program().functions().len() > before_fns {
                    if let Some(f) = d.program().function(before_fns) {
                        collect_names(&FnView::of(f), &mut names);
                    }
                }
                out.push(digest(d.state(), d.location(), &names));
                driver = d;
            }
            Ok(Err(e)) => {
                out.push(engine::fingerprint(&format!("error {}", e)));
                break;
            }
            Err(pi) => {
                out.push(engine::fingerprint(&format!("panic {}", pi.msg)));
                break;
            }
        }
    }
    Ok(out)
}

fn lockstep(case: &Case, program: il::Program, obs: &mut Obs) -> Result<(Vec<u64>, Stats), Failure> {
    let mut stats = Stats::default();
    let mut trace: Vec<u64> = Vec::new();
    let views: Vec<FnView> = program.functions().iter().map(|f| FnView::of(f)).collect();
    let start = match views[case.start_fn].entry_loc() {
        Ok(l) => l,
        Err(_) => {
            obs.exclude("no-entry");
            return Ok((trace, stats));
        }
    };
    let mut rp = RefProg { views, cur: case.start_fn, loc: start, state: case.state.clone(), events: 0 };
    let mut ctx = Ctx { names: case.names.clone() };
    let state = build_state(case).map_err(|e| Failure::new("C07|harness|build-state", e))?;
    let arch: RC<dyn Architecture> = RC::new(Amd64::new());
    let mut driver = Driver::new(RC::new(program), ploc(case.start_fn, start), state, arch);
    let mut lifted: Option<usize> = None;
    let mut blob_page_written = false;
    stats.end = "max-steps".into();

    for step in 0..case.max_steps {
        let pre = describe(&rp);
        // accesses that wrap around the top of the address space have no agreed meaning
        if let Some((a, n)) = pre.access {
            if n > 0 && a.checked_add(n - 1).is_none() {
                obs.exclude("access-wraps-address-space");
                stats.end = "excluded".into();
                break;
            }
        }
        let before = driver.clone();
        let out = rp.step();
        let pre_loc = before.location().clone();
        let res = match guard(move || driver.step()) {
            Ok(r) => r,
            Err(pi) => {
                let refsays = match &out {
                    Out::Moved(_) => "defined".to_string(),
                    Out::OpFault(f) | Out::SuccFault(_, f) => f.kind().to_string(),
                    Out::Branch(_) => "branch".to_string(),
                };
                let top = matches!(pre.access, Some((a, n)) if n > 0 && a.checked_add(n).is_none());
                let sig = if top {
                    format!("C07|step|{}|panic|access-ends-at-top-of-address-space", pre.kind)
                } else {
                    format!("C07|step|{}|{}", pre.kind, pi.sig())
                };
                fv::fail!(
                    sig,
                    "step {} at {} ({}; reference: {}): Driver::step panicked: {} ({}:{})",
                    step, pre_loc, pre.kind, refsays, pi.msg, pi.file, pi.line
                );
            }
        };
        stats.steps += 1;
        stats.ops.insert(pre.kind);
        if let Some((_, n)) = pre.access {
            stats.widths.insert(n * 8);
        }
        if lifted.is_some() && lifted == Some(rp.cur) {
            obs.class("step-inside-lifted-function");
        }
        match out {
            Out::Moved(eff) => {
                let d = match res {
                    Ok(d) => d,
                    Err(e) => fv::fail!(
                        format!("C07|step|{}|spurious-error|{}", pre.kind, err_kind(&e)),
                        "step {} at {} ({}): the reference steps to {:?}, Driver::step returned Err: {}",
                        step, pre_loc, pre.kind, rp.loc, e
                    ),
                };
                compare_step(&ctx, &d, &rp, &pre, &eff, step)?;
                note_effect(&eff, &pre, case, obs, &mut stats, &mut blob_page_written);
                trace.push(digest(d.state(), d.location(), &ctx.names));
                driver = d;
            }
            Out::OpFault(f) => {
                let k = f.kind();
                if !matches!(k, "undefined-scalar" | "unmapped" | "div-zero" | "intrinsic") {
                    // the generated program left the IL's domain (sort error, bad width ...): not ours
                    obs.exclude(&format!("reference-out-of-domain:{}", k));
                    stats.end = "excluded".into();
                    driver = before;
                    break;
                }
                match res {
                    Ok(d) => fv::fail!(
                        format!("C07|step|{}|no-error|{}", pre.kind, k),
                        "step {} at {} ({}): the reference faults with {:?}; Driver::step succeeded and is at {}",
                        step, pre_loc, pre.kind, f, d.location()
                    ),
                    Err(e) => {
                        let fk = err_kind(&e);
                        if !pre.possible.contains(fk) {
                            fv::fail!(
                                format!("C07|step|{}|error-kind|{}-reported-as-{}", pre.kind, k, fk),
                                "step {} at {} ({}): the reference faults with {:?} (possible kinds {:?}); Driver::step returned: {}",
                                step, pre_loc, pre.kind, f, pre.possible, e
                            );
                        }
                        trace.push(engine::fingerprint(&format!("error {}", e)));
                    }
                }
                obs.class(&format!("fault-{}", k));
                stats.end = k.to_string();
                final_sweep(&before, &rp, step)?;
                return Ok((trace, stats));
            }
            Out::SuccFault(eff, f) => {
                let arm = if pre.kind == "empty-block" { "empty-block" } else { "instruction" };
                let block = pre.block.unwrap();
                let ea = analyse_edges(&rp.views[rp.cur], block, &rp.state.scalars);
                note_effect(&eff, &pre, case, obs, &mut stats, &mut blob_page_written);
                if ea.n_out == 0 {
                    obs.class("block-end-without-successor");
                } else if ea.n_out == 1 && ea.guarded == 1 {
                    obs.class(if ea.faults.is_empty() { "lone-guarded-edge-guard-0" } else { "lone-guarded-edge-guard-faults" });
                    if arm == "empty-block" {
                        obs.class("lone-guarded-edge-after-empty-block");
                    }
                }
                match ea.enabled.len() {
                    0 => {
                        let want: BTreeSet<&'static str> = if ea.faults.is_empty() { ["no-edge"].into_iter().collect() } else { ea.faults.clone() };
                        match res {
                            Ok(d) => {
                                let sig = if ea.n_out == 1 {
                                    format!("C07|step|{}|lone-guarded-edge-not-evaluated", arm)
                                } else if ea.faults.is_empty() {
                                    format!("C07|step|{}|moved-though-no-guard-holds", arm)
                                } else {
                                    format!("C07|step|{}|no-error|guard-{}", arm, f.kind())
                                };
                                fv::fail!(
                                    sig,
                                    "step {} at {} ({}): no out-edge of block {} is enabled (reference: {:?}; {} out-edges, guard faults {:?}); Driver::step moved to {}",
                                    step, pre_loc, pre.kind, block, f, ea.n_out, ea.faults, d.location()
                                );
                            }
                            Err(e) => {
                                let fk = err_kind(&e);
                                if !want.contains(fk) {
                                    fv::fail!(
                                        format!("C07|step|{}|error-kind|{}-reported-as-{}", arm, f.kind(), fk),
                                        "step {} at {} ({}): no out-edge of block {} is enabled (reference: {:?}, acceptable kinds {:?}); Driver::step returned: {}",
                                        step, pre_loc, pre.kind, block, f, want, e
                                    );
                                }
                                trace.push(engine::fingerprint(&format!("error {}", e)));
                            }
                        }
                        let k = if ea.faults.is_empty() { "no-edge" } else { f.kind() };
                        obs.class(&format!("fault-{}", k));
                        if !ea.faults.is_empty() {
                            obs.class("fault-in-guard");
                        }
                        stats.end = k.to_string();
                        // Err consumed the driver: the state after the operation cannot be observed
                        if !matches!(eff, Effect::Store { .. }) {
                            final_sweep(&before, &rp, step)?;
                        }
                        return Ok((trace, stats));
                    }
                    1 => {
                        // one guard holds, another one cannot be evaluated (broken-guards class):
                        // moving along the enabled edge and reporting the fault are both defensible
                        obs.class("one-enabled-one-faulting-guard");
                        match res {
                            Ok(d) => {
                                rp.loc = Loc::Edge(ea.enabled[0].0, ea.enabled[0].1);
                                compare_step(&ctx, &d, &rp, &pre, &eff, step)?;
                                trace.push(digest(d.state(), d.location(), &ctx.names));
                                driver = d;
                            }
                            Err(e) => {
                                let fk = err_kind(&e);
                                if !ea.faults.contains(fk) {
                                    fv::fail!(
                                        format!("C07|step|{}|error-kind|{}-reported-as-{}", arm, f.kind(), fk),
                                        "step {} at {}: guard faults {:?}; Driver::step returned: {}", step, pre_loc, ea.faults, e
                                    );
                                }
                                trace.push(engine::fingerprint(&format!("error {}", e)));
                                stats.end = f.kind().to_string();
                                if !matches!(eff, Effect::Store { .. }) {
                                    final_sweep(&before, &rp, step)?;
                                }
                                return Ok((trace, stats));
                            }
                        }
                    }
                    _ => {
                        // guards not mutually exclusive: the property does not say which edge
                        obs.class("two-enabled-guards");
                        obs.exclude("two-enabled-guards:successor-unspecified");
                        if let Ok(d) = res {
                            let ok = ea.enabled.iter().any(|(h, t)| d.location() == &ploc(rp.cur, Loc::Edge(*h, *t)));
                            if !ok {
                                fv::fail!("C07|successor|disabled-edge", "step {} at {}: Driver::step moved to {}, which is not one of the enabled edges {:?}", step, pre_loc, d.location(), ea.enabled);
                            }
                            if let Some((n, got, want)) = scalar_mismatch(d.state(), &rp.state, &ctx.names) {
                                fv::fail!(format!("C07|step|{}|wrong-value", pre.kind), "step {}: scalar {} is {} in the driver, {} in the reference", step, n, got, want);
                            }
                        }
                        stats.end = "excluded".into();
                        return Ok((trace, stats));
                    }
                }
            }
            Out::Branch(target) => {
                obs.class("branch-executed");
                let cands = lookup(&rp.views, target);
                if !cands.is_empty() {
                    if !unambiguous(&cands) {
                        obs.exclude("branch-target-address-ambiguous");
                        stats.end = "excluded".into();
                        driver = before;
                        break;
                    }
                    let (fi, b, _, idx) = cands[0];
                    obs.class(if Some(fi) == lifted {
                        "branch-into-lifted-function"
                    } else if lifted == Some(rp.cur) {
                        "branch-out-of-lifted-function"
                    } else if fi == rp.cur {
                        "branch-same-function"
                    } else {
                        "branch-other-function"
                    });
                    if cands.len() > 1 {
                        obs.class("branch-to-shared-address-run");
                    }
                    let d = match res {
                        Ok(d) => d,
                        Err(e) => fv::fail!(
                            format!("C07|branch|spurious-error|{}", err_kind(&e)),
                            "step {} at {}: branch to 0x{:x}, which is instruction {}:{} of function {}; Driver::step returned Err: {}",
                            step, pre_loc, target, b, idx, fi, e
                        ),
                    };
                    rp.cur = fi;
                    rp.loc = Loc::Instr(b, idx);
                    compare_step(&ctx, &d, &rp, &pre, &Effect::Branch { target }, step)?;
                    trace.push(digest(d.state(), d.location(), &ctx.names));
                    driver = d;
                    continue;
                }
                let in_blob = case.blob.as_ref().map(|bl| target >= bl.addr && target < bl.addr + bl.bytes.len() as u64).unwrap_or(false);
                if in_blob && target != BLOB_ADDR {
                    obs.exclude("branch-into-middle-of-blob");
                    stats.end = "excluded".into();
                    driver = before;
                    break;
                }
                if in_blob {
                    // on-demand lifting arm.  What must be lifted is what the CURRENT bytes of the
                    // reference memory spell (the lifter itself is taken as given): lift them here,
                    // independently of the executor's memory plumbing.
                    obs.class("branch-lifts-function");
                    if blob_page_written {
                        obs.class("branch-lifts-function-after-store-into-code-page");
                    }
                    let bl = case.blob.as_ref().unwrap();
                    let current: Vec<u8> = (0..bl.bytes.len() as u64).map(|i| rp.state.mem.bytes.get(&(bl.addr + i)).copied().unwrap_or(0)).collect();
                    let mut image = backing::Memory::new(Endian::Little);
                    image.set_memory(bl.addr, current.clone(), MemoryPermissions::READ | MemoryPermissions::EXECUTE);
                    let want_fn = guard(|| Amd64::new().translator().translate_function(&image, target));
                    let d = match (res, &want_fn) {
                        (Ok(d), Ok(Ok(_))) => d,
                        (Err(e), Ok(Ok(_))) => fv::fail!(
                            format!("C07|branch|lift|error|{}", err_kind(&e)),
                            "step {} at {}: branch to 0x{:x}, executable memory holding `{}` (current bytes {:02x?}); Driver::step returned Err: {}",
                            step, pre_loc, target, bl.what, current, e
                        ),
                        (Ok(_), _) => fv::fail!(
                            "C07|branch|lift|lifted-what-the-bytes-do-not-spell",
                            "step {} at {}: branch to 0x{:x}: the current bytes {:02x?} do not lift, but Driver::step lifted a function there (stale bytes?)",
                            step, pre_loc, target, current
                        ),
                        (Err(e), _) => {
                            // the current bytes are not liftable code: the branch cannot be performed
                            obs.class("branch-to-unliftable-bytes");
                            trace.push(engine::fingerprint(&format!("error {}", e)));
                            stats.end = "branch-nowhere".into();
                            final_sweep(&before, &rp, step)?;
                            return Ok((trace, stats));
                        }
                    };
                    if let Ok(Ok(want)) = &want_fn {
                        let got = d.program().function(rp.views.len()).map(|f| format!("{}", f.control_flow_graph()));
                        let want_text = format!("{}", want.control_flow_graph());
                        if got.as_deref() != Some(want_text.as_str()) {
                            fv::fail!(
                                "C07|branch|lift|function-differs-from-current-bytes",
                                "step {} at {}: branch to 0x{:x}; the bytes there are now {:02x?} (originally `{}`), which lift to\n{}\nbut the function the executor lifted is\n{}",
                                step, pre_loc, target, current, bl.what, want_text, got.unwrap_or_else(|| "(none)".into())
                            );
                        }
                    }
                    let n = rp.views.len();
                    let f = match d.program().function(n) {
                        Some(f) if d.program().functions().len() == n + 1 => f,
                        _ => fv::fail!("C07|branch|lift|program", "step {}: after lifting at 0x{:x} the program has {} functions, expected {} with the new one at index {}", step, target, d.program().functions().len(), n + 1, n),
                    };
                    if f.address() != target {
                        fv::fail!("C07|branch|lift|function-address", "step {}: lifted function has address 0x{:x}, branch target was 0x{:x}", step, f.address(), target);
                    }
                    rp.views.push(FnView::of(f));
                    collect_names(&rp.views[n], &mut ctx.names);
                    lifted = Some(n);
                    let c2: Vec<_> = lookup(&rp.views[n..], target);
                    if c2.is_empty() || !unambiguous(&c2) {
                        obs.exclude("lifted-function-entry-ambiguous");
                        stats.end = "excluded".into();
                        rp.views.pop();
                        driver = before;
                        break;
                    }
                    rp.cur = n;
                    rp.loc = Loc::Instr(c2[0].1, c2[0].3);
                    compare_step(&ctx, &d, &rp, &pre, &Effect::Branch { target }, step)?;
                    trace.push(digest(d.state(), d.location(), &ctx.names));
                    driver = d;
                    continue;
                }
                // no code there: the branch cannot be performed
                let mapped = rp.state.mem.bytes.contains_key(&target);
                obs.class(if mapped { "branch-to-data" } else { "branch-to-unmapped" });
                match res {
                    Ok(d) => fv::fail!(
                        "C07|branch|nowhere|no-error",
                        "step {} at {}: branch to 0x{:x} where there is neither an IL instruction nor executable memory; Driver::step moved to {}",
                        step, pre_loc, target, d.location()
                    ),
                    Err(e) => trace.push(engine::fingerprint(&format!("error {}", e))),
                }
                stats.end = "branch-nowhere".into();
                final_sweep(&before, &rp, step)?;
                return Ok((trace, stats));
            }
        }
    }
    if stats.end == "max-steps" {
        obs.class("end-max-steps");
    }
    final_sweep(&driver, &rp, stats.steps)?;
    Ok((trace, stats))
}

fn note_effect(eff: &Effect, pre: &Pre, case: &Case, obs: &mut Obs, stats: &mut Stats, blob_page_written: &mut bool) {
    let big = case.state.mem.big_endian;
    match eff {
        Effect::Store { addr, value } => {
            let n = (value.w / 8) as u64;
            if n > 1 {
                stats.wide_access = true;
                obs.class("store-wider-than-8");
                if big {
                    obs.class("big-endian-wide-store");
                }
            }
            if value.w == 128 {
                obs.class("store-128");
            }
            if value.w > 128 {
                obs.class("store-wider-than-128");
            }
            if (*addr & !(PAGE - 1)) == (BLOB_ADDR & !(PAGE - 1)) || (addr.wrapping_add(n.max(1) - 1) & !(PAGE - 1)) == (BLOB_ADDR & !(PAGE - 1)) {
                *blob_page_written = true;
            }
        }
        Effect::Load { value, .. } => {
            if value.w > 8 {
                stats.wide_access = true;
                obs.class("load-wider-than-8");
                if big {
                    obs.class("big-endian-wide-load");
                }
            }
            if value.w == 128 {
                obs.class("load-128");
            }
            if value.w > 128 {
                obs.class("load-wider-than-128");
            }
        }
        _ => {}
    }
    if pre.ends_block && pre.n_out >= 2 {
        stats.multiway = true;
        obs.class("multiway-choice");
        if pre.n_out >= 3 {
            obs.class("choice-among-3");
        }
    }
}

fn render(c: &Case) -> String {
    let mut s = format!(
        "class {}, {} endian, start in function {}, up to {} steps\n",
        c.klass,
        if c.state.mem.big_endian { "big" } else { "little" },
        c.start_fn,
        c.max_steps
    );
    for f in &c.fns {
        s.push_str(&f.render());
    }
    if let Some(b) = &c.blob {
        s.push_str(&format!("executable bytes at 0x{:x}: {:02x?}  ({})\n", b.addr, b.bytes, b.what));
    }
    s.push_str("scalars:");
    for (n, w) in &c.names {
        match c.state.scalars.get(n) {
            Some(v) => s.push_str(&format!(" {}={}", n, v)),
            None => s.push_str(&format!(" {}:{}=<missing>", n, w)),
        }
    }
    let keys: Vec<u64> = c.state.mem.bytes.keys().copied().collect();
    s.push_str("\nmapped:");
    let mut i = 0;
    while i < keys.len() {
        let mut j = i;
        while j + 1 < keys.len() && keys[j + 1] == keys[j] + 1 {
            j += 1;
        }
        s.push_str(&format!(" [0x{:x},0x{:x}]", keys[i], keys[j]));
        i = j + 1;
    }
    s
}

fn simplify(c: &Case) -> Vec<Case> {
    let mut v = Vec::new();
    if c.max_steps > 1 {
        let mut d = c.clone();
        d.max_steps = c.max_steps / 2;
        v.push(d);
        let mut d = c.clone();
        d.max_steps = c.max_steps - 1;
        v.push(d);
    }
    if c.fns.len() > 1 && c.start_fn + 1 != c.fns.len() {
        let mut d = c.clone();
        d.fns.pop();
        v.push(d);
    }
    for (fi, f) in c.fns.iter().enumerate() {
        for (bi, ops) in f.blocks.iter().enumerate() {
            for k in 0..ops.len() {
                let mut d = c.clone();
                d.fns[fi].blocks[bi].remove(k);
                v.push(d);
            }
        }
    }
    // shrink the mapped window from the top
    if c.state.mem.bytes.len() > 8 {
        let mut d = c.clone();
        let keys: Vec<u64> = d.state.mem.bytes.keys().rev().take(8).copied().collect();
        if c.blob.as_ref().map(|b| keys.iter().all(|k| *k < b.addr || *k >= b.addr + b.bytes.len() as u64)).unwrap_or(true) {
            for k in keys {
                d.state.mem.bytes.remove(&k);
            }
            v.push(d);
        }
    }
    v
}

/// libFuzzer entry: the input bytes are the entropy tape (little-endian u32 words); same
/// generator, same oracle as the proptest tiers.
#[allow(dead_code)]
pub fn fuzz_bytes(data: &[u8]) {
    let tape = fv::tape::words_from_bytes(data, 1600);
    let case = decode(&mut Tape::new(&tape));
    engine::fuzz_one("C07", &case, &render, &check);
}

#[allow(dead_code)]
fn main() -> std::process::ExitCode {
    let mut spec = Spec::new(
        "C07",
        "programs of 1-3 generated IL functions (1-6 blocks, all operation kinds, widths 1-128, both endiannesses, addressed instructions; classes: plain / broken guards / intrinsics / branches to instruction addresses in the same or another function / branch to a tiny amd64 function in executable memory) x initial states with missing scalars and memory holes, stepped up to 6-64 times in lock-step with a reference interpreter (Bv arithmetic, byte-map memory, successor = the edge whose guard is 1), comparing location, every scalar and the touched bytes after each step and fault kinds at the end; non-trivial = at least 3 steps including a load/store wider than 8 bits or a choice among >= 2 out-edges; distinct = (operation kinds executed, access widths, endianness, how the trace ended, generator class)",
        Box::new(|_t: Tier| from_tape(1600, decode)),
        |t| t.pick(300_000, 10_000_000),
        check,
    );
    spec.render = render;
    spec.simplify = Some(simplify);
    spec.assumptions = vec![
        "a scalar name has one width across the whole program and the initial state (as every lifter guarantees)".into(),
        "instruction addresses are unique across functions; several consecutive instructions of one block may share an address and a branch to it reaches the first".into(),
        "loads/stores whose byte range wraps past 2^64 are excluded".into(),
        "when two guards hold (non-exclusive guards) only membership of the chosen edge in the enabled set is checked; when one guard holds and another cannot be evaluated, taking the enabled edge and reporting the fault are both accepted".into(),
        "a branch to an address with neither an IL instruction nor executable bytes must be an error of any kind".into(),
        "the amd64 code for the lifting arm sits in a READ|EXECUTE backing region; in a third of those cases a Store overwrites one code byte before the Branch; the function the executor lifts on demand must equal what falcon's lifter makes of the CURRENT bytes of the reference memory (the lifter itself is taken as given, its meaning is C01's)".into(),
    ];
    spec.floors = vec![
        ("klass-plain", 0.20),
        ("initial-memory-in-backing", 0.20),
        ("klass-broken-guards", 0.08),
        ("klass-intrinsics", 0.06),
        ("klass-branches", 0.15),
        ("klass-lift", 0.05),
        ("nontrivial", 0.40),
        ("multiway-choice", 0.30),
        ("choice-among-3", 0.06),
        ("load-wider-than-8", 0.18),
        ("store-wider-than-8", 0.16),
        ("big-endian-wide-load", 0.08),
        ("big-endian-wide-store", 0.08),
        ("store-128", 0.04),
        ("load-128", 0.025),
        ("load-wider-than-128", 0.08),
        ("store-wider-than-128", 0.04),
        ("initial-missing-scalar", 0.10),
        ("fault-undefined-scalar", 0.05),
        ("fault-unmapped", 0.015),
        ("fault-div-zero", 0.005),
        ("fault-intrinsic", 0.012),
        ("fault-no-edge", 0.06),
        ("branch-same-function", 0.06),
        ("branch-other-function", 0.025),
        ("branch-to-unmapped", 0.02),
        ("branch-lifts-function", 0.012),
        ("branch-lifts-function-after-store-into-code-page", 0.003),
        ("step-inside-lifted-function", 0.012),
        ("branch-out-of-lifted-function", 0.006),
        ("end-max-steps", 0.25),
    ];
    spec.crash_sig = |c: &Case| format!("C07|crash|{}", c.klass);
    engine::main(spec)
}
