//! C12 — reaching definitions and def-use / use-def chains cover every execution.
//!
//! Domain: IL functions from `gen_fn` (branch = true, intrinsic = true, loops, sometimes
//! unreachable blocks) enriched with purpose-built operations: instructions reading 0, 1, 2, 3
//! scalars, the same scalar twice, the scalar they write (`x = x - 4`), loads and stores whose
//! address reads a scalar, intrinsics with one / several / no declared written and read scalars
//! and with undeclared effects; x 16 initial states; executions of up to 300 steps with
//! `fv::refil::Machine` (intrinsics in havoc mode; a `Branch` is a call that returns with every
//! defined scalar clobbered, DESIGN 1.8).
//!
//! Oracle (all of it in this file; falcon is only asked for the three result maps):
//!  * clause 1 (dynamic): after every executed location L, for every scalar s that an instruction
//!    of the function has written so far in this execution, last_writer(s) is in RD[L].  falcon
//!    stores for a location the state *after* its transfer function (fixed_point.rs), which is
//!    the "control has just executed the location" of the property.
//!  * clause 2 (static): every assignment or load d in RD[L] that writes s has a path
//!    d -> ... -> L in the location graph (built from `FnView`, i.e. blocks()/edges() only) on
//!    which no other assignment or load writes s.  Other entries of RD[L] are ignored, as the
//!    property words it.
//!  * use-def (dynamic): for every executed instruction or taken guarded edge U and every scalar
//!    s it reads that has been written in this execution, the writer that was last before U
//!    executed is in UD[U].
//!  * inverse (static): u in DU[d] <=> d in UD[u] over all pairs (absent key = empty set).
//!
//! Read / written scalars of an operation are derived here from the raw operands (own expression
//! walker), not from `scalars_read()` / `scalars_written()`.
//!
//! What "writes s" means (judged against the property text): an assignment or load writes its
//! destination; an intrinsic writes the scalars of its declared written expressions; an intrinsic
//! with undeclared effects and the callee behind a `Branch` are not instructions whose writes the
//! IL states, the property is silent about them and nothing is asserted (the execution model
//! lets an undeclared intrinsic write nothing, which is one of the behaviours "anything" allows;
//! the havoc of a call changes values only).  See the report for the other reading.

use falcon::analysis;
use falcon::il;
use fv::bv::Bv;
use fv::engine::{self, guard, Failure, Obs, Spec, Tier};
use fv::gen_il::{gen_fn, GenFn, IlParams, OpSpec, Pool};
use fv::refil::{Effect, FnView, IntrinsicMode, Loc, Machine, RefMem, RefState};
use fv::tape::{from_tape, Tape};
use serde::{Deserialize, Serialize};
use std::collections::{BTreeMap, BTreeSet, VecDeque};

const MAX_STEPS: usize = 300;
const N_STATES: usize = 16;
const SCRATCH_BASE: u64 = 0x1000_0000;
const SCRATCH_LEN: u64 = 64;

// ------------------------------------------------------------------------------------------
// case
// ------------------------------------------------------------------------------------------

#[derive(Clone, Debug, Serialize, Deserialize)]
struct StateSpec {
    /// value of pool scalar i (truncated to its width)
    vals: Vec<u128>,
    mem_seed: u32,
}

#[derive(Clone, Debug, Serialize, Deserialize)]
struct Case {
    g: GenFn,
    states: Vec<StateSpec>,
    havoc_seed: u64,
}

fn konst(v: u128, bits: usize) -> il::Expression {
    il::Expression::constant(il::Constant::new_big(num_bigint::BigUint::from(v), bits))
}

fn sc(s: &(String, usize)) -> il::Expression {
    il::Expression::Scalar(il::scalar(s.0.clone(), s.1))
}

/// the value of scalar `s` adapted to `to` bits
fn fit(s: &(String, usize), to: usize) -> il::Expression {
    let e = sc(s);
    if s.1 < to {
        il::Expression::Zext(to, Box::new(e))
    } else if s.1 > to {
        il::Expression::Trun(to, Box::new(e))
    } else {
        e
    }
}

fn scratch_addr(s: &(String, usize)) -> il::Expression {
    // (s & 63) + base, 64 bits
    il::Expression::Add(
        Box::new(il::Expression::And(Box::new(fit(s, 64)), Box::new(konst(SCRATCH_LEN as u128 - 1, 64)))),
        Box::new(konst(SCRATCH_BASE as u128, 64)),
    )
}

/// Operations the design promises explicitly; `gen_op` produces most of them only by chance.
fn spice_op(t: &mut Tape, pool: &Pool, counter: &mut usize) -> il::Operation {
    use il::Expression as E;
    let ss = &pool.scalars;
    let b = |e: E| Box::new(e);
    let pick = |t: &mut Tape| ss[t.below(ss.len())].clone();
    let z = pick(t);
    let zs = il::scalar(z.0.clone(), z.1);
    let w = z.1;
    match t.weighted(&[14, 14, 8, 10, 5, 7, 16, 8, 6, 6, 6]) {
        0 => {
            // x = x - 4  /  x = x + y
            let src = if t.chance(1, 3) {
                E::Add(b(sc(&z)), b(fit(&pick(t), w)))
            } else {
                E::Sub(b(sc(&z)), b(konst(4 & if w >= 3 { 7 } else { 1 }, w)))
            };
            il::Operation::Assign { dst: zs, src }
        }
        1 => {
            let x = pick(t);
            let y = pick(t);
            let src = match t.below(3) {
                0 => E::Add(b(fit(&x, w)), b(fit(&y, w))),
                1 => E::Xor(b(fit(&x, w)), b(fit(&y, w))),
                _ => E::Ite(b(E::Cmpltu(b(fit(&x, w)), b(fit(&y, w)))), b(fit(&x, w)), b(konst(1, w))),
            };
            il::Operation::Assign { dst: zs, src }
        }
        2 => {
            let x = pick(t);
            let src = if t.chance(1, 2) { E::Add(b(fit(&x, w)), b(fit(&x, w))) } else { E::Mul(b(fit(&x, w)), b(fit(&x, w))) };
            il::Operation::Assign { dst: zs, src }
        }
        3 => {
            let (x, y, v) = (pick(t), pick(t), pick(t));
            il::Operation::Assign { dst: zs, src: E::Xor(b(E::Add(b(fit(&x, w)), b(fit(&y, w)))), b(fit(&v, w))) }
        }
        4 => il::Operation::Assign { dst: zs, src: konst(t.biased(w), w) },
        5 => il::Operation::Assign { dst: zs, src: fit(&pick(t), w) },
        6 | 7 | 8 => {
            // intrinsics with 0-3 declared written and read scalars (`undeclare` removes some declarations)
            *counter += 1;
            let set = |t: &mut Tape, n: usize| -> Vec<il::Expression> { (0..n).map(|_| sc(&ss[t.below(ss.len())])).collect() };
            let nw = [1usize, 2, 3, 0][t.weighted(&[40, 30, 20, 10])];
            let nr = [1usize, 2, 0, 3][t.weighted(&[35, 30, 20, 15])];
            let written = set(t, nw);
            let read = set(t, nr);
            il::Operation::Intrinsic {
                intrinsic: il::Intrinsic::new("spice", format!("spice {}", counter), Vec::new(), Some(written), Some(read), vec![0x0f, 0x0b]),
            }
        }
        9 => {
            let cands: Vec<&(String, usize)> = ss.iter().filter(|s| s.1 % 8 == 0).collect();
            if cands.is_empty() {
                return il::Operation::Nop { placeholder: None };
            }
            let d = cands[t.below(cands.len())];
            il::Operation::Load { dst: il::scalar(d.0.clone(), d.1), index: scratch_addr(&pick(t)) }
        }
        _ => {
            let cands: Vec<&(String, usize)> = ss.iter().filter(|s| s.1 % 8 == 0).collect();
            if cands.is_empty() {
                return il::Operation::Nop { placeholder: None };
            }
            let v = cands[t.below(cands.len())];
            il::Operation::Store { index: scratch_addr(&pick(t)), src: sc(v) }
        }
    }
}

fn undeclare(t: &mut Tape, op: il::Operation) -> il::Operation {
    // turn some declared intrinsics into ones with undeclared written and/or read expressions
    if let il::Operation::Intrinsic { intrinsic } = &op {
        let (w, r) = match t.weighted(&[60, 14, 13, 13]) {
            0 => return op,
            1 => (false, true),
            2 => (true, false),
            _ => (false, false),
        };
        return il::Operation::Intrinsic {
            intrinsic: il::Intrinsic::new(
                intrinsic.mnemonic().to_string(),
                intrinsic.instruction_str().to_string(),
                Vec::new(),
                if w { intrinsic.written_expressions().map(|x| x.to_vec()) } else { None },
                if r { intrinsic.read_expressions().map(|x| x.to_vec()) } else { None },
                intrinsic.bytes().to_vec(),
            ),
        };
    }
    op
}

fn decode(t: &mut Tape) -> Case {
    let mut p = IlParams::default();
    p.max_blocks = *t.pick(&[4usize, 1, 2, 3, 5, 7]);
    p.max_ops = *t.pick(&[3usize, 1, 2, 4]);
    p.max_scalars = *t.pick(&[4usize, 2, 3, 5]);
    p.max_expr_depth = *t.pick(&[2usize, 1, 3]);
    p.branch = true;
    p.intrinsic = true;
    p.mem = true;
    p.unreachable = t.chance(1, 4);
    p.scratch_base = SCRATCH_BASE;
    p.scratch_len = SCRATCH_LEN;
    p.index_gaps_permille = 200;
    p.nop_placeholders = true;
    p.function_index = true;
    let mut g = gen_fn(t, &p);
    // enrich with the promised operation shapes
    let mut counter = 1000usize;
    for ops in g.spec.blocks.iter_mut() {
        let extra = t.weighted(&[30, 40, 30]);
        for _ in 0..extra {
            let op = spice_op(t, &g.pool, &mut counter);
            let op = undeclare(t, op);
            let at = t.below(ops.len() + 1);
            ops.insert(at, OpSpec { op, address: None });
        }
    }
    // guards that read one or two pool scalars (gen_guards often yields constant conditions)
    let nblocks = g.spec.blocks.len();
    for h in 0..nblocks {
        let outs: Vec<usize> = (0..g.spec.edges.len()).filter(|i| g.spec.edges[*i].0 == h).collect();
        if outs.len() == 2 && t.chance(1, 2) {
            use il::Expression as E;
            let ss = &g.pool.scalars;
            let x = ss[t.below(ss.len())].clone();
            let y = ss[t.below(ss.len())].clone();
            let w = x.1;
            let c = match t.below(3) {
                0 => E::Cmpltu(Box::new(sc(&x)), Box::new(fit(&y, w))),
                1 => E::Cmpeq(Box::new(E::And(Box::new(sc(&x)), Box::new(konst(1, w)))), Box::new(konst(0, w))),
                _ => E::Cmplts(Box::new(fit(&y, w)), Box::new(sc(&x))),
            };
            g.spec.edges[outs[0]].2 = Some(c.clone());
            g.spec.edges[outs[1]].2 = Some(E::Cmpeq(Box::new(c), Box::new(konst(0, 1))));
        }
    }
    // a block that is unreachable from the entry and flows into a live one
    if t.chance(1, 6) {
        let mut ops = Vec::new();
        for _ in 0..t.range(0, 2) {
            let op = spice_op(t, &g.pool, &mut counter);
            ops.push(OpSpec { op, address: None });
        }
        g.spec.blocks.push(ops);
        let tgt = t.below(nblocks);
        g.spec.edges.push((nblocks, tgt, None));
    }
    let mut a = g.spec.address;
    for ops in g.spec.blocks.iter_mut() {
        for o in ops.iter_mut() {
            o.address = Some(a);
            a += 4;
        }
    }
    let mut states = Vec::new();
    for _ in 0..N_STATES {
        let vals = g
            .pool
            .scalars
            .iter()
            .map(|(_, w)| if *w == 64 && t.chance(1, 2) { (SCRATCH_BASE + t.below(SCRATCH_LEN as usize) as u64) as u128 } else { t.biased(*w) })
            .collect();
        states.push(StateSpec { vals, mem_seed: t.raw() });
    }
    let havoc_seed = t.u64();
    Case { g, states, havoc_seed }
}

fn build_state(pool: &Pool, s: &StateSpec) -> RefState {
    let mut scalars = BTreeMap::new();
    for (i, (name, w)) in pool.scalars.iter().enumerate() {
        if let Some(v) = s.vals.get(i) {
            scalars.insert(name.clone(), Bv::from_u128(*v, *w));
        }
    }
    let mut mem = RefMem::new(false);
    let seed = s.mem_seed as u64;
    for a in SCRATCH_BASE.saturating_sub(8)..SCRATCH_BASE + SCRATCH_LEN + 24 {
        let x = (a ^ seed).wrapping_mul(0x9E37_79B9_7F4A_7C15) >> 56;
        mem.bytes.insert(a, x as u8);
    }
    RefState { scalars, mem }
}

// ------------------------------------------------------------------------------------------
// read / written scalars, derived from the operands
// ------------------------------------------------------------------------------------------

fn walk(e: &il::Expression, out: &mut Vec<String>) {
    use il::Expression as E;
    match e {
        E::Scalar(s) => out.push(s.name().to_string()),
        E::Constant(_) => {}
        E::Add(l, r) | E::Sub(l, r) | E::Mul(l, r) | E::Divu(l, r) | E::Modu(l, r) | E::Divs(l, r) | E::Mods(l, r) | E::And(l, r)
        | E::Or(l, r) | E::Xor(l, r) | E::Shl(l, r) | E::Shr(l, r) | E::AShr(l, r) | E::Cmpeq(l, r) | E::Cmpneq(l, r)
        | E::Cmplts(l, r) | E::Cmpltu(l, r) => {
            walk(l, out);
            walk(r, out);
        }
        E::Zext(_, x) | E::Sext(_, x) | E::Trun(_, x) => walk(x, out),
        E::Ite(c, a, b) => {
            walk(c, out);
            walk(a, out);
            walk(b, out);
        }
    }
}

fn scalars_of(es: &[&il::Expression]) -> Vec<String> {
    let mut v = Vec::new();
    for e in es {
        walk(e, &mut v);
    }
    v
}

/// scalar occurrences read by an operation; `None`: an intrinsic that does not declare them
fn reads_of(op: &il::Operation) -> Option<Vec<String>> {
    match op {
        il::Operation::Assign { src, .. } => Some(scalars_of(&[src])),
        il::Operation::Store { index, src } => Some(scalars_of(&[index, src])),
        il::Operation::Load { index, .. } => Some(scalars_of(&[index])),
        il::Operation::Branch { target } => Some(scalars_of(&[target])),
        il::Operation::Intrinsic { intrinsic } => intrinsic.read_expressions().map(|es| scalars_of(&es.iter().collect::<Vec<_>>())),
        il::Operation::Nop { .. } => Some(Vec::new()),
    }
}

/// scalars written by an operation; `None`: an intrinsic with undeclared effects
fn writes_of(op: &il::Operation) -> Option<Vec<String>> {
    match op {
        il::Operation::Assign { dst, .. } | il::Operation::Load { dst, .. } => Some(vec![dst.name().to_string()]),
        il::Operation::Store { .. } | il::Operation::Branch { .. } | il::Operation::Nop { .. } => Some(Vec::new()),
        il::Operation::Intrinsic { intrinsic } => intrinsic.written_expressions().map(|es| scalars_of(&es.iter().collect::<Vec<_>>())),
    }
}

fn pl_to_loc(l: &il::ProgramLocation) -> Loc {
    match *l.function_location() {
        il::FunctionLocation::Instruction(b, i) => Loc::Instr(b, i),
        il::FunctionLocation::Edge(h, t) => Loc::Edge(h, t),
        il::FunctionLocation::EmptyBlock(b) => Loc::Empty(b),
    }
}

type LocMap = BTreeMap<Loc, BTreeSet<Loc>>;

fn convert(m: &std::collections::HashMap<il::ProgramLocation, analysis::LocationSet>, what: &str) -> Result<LocMap, Failure> {
    let mut out = LocMap::new();
    for (k, v) in m {
        let set: BTreeSet<Loc> = v.locations().iter().map(pl_to_loc).collect();
        if set.len() != v.len() {
            fv::fail!(format!("C12|{}|duplicate-members", what), "a set of {} has members that denote the same location", what);
        }
        if out.insert(pl_to_loc(k), set).is_some() {
            fv::fail!(format!("C12|{}|duplicate-keys", what), "the map of {} has two keys for one location", what);
        }
    }
    Ok(out)
}

fn run_analysis(
    name: &str,
    function: &il::Function,
    f: fn(&il::Function) -> Result<std::collections::HashMap<il::ProgramLocation, analysis::LocationSet>, falcon::Error>,
) -> Result<LocMap, Failure> {
    match guard(|| f(function)) {
        Err(pi) => fv::fail!(format!("C12|{}|panic", name), "{} panicked: {} ({}:{})", name, pi.msg, pi.file, pi.line),
        Ok(Err(e)) => fv::fail!(format!("C12|{}|error", name), "{} returned an error for a well-formed function: {}", name, e),
        Ok(Ok(m)) => convert(&m, name),
    }
}

struct Info<'a> {
    view: &'a FnView,
    rd: LocMap,
    ud: LocMap,
    du: LocMap,
}

impl<'a> Info<'a> {
    fn op(&self, l: Loc) -> Option<&il::Operation> {
        match l {
            Loc::Instr(b, i) => self.view.instr(b, i).map(|iv| &iv.op),
            _ => None,
        }
    }
    fn show(&self, l: Loc) -> String {
        match l {
            Loc::Instr(b, i) => match self.view.instr(b, i) {
                Some(iv) => format!("{}:{:02} `{}`", b, i, iv.op),
                None => format!("{}:{:02} <no such instruction>", b, i),
            },
            Loc::Edge(h, t) => {
                let c = self.view.edges.iter().find(|e| e.head == h && e.tail == t).and_then(|e| e.cond.as_ref());
                match c {
                    Some(c) => format!("edge {}->{} if `{}`", h, t, c),
                    None => format!("edge {}->{}", h, t),
                }
            }
            Loc::Empty(b) => format!("empty block {}", b),
        }
    }
    fn show_set(&self, s: Option<&BTreeSet<Loc>>) -> String {
        match s {
            None => "<no entry>".into(),
            Some(s) => format!("{{{}}}", s.iter().map(|l| self.show(*l)).collect::<Vec<_>>().join(", ")),
        }
    }
}

/// the scalar an assignment or load writes
fn assign_or_load_dst(op: &il::Operation) -> Option<String> {
    match op {
        il::Operation::Assign { dst, .. } | il::Operation::Load { dst, .. } => Some(dst.name().to_string()),
        _ => None,
    }
}

/// locations reachable from `d` (inclusive) along paths whose later locations are not other
/// assignments or loads of `s`
fn reach_without_redefinition(info: &Info, d: Loc, s: &str) -> BTreeSet<Loc> {
    let mut seen = BTreeSet::new();
    seen.insert(d);
    let mut q = VecDeque::new();
    q.push_back(d);
    while let Some(l) = q.pop_front() {
        for n in info.view.succ_locs(l) {
            if seen.contains(&n) {
                continue;
            }
            let redefines = info.op(n).and_then(assign_or_load_dst).map(|x| x == s).unwrap_or(false);
            if redefines {
                continue;
            }
            seen.insert(n);
            q.push_back(n);
        }
    }
    seen
}

struct Fails {
    list: Vec<Failure>,
}

impl Fails {
    fn push(&mut self, f: Failure) {
        if self.list.len() < 32 && !self.list.iter().any(|x| x.sig == f.sig) {
            self.list.push(f);
        }
    }
    /// prefer a failure that is not a recorded finding, so that a shallow known defect cannot
    /// hide another one inside the same case
    fn verdict(self, obs: &Obs) -> Result<(), Failure> {
        let mut first = None;
        for f in self.list {
            if !obs.known(&f.sig) {
                return Err(f);
            }
            if first.is_none() {
                first = Some(f);
            }
        }
        match first {
            Some(f) => Err(f),
            None => Ok(()),
        }
    }
}

fn check(case: &Case, obs: &mut Obs) -> Result<(), Failure> {
    let function = case.g.spec.build().map_err(|e| Failure::new("C12|harness|build", e))?;
    let view = FnView::of(&function);
    let rd = run_analysis("reaching_definitions", &function, analysis::reaching_definitions)?;
    let ud = run_analysis("use_def", &function, analysis::use_def)?;
    let du = run_analysis("def_use", &function, analysis::def_use)?;
    let info = Info { view: &view, rd, ud, du };
    let mut fails = Fails { list: Vec::new() };

    // ---- replay aid (no assertion): what dead_code_elimination, the consumer of these chains, does
    if obs.replay {
        match guard(|| analysis::dead_code_elimination(&function)) {
            Ok(Ok(out)) => {
                let after = FnView::of(&out);
                let gone: Vec<String> = view
                    .all_locs()
                    .into_iter()
                    .filter(|l| match (info.op(*l), l) {
                        (Some(op), Loc::Instr(b, i)) => !op.is_nop() && after.instr(*b, *i).map(|x| x.op.is_nop()).unwrap_or(false),
                        _ => false,
                    })
                    .map(|l| info.show(l))
                    .collect();
                println!("replay note: dead_code_elimination replaces by nop: {}", if gone.is_empty() { "nothing".to_string() } else { gone.join(", ") });
            }
            Ok(Err(e)) => println!("replay note: dead_code_elimination returned an error: {}", e),
            Err(pi) => println!("replay note: dead_code_elimination panicked: {}", pi.msg),
        }
        for l in view.all_locs() {
            println!("replay note: UD[{}] = {}", info.show(l), info.show_set(info.ud.get(&l)));
        }
    }

    // ---- classes of the function
    if case.g.spec.has_cycle() {
        obs.class("fn-loop");
    }
    let live_blocks = case.g.spec.reachable_blocks();
    if live_blocks.len() < case.g.spec.blocks.len() {
        obs.class("fn-unreachable-block");
    }
    if case.g.spec.edges.iter().any(|e| !live_blocks.contains(&e.0) && live_blocks.contains(&e.1)) {
        obs.class("fn-unreachable-block-feeds-live-one");
    }
    if case.g.spec.edges.iter().any(|e| e.1 == 0 && live_blocks.contains(&e.0)) {
        obs.class("fn-loop-through-entry");
    }
    let mut static_defs: BTreeMap<String, usize> = BTreeMap::new();
    for l in view.all_locs() {
        if let Some(ws) = info.op(l).and_then(writes_of) {
            let uniq: BTreeSet<String> = ws.into_iter().collect();
            for s in uniq {
                *static_defs.entry(s).or_insert(0) += 1;
            }
        }
    }

    // ---- clause 2 (static): reported assignments and loads can reach the location
    let mut reach_cache: BTreeMap<Loc, BTreeSet<Loc>> = BTreeMap::new();
    let mut clause2 = 0u64;
    for (l, defs) in &info.rd {
        for d in defs {
            let op = match info.op(*d) {
                Some(op) => op,
                None => {
                    fails.push(Failure::new(
                        "C12|rd|member-is-not-an-instruction",
                        format!("RD[{}] contains {} which is not an instruction of the function", info.show(*l), info.show(*d)),
                    ));
                    continue;
                }
            };
            if let Some(s) = assign_or_load_dst(op) {
                clause2 += 1;
                let reach = reach_cache.entry(*d).or_insert_with(|| reach_without_redefinition(&info, *d, &s));
                if !reach.contains(l) {
                    fails.push(Failure::new(
                        "C12|rd|reported-definition-cannot-reach",
                        format!(
                            "RD[{}] contains {} but every path from it to that location passes another assignment or load of {} (or there is no path)",
                            info.show(*l), info.show(*d), s
                        ),
                    ));
                }
            }
        }
    }
    obs.count("clause2-pairs", clause2);

    // ---- inverse (static)
    let empty = BTreeSet::new();
    let mut pairs = 0u64;
    for (u, defs) in &info.ud {
        for d in defs {
            pairs += 1;
            if !info.du.get(d).unwrap_or(&empty).contains(u) {
                fails.push(Failure::new(
                    "C12|def-use|not-inverse|use-missing",
                    format!("{} is in UD[{}] but DU of that definition is {}", info.show(*d), info.show(*u), info.show_set(info.du.get(d))),
                ));
            }
        }
    }
    for (d, uses) in &info.du {
        for u in uses {
            if !info.ud.get(u).unwrap_or(&empty).contains(d) {
                fails.push(Failure::new(
                    "C12|def-use|not-inverse|use-extra",
                    format!("{} is in DU[{}] but UD of that use is {}", info.show(*u), info.show(*d), info.show_set(info.ud.get(u))),
                ));
            }
        }
    }
    obs.count("ud-pairs", pairs);

    // ---- executions
    let mut nontrivial = false;
    let mut key_classes: BTreeSet<&'static str> = BTreeSet::new();
    let mut total_steps = 0u64;
    for (si, st) in case.states.iter().enumerate() {
        let mut m = match Machine::new(&view, build_state(&case.g.pool, st)) {
            Ok(m) => m,
            Err(e) => return Err(Failure::new("C12|harness|machine", format!("{:?}", e))),
        };
        m.intrinsics = IntrinsicMode::Havoc;
        m.havoc_seed = case.havoc_seed ^ (si as u64).wrapping_mul(0x9E37_79B9_7F4A_7C15);
        let mut last_writer: BTreeMap<String, Loc> = BTreeMap::new();
        let mut writers_seen: BTreeMap<String, BTreeSet<Loc>> = BTreeMap::new();
        let mut visited: BTreeSet<Loc> = BTreeSet::new();
        let mut steps = 0usize;
        let mut stop = "step-limit";
        while steps < MAX_STEPS {
            let loc = m.loc;
            let r = m.step();
            let effect = match (&r, &m.last_effect) {
                (Ok(e), _) => e.clone(),
                (Err(_), Some(e)) => e.clone(), // executed, no successor could be chosen
                (Err(f), None) => {
                    stop = f.kind();
                    break;
                }
            };
            steps += 1;
            if !visited.insert(loc) {
                key_classes.insert("exec-location-twice");
            }

            // -- what U reads
            let (reads, is_edge): (Option<Vec<String>>, bool) = match loc {
                Loc::Instr(..) => (info.op(loc).and_then(reads_of), false),
                Loc::Edge(h, t) => {
                    let c = view.edges.iter().find(|e| e.head == h && e.tail == t).and_then(|e| e.cond.as_ref());
                    (c.map(|c| scalars_of(&[c])), true)
                }
                Loc::Empty(_) => (Some(Vec::new()), false),
            };
            let own_writes: Vec<String> = info.op(loc).and_then(writes_of).unwrap_or_default();
            match (&reads, info.op(loc)) {
                (None, Some(_)) => {
                    key_classes.insert("exec-intrinsic-undeclared-reads");
                }
                (Some(rs), Some(op)) => {
                    let prior = rs.iter().filter(|s| last_writer.contains_key(*s)).count();
                    key_classes.insert(match rs.len() {
                        0 => "exec-instr-reads-0",
                        1 => "exec-instr-reads-1",
                        2 => "exec-instr-reads-2",
                        _ => "exec-instr-reads-3+",
                    });
                    if prior > 0 {
                        if rs.len() >= 2 {
                            key_classes.insert("exec-multi-read-with-prior-writer");
                        }
                        let uniq: BTreeSet<&String> = rs.iter().collect();
                        if uniq.len() < rs.len() {
                            key_classes.insert("exec-same-scalar-twice");
                        }
                        if rs.iter().any(|s| own_writes.contains(s) && last_writer.contains_key(s)) {
                            key_classes.insert("exec-self-referential-with-prior-writer");
                        }
                        if op.is_intrinsic() {
                            key_classes.insert(if rs.len() >= 2 { "exec-intrinsic-reads-several" } else { "exec-intrinsic-reads-1" });
                        }
                    }
                }
                (Some(rs), None) => {
                    if is_edge && rs.iter().any(|s| last_writer.contains_key(s)) {
                        key_classes.insert("exec-guard-read-with-prior-writer");
                        let uniq: BTreeSet<&String> = rs.iter().filter(|s| last_writer.contains_key(*s)).collect();
                        if uniq.len() >= 2 {
                            key_classes.insert("exec-guard-reads-two-written-scalars");
                        }
                    }
                }
                (None, None) => {}
            }

            // -- use-def: the writer that was last before U executed
            if let Some(rs) = &reads {
                let udset = info.ud.get(&loc);
                let uniq: BTreeSet<&String> = rs.iter().collect();
                for s in uniq {
                    let Some(w) = last_writer.get(s) else { continue };
                    obs.count("ud-checks", 1);
                    let w_writes = info.op(*w).and_then(writes_of).unwrap_or_default();
                    if w_writes.len() >= 2 {
                        key_classes.insert("exec-use-of-multi-write-intrinsic");
                    }
                    if udset.map(|x| x.contains(w)).unwrap_or(false) {
                        continue;
                    }
                    let sig = if udset.is_none() {
                        "C12|use-def|no-entry-for-executed-location".to_string()
                    } else if is_edge {
                        "C12|use-def|edge|last-writer-missing".to_string()
                    } else {
                        let vec = rs.len() != 1 || w_writes.len() != 1;
                        let selfw = own_writes.contains(s);
                        match (vec, selfw) {
                            (true, false) => "C12|use-def|instruction|several-scalars-read-or-written|last-writer-missing",
                            (false, true) => "C12|use-def|instruction|reads-the-scalar-it-writes|last-writer-missing",
                            (true, true) => "C12|use-def|instruction|several-scalars-and-reads-the-scalar-it-writes|last-writer-missing",
                            (false, false) => "C12|use-def|instruction|last-writer-missing",
                        }
                        .to_string()
                    };
                    fails.push(Failure::new(
                        sig,
                        format!(
                            "state {} step {}: {} reads {}, whose last writer before it executed was {}; UD of the use is {}",
                            si, steps, info.show(loc), s, info.show(*w), info.show_set(udset)
                        ),
                    ));
                }
            }

            // -- the writes of this location
            match &effect {
                Effect::Assign { name, .. } | Effect::Load { name, .. } => {
                    // cross-check the interpreter against the operands
                    if own_writes != vec![name.clone()] {
                        return Err(Failure::new("C12|harness|writes", format!("{} wrote {} but its operands say {:?}", info.show(loc), name, own_writes)));
                    }
                    if matches!(effect, Effect::Load { .. }) {
                        key_classes.insert("exec-load-definition");
                    }
                }
                Effect::Intrinsic { .. } => match info.op(loc).and_then(writes_of) {
                    None => {
                        key_classes.insert("exec-intrinsic-undeclared-writes");
                        obs.exclude("undeclared-intrinsic-effects:nothing-asserted-about-its-writes");
                    }
                    Some(ws) => {
                        key_classes.insert(match ws.len() {
                            0 => "exec-intrinsic-writes-0",
                            1 => "exec-intrinsic-writes-1",
                            _ => "exec-intrinsic-writes-several",
                        });
                    }
                },
                Effect::Branch { .. } => {
                    key_classes.insert("exec-branch-call-havoc");
                }
                _ => {}
            }
            for s in &own_writes {
                last_writer.insert(s.clone(), loc);
                let set = writers_seen.entry(s.clone()).or_default();
                set.insert(loc);
                if set.len() >= 2 {
                    nontrivial = true;
                }
            }

            // -- clause 1: control has just executed `loc`
            match info.rd.get(&loc) {
                None => fails.push(Failure::new(
                    "C12|rd|no-entry-for-executed-location",
                    format!("state {} step {}: {} was executed but reaching definitions have no entry for it", si, steps, info.show(loc)),
                )),
                Some(set) => {
                    for (s, w) in &last_writer {
                        obs.count("rd-checks", 1);
                        if !set.contains(w) {
                            let kind = match info.op(*w) {
                                Some(il::Operation::Assign { .. }) => "assign",
                                Some(il::Operation::Load { .. }) => "load",
                                Some(il::Operation::Intrinsic { .. }) => "intrinsic",
                                _ => "other",
                            };
                            fails.push(Failure::new(
                                format!("C12|rd|last-writer-not-reported|{}", kind),
                                format!(
                                    "state {} step {}: after {} the last writer of {} is {}; RD of the location is {}",
                                    si, steps, info.show(loc), s, info.show(*w), info.show_set(Some(set))
                                ),
                            ));
                        }
                    }
                }
            }

            // -- control
            if let Effect::Branch { .. } = effect {
                m.havoc_defined();
                match m.fallthrough() {
                    Ok(l) => m.loc = l,
                    Err(f) => {
                        stop = f.kind();
                        break;
                    }
                }
            } else if let Err(f) = &r {
                stop = f.kind();
                break;
            }
        }
        total_steps += steps as u64;
        obs.count(&format!("stop:{}", stop), 1);
        if steps >= 40 {
            key_classes.insert("exec-40+steps");
        }
    }
    obs.count("steps", total_steps);
    for c in &key_classes {
        obs.class(c);
    }
    if nontrivial {
        obs.class("nontrivial");
        let multi_def = static_defs.values().filter(|n| **n >= 2).count().min(4);
        obs.nontrivial(&(case.g.spec.blocks.len(), case.g.spec.edges.len().min(10), multi_def, key_classes.clone(), info.rd.values().map(|s| s.len()).max().unwrap_or(0).min(12)));
    }
    if obs.want_sample() {
        obs.sample(render(case));
    }
    fails.verdict(obs)
}

fn render(c: &Case) -> String {
    let mut s = c.g.spec.render();
    s.push_str(&format!(" scalars: {:?}\n havoc seed 0x{:x}; {} initial states", c.g.pool.scalars, c.havoc_seed, c.states.len()));
    for (i, st) in c.states.iter().enumerate().take(3) {
        s.push_str(&format!("\n  state {}: {:x?} mem seed 0x{:x}", i, st.vals, st.mem_seed));
    }
    s
}

fn simplify(c: &Case) -> Vec<Case> {
    let mut v = Vec::new();
    // one state at a time
    if c.states.len() > 1 {
        for i in 0..c.states.len() {
            let mut d = c.clone();
            d.states = vec![c.states[i].clone()];
            v.push(d);
        }
    }
    let n = c.g.spec.blocks.len();
    // drop the last block
    if n > 1 {
        let mut d = c.clone();
        d.g.spec.blocks.pop();
        d.g.spec.edges.retain(|e| e.0 != n - 1 && e.1 != n - 1);
        if d.g.spec.exit == Some(n - 1) {
            d.g.spec.exit = Some(n - 2);
        }
        v.push(d);
    }
    // drop one edge / make it unconditional
    for i in 0..c.g.spec.edges.len() {
        let mut d = c.clone();
        d.g.spec.edges.remove(i);
        v.push(d);
        if c.g.spec.edges[i].2.is_some() {
            let h = c.g.spec.edges[i].0;
            if c.g.spec.edges.iter().filter(|e| e.0 == h).count() == 1 {
                let mut d = c.clone();
                d.g.spec.edges[i].2 = None;
                v.push(d);
            }
        }
    }
    // drop one instruction / turn it into a nop / simplify an assignment
    for b in 0..n {
        for i in 0..c.g.spec.blocks[b].len() {
            let mut d = c.clone();
            d.g.spec.blocks[b].remove(i);
            v.push(d);
            match &c.g.spec.blocks[b][i].op {
                il::Operation::Nop { .. } => {}
                il::Operation::Assign { dst, src } => {
                    if !matches!(src, il::Expression::Constant(_)) {
                        let mut d = c.clone();
                        d.g.spec.blocks[b][i].op = il::Operation::Assign { dst: dst.clone(), src: konst(1, dst.bits()) };
                        v.push(d);
                    }
                }
                _ => {
                    let mut d = c.clone();
                    d.g.spec.blocks[b][i].op = il::Operation::Nop { placeholder: None };
                    v.push(d);
                }
            }
        }
    }
    // simpler values
    for i in 0..c.states.len().min(2) {
        for k in 0..c.states[i].vals.len() {
            if c.states[i].vals[k] != 0 {
                let mut d = c.clone();
                d.states[i].vals[k] = 0;
                v.push(d);
            }
        }
    }
    if c.havoc_seed != 0 {
        let mut d = c.clone();
        d.havoc_seed = 0;
        v.push(d);
    }
    v
}

/// libFuzzer entry: the input bytes are the entropy tape (little-endian u32 words); same
/// generator, same oracle as the proptest tiers.
#[allow(dead_code)]
pub fn fuzz_bytes(data: &[u8]) {
    let tape = fv::tape::words_from_bytes(data, 1800);
    let case = decode(&mut Tape::new(&tape));
    engine::fuzz_one("C12", &case, &render, &check);
}

#[allow(dead_code)]
fn main() -> std::process::ExitCode {
    let mut spec = Spec::new(
        "C12",
        "IL functions from gen_fn (1-7 blocks, loops, calls, intrinsics, loads/stores, sometimes unreachable blocks) enriched with self-referential updates, 0/1/2/3-scalar reads, the same scalar read twice, intrinsics with 0-3 declared written / read scalars and with undeclared effects; 16 initial states, executions of up to 300 steps by the reference interpreter (intrinsics and returning calls in havoc mode); after every executed location the last writer of every scalar written so far must be in RD of that location, before every executed instruction / taken guarded edge the last writers of the scalars it reads must be in its UD, every assignment or load in RD[L] must reach L on a path (own BFS over the location graph) without another assignment or load of its scalar, and DU must be the inverse of UD; non-trivial = some execution in which one scalar is written by two different instructions; distinct = (#blocks, #edges capped, #scalars with >= 2 static definitions capped, set of execution classes, largest RD set capped)",
        Box::new(|_t: Tier| from_tape(1800, decode)),
        |t| t.pick(50_000, 2_000_000),
        check,
    );
    spec.render = render;
    spec.simplify = Some(simplify);
    spec.assumptions = vec![
        "an execution is a run of the reference interpreter: an intrinsic assigns oracle-chosen values to its declared written scalars; an intrinsic with undeclared effects writes nothing; a Branch is a call that returns with every defined scalar clobbered (values only: the callee's instructions are not instructions of the function and do not become last writers)".into(),
        "read and written scalars are taken from the operands by the harness: an assignment reads the scalars of its source, a store those of address and value, a load and a branch those of the address, an intrinsic its declared read expressions; nothing is asserted about the reads of an intrinsic that does not declare them".into(),
        "a scalar is identified by its name (the generator gives every name one width, as the lifters do)".into(),
        "the property bounds UD only from below (it contains the last writer): extra members of UD are accepted as long as DU mirrors them".into(),
        "the maps are keyed by the locations reachable from the entry; an executed location without an entry is a violation".into(),
    ];
    spec.floors = vec![
        ("nontrivial", 0.30),
        ("fn-loop", 0.30),
        ("exec-location-twice", 0.30),
        ("exec-multi-read-with-prior-writer", 0.30),
        ("exec-self-referential-with-prior-writer", 0.20),
        ("exec-same-scalar-twice", 0.20),
        ("exec-instr-reads-0", 0.20),
        ("exec-instr-reads-3+", 0.20),
        ("exec-guard-read-with-prior-writer", 0.10),
        ("exec-guard-reads-two-written-scalars", 0.02),
        ("exec-load-definition", 0.15),
        ("exec-intrinsic-writes-1", 0.08),
        ("exec-intrinsic-writes-several", 0.08),
        ("exec-use-of-multi-write-intrinsic", 0.06),
        ("exec-intrinsic-reads-several", 0.06),
        ("exec-intrinsic-undeclared-writes", 0.08),
        ("exec-intrinsic-undeclared-reads", 0.08),
        ("exec-branch-call-havoc", 0.05),
        ("fn-unreachable-block-feeds-live-one", 0.08),
    ];
    spec.case_timeout_s = 120;
    engine::main(spec)
}
