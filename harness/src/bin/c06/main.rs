//! C06 — function recovery reproduces sequential machine-code execution.
//!
//! Domain: generated machine-code PROGRAMS (x86, amd64, mips, mipsel, aarch64) of 3-60 items:
//! register ALU operations, loads / stores into a scratch window, forward / backward conditional
//! and unconditional direct branches, counted loops, an optional `jmp reg` dispatch resolved
//! through manual edges, terminators, never-executed junk after unconditional transfers; laid out
//! so that 64-byte translation windows end inside blocks, x86 instructions straddle byte 64, MIPS
//! branches sit in the last 8 bytes of a window, branch targets fall into the middle of blocks,
//! loops go back to the entry, the region ends right after the last instruction, x86 code is
//! unaligned, x86 branches land in the middle of an instruction whose immediate bytes are
//! instructions themselves (overlapping decodings).
//!
//! Oracle: the generator's ground truth (instruction boundaries, direct targets, the set R of
//! instructions reachable through direct branches) and a sequential stepper that lifts ONE step
//! unit at a time with `translate_block` and runs it with the reference IL interpreter.
//! Per-instruction semantics are deliberately shared by both sides; what is checked is discovery,
//! windows, instruction sharing, edge insertion, manual edges and `merge`.

mod exec;
mod prog;

use exec::{diff_states, fold, is_machine_scalar, make_unit, run_block, run_driver, run_ref, run_stepper, End, Trace, Unit, Watch};
use falcon::architecture::{self, Architecture, Endian};
use falcon::il;
use falcon::memory::{backing, MemoryPermissions};
use falcon::translator::{ManualEdge, Options};
use falcon::RC;
use fv::bv::Bv;
use fv::engine::{self, guard, Failure, Obs, Spec, Tier};
use fv::refil::{FnView, RefMem, RefState};
use fv::tape::{from_tape, Tape};
use proptest::strategy::Strategy;
use prog::{assemble, listing, shapes, Isa, Item, Program, Simple, ISAS, RET_ADDR, SCRATCH, SCRATCH_LEN, STACK};
use serde::{Deserialize, Serialize};
use std::collections::{BTreeMap, BTreeSet};

#[derive(Clone, Debug, Serialize, Deserialize)]
struct Case {
    isa: Isa,
    base: u64,
    items: Vec<Item>,
    /// the function address is the first instruction of this item
    entry_item: usize,
    /// the two targets of the dispatch
    disp_items: [usize; 2],
    /// bit k: a manual edge to dispatch target k is requested
    manual: u8,
    /// which target the dispatch register holds initially
    disp_choice: u8,
    /// call translate_function_extended (with empty options) even without manual edges
    extended: bool,
    /// bytes mapped after the last instruction
    tail: Vec<u8>,
    seed: u64,
    counter: u32,
    max_steps: usize,
    /// the image reaches the memory as several contiguous sections: cut points (raw draws, reduced
    /// modulo the image length), possibly in the middle of an instruction
    #[serde(default)]
    cuts: Vec<u32>,
}

// ---------------------------------------------------------------------------------------------
// generator

fn gen_simple(t: &mut Tape, isa: Isa) -> Simple {
    let len = isa.pool().len();
    let kind = t.weighted(&[8, 30, 20, 10, 12, 12, 8]) as u8;
    let rd = if t.chance(1, 20) { (len - 1) as u8 } else { t.below(len - 1) as u8 };
    let imm = match t.below(4) {
        0 => t.below(16) as u32,
        1 => 0xffff_ffffu32.wrapping_sub(t.below(16) as u32),
        _ => t.raw(),
    };
    Simple { kind, op: t.below(16) as u8, rd, rs: t.below(len) as u8, rt: t.below(len) as u8, imm, wide: t.chance(1, 2), form: t.below(8) as u8 }
}

fn gen_slot(t: &mut Tape, isa: Isa) -> Simple {
    if t.chance(2, 3) {
        gen_simple(t, isa)
    } else {
        Simple::nop()
    }
}

/// x86 / amd64: an instruction whose immediate bytes are instructions (see `Item::Overlap`)
fn gen_overlap(t: &mut Tape, isa: Isa) -> Item {
    // short encodings, so that several fit into an immediate
    let small = |t: &mut Tape| {
        let mut s = gen_simple(t, isa);
        if s.kind == 3 {
            s.kind = 6;
        }
        if s.kind == 2 {
            s.form &= !1;
        }
        s
    };
    let outer = gen_simple(t, isa);
    let np = t.range(1, 3);
    let payload: Vec<Simple> = (0..np).map(|_| small(t)).collect();
    let end = t.weighted(&[36, 12, 16, 18, 18]) as u8;
    let cc = t.below(14) as u8;
    let follow: Vec<Simple> = if end == 4 { (0..2).map(|_| small(t)).collect() } else { Vec::new() };
    Item::Overlap { outer, payload, end, cc, follow }
}

fn draw_run(t: &mut Tape, isa: Isa) -> usize {
    match t.weighted(&[15, 30, 20, 35]) {
        0 => 0,
        1 => t.range(1, 3),
        2 => t.range(4, 10),
        _ => {
            if isa.is_x86() {
                t.range(14, 26)
            } else {
                t.range(11, 18)
            }
        }
    }
}

fn decode(t: &mut Tape) -> Case {
    let isa = ISAS[t.below(5)];
    let base = *t.pick(isa.bases());
    let n = match t.weighted(&[35, 40, 25]) {
        0 => t.range(3, 8),
        1 => t.range(9, 24),
        _ => t.range(25, 60),
    };
    let has_dispatch = t.chance(4, 10);
    let mut placed_dispatch = false;
    let mut items: Vec<Item> = Vec::new();
    let mut run_left = draw_run(t, isa);
    while items.len() + 1 < n {
        if run_left > 0 {
            if isa.is_x86() && t.chance(1, 8) {
                items.push(gen_overlap(t, isa));
            } else if isa.is_x86() && t.chance(1, 12) {
                items.push(Item::Rep { count: t.below(4) as u8, op: t.below(4) as u8 });
            } else {
                items.push(Item::S(gen_simple(t, isa)));
            }
            run_left -= 1;
            continue;
        }
        let len = isa.pool().len();
        let mut junk_after = false;
        match t.weighted(&[40, 18, 20, 6, 8, 12]) {
            0 => {
                let (cc, ra, rb) = (t.below(20) as u8, t.below(len) as u8, t.below(len) as u8);
                let (into_slot, near) = (t.chance(1, 50), t.chance(1, 3));
                let mut slot = gen_slot(t, isa);
                if t.chance(1, 4) {
                    // MIPS: the delay slot rewrites the TESTED register, around the values where the
                    // test flips (the branch is decided on the value from before the slot).  The
                    // instruction in front brings the register to 0 / 1 / -1.
                    let pre = match t.below(3) {
                        0 => Simple { kind: 2, op: 1, rd: ra, rs: ra, imm: t.below(2) as u32, ..Simple::default() },
                        1 => Simple { kind: 6, op: 2, rd: ra, rt: ra, imm: 30, ..Simple::default() },
                        _ => Simple { kind: 2, op: 4, rd: ra, rs: ra, imm: t.raw() & 0xffff, ..Simple::default() },
                    };
                    items.push(Item::S(pre));
                    slot = Simple { kind: 2, op: [0u8, 3, 2, 1][t.below(4)], rd: ra, rs: ra, imm: [1u32, 0xffff, 0][t.below(3)], ..Simple::default() };
                }
                items.push(Item::Cond { cc, ra, rb, target: 0, into_slot, near, slot });
            }
            1 => {
                items.push(Item::Jmp { target: 0, into_slot: t.chance(1, 50), near: t.chance(1, 3), abs: t.chance(1, 2), slot: gen_slot(t, isa) });
                junk_after = true;
            }
            2 => items.push(Item::Loop { target: 0, into_slot: t.chance(1, 50), near: t.chance(1, 3), slot: gen_slot(t, isa) }),
            3 => {
                items.push(Item::Ret { slot: gen_slot(t, isa) });
                junk_after = true;
            }
            4 => {
                if has_dispatch {
                    items.push(Item::SetDisp { which: t.below(2) as u8 });
                } else {
                    items.push(Item::S(gen_simple(t, isa)));
                }
            }
            _ => {
                if has_dispatch && !placed_dispatch {
                    placed_dispatch = true;
                    items.push(Item::Dispatch { slot: gen_slot(t, isa) });
                    junk_after = true;
                } else {
                    items.push(Item::Cond { cc: t.below(20) as u8, ra: t.below(len) as u8, rb: t.below(len) as u8, target: 0, into_slot: false, near: t.chance(1, 3), slot: gen_slot(t, isa) });
                }
            }
        }
        if junk_after && items.len() + 2 < n && t.chance(1, 3) {
            let k = if isa.is_x86() { t.range(1, 7) } else { 4 };
            items.push(Item::Junk { bytes: (0..k).map(|_| t.raw() as u8).collect() });
        }
        run_left = draw_run(t, isa);
    }
    if has_dispatch && !placed_dispatch && t.chance(2, 3) {
        // the dispatch ends the straight-line code; the final terminator is reached through it
        placed_dispatch = true;
        if t.chance(1, 2) {
            items.push(Item::SetDisp { which: t.below(2) as u8 });
        }
        items.push(Item::Dispatch { slot: gen_slot(t, isa) });
    }
    items.push(Item::Ret { slot: gen_slot(t, isa) });
    let n = items.len();
    let entry_item = if t.chance(1, 6) { t.below(n) } else { 0 };
    // targets
    for i in 0..n {
        if items[i].target().is_none() {
            continue;
        }
        let is_loop = matches!(items[i], Item::Loop { .. });
        let choice = if is_loop { t.weighted(&[10, 60, 10, 12, 4, 4]) } else { t.weighted(&[40, 22, 12, 12, 8, 6]) };
        let tgt = match choice {
            0 => {
                if i + 1 < n {
                    i + 1 + t.below(n - i - 1)
                } else {
                    t.below(1);
                    i
                }
            }
            1 => t.below(i + 1),
            2 => t.below(n),
            3 => entry_item,
            4 => i + 1,
            _ => i,
        };
        *items[i].target_mut().unwrap() = tgt.min(n - 1);
    }
    // x86 / amd64: direct branches into the middle of an instruction (a branch to an
    // overlapping-decodings item lands on the first byte of its immediate)
    let overlaps: Vec<usize> = (0..n).filter(|i| matches!(items[*i], Item::Overlap { .. })).collect();
    if isa.is_x86() && !overlaps.is_empty() {
        for i in 0..n {
            if items[i].target().is_some() && t.chance(1, 3) {
                *items[i].target_mut().unwrap() = *t.pick(&overlaps);
            }
        }
    }
    let disp_items = [t.below(n), t.below(n)];
    let manual = if placed_dispatch { [3u8, 3, 3, 1, 2, 0][t.below(6)] } else { 0 };
    let tail_len = match t.weighted(&[50, 20, 30]) {
        0 => 0,
        1 => t.range(1, 3),
        _ => t.range(4, 16),
    };
    let tail = (0..tail_len).map(|_| t.raw() as u8).collect();
    Case {
        isa,
        base,
        items,
        entry_item,
        disp_items,
        manual,
        disp_choice: t.below(2) as u8,
        extended: t.chance(1, 2),
        tail,
        seed: t.u64(),
        counter: t.below(6) as u32,
        max_steps: [200usize, 60, 2000][t.weighted(&[50, 25, 25])],
        cuts: (0..t.weighted(&[60, 25, 15])).map(|_| t.raw()).collect(),
    }
}

// ---------------------------------------------------------------------------------------------
// check

fn arch_of(isa: Isa) -> RC<dyn Architecture> {
    match isa {
        Isa::X86 => RC::new(architecture::X86::new()),
        Isa::Amd64 => RC::new(architecture::Amd64::new()),
        Isa::Mips => RC::new(architecture::Mips::new()),
        Isa::Mipsel => RC::new(architecture::Mipsel::new()),
        Isa::A64 => RC::new(architecture::AArch64::new()),
    }
}

fn mix(seed: u64, k: u64) -> u64 {
    let mut z = seed ^ k.wrapping_mul(0x9E37_79B9_7F4A_7C15);
    z = (z ^ (z >> 30)).wrapping_mul(0xBF58_476D_1CE4_E5B9);
    z = (z ^ (z >> 27)).wrapping_mul(0x94D0_49BB_1331_11EB);
    z ^ (z >> 31)
}

fn program_of(c: &Case) -> Program {
    assemble(c.isa, c.base, &c.items, c.entry_item, c.disp_items, &c.tail)
}

fn initial_state(c: &Case, p: &Program, names: &BTreeMap<String, usize>) -> RefState {
    let mut st = RefState { scalars: BTreeMap::new(), mem: RefMem::new(c.isa.big_endian()) };
    for (n, w) in names {
        let v = mix(c.seed, engine::fingerprint(n));
        let v = if *w >= 64 { v as u128 } else { (v as u128) & ((1u128 << *w) - 1) };
        st.scalars.insert(n.clone(), Bv::from_u128(v, *w));
    }
    let wb = c.isa.word_bits();
    let (base, cnt, disp, sp_or_link) = c.isa.role_names();
    st.scalars.insert(base.into(), Bv::from_u64(SCRATCH, wb));
    st.scalars.insert(cnt.into(), Bv::from_u64(c.counter as u64, wb));
    st.scalars.insert(disp.into(), Bv::from_u64(p.disp_targets[c.disp_choice as usize & 1], wb));
    for i in 0..SCRATCH_LEN {
        st.mem.bytes.insert(SCRATCH + i, mix(c.seed, 0x1000 + i) as u8);
    }
    if c.isa.is_x86() {
        // flat memory: the string instructions address their destination through es
        if let Some(w) = names.get("es_base") {
            st.scalars.insert("es_base".into(), Bv::from_u64(0, *w));
        }
        st.scalars.insert(sp_or_link.into(), Bv::from_u64(STACK, wb));
        let ret = RET_ADDR.to_le_bytes();
        for i in 0..16u64 {
            st.mem.bytes.insert(STACK + i, if (i as usize) < wb / 8 { ret[i as usize] } else { mix(c.seed, 0x2000 + i) as u8 });
        }
    } else {
        st.scalars.insert(sp_or_link.into(), Bv::from_u64(RET_ADDR, wb));
    }
    st
}

fn scalars_of_expr(e: &il::Expression, out: &mut BTreeMap<String, usize>) {
    for s in e.scalars() {
        if is_machine_scalar(s.name()) {
            out.insert(s.name().to_string(), s.bits());
        }
    }
}

fn compare(s: &Trace, f: &Trace) -> Option<(String, usize, String)> {
    let n = s.evs.len().min(f.evs.len());
    for k in 0..n {
        if s.evs[k].0 != f.evs[k].0 {
            return Some(("address-sequence".into(), k, format!("event {}: the machine code visits 0x{:x}, the recovered function 0x{:x}", k, s.evs[k].0, f.evs[k].0)));
        }
        if s.evs[k].1 != f.evs[k].1 {
            return Some(("state".into(), k, format!("event {} at 0x{:x}: states differ", k, s.evs[k].0)));
        }
    }
    let lens = format!("machine code: {} events then {:?}; recovered function: {} events then {:?} {}", s.evs.len(), s.end, f.evs.len(), f.end, f.note);
    match (&s.end, &f.end) {
        (_, End::Fault(x)) => Some((format!("fault:{}", x), n, lens)),
        (End::Exit(a), End::Exit(b)) => {
            if s.evs.len() != f.evs.len() || a != b {
                Some(("end".into(), n, lens))
            } else if s.final_digest != f.final_digest {
                Some(("final-state".into(), n, lens))
            } else {
                None
            }
        }
        (End::Cap, End::Cap) => None,
        // both spin without executing anything (a cycle of direct branches)
        (End::Stall, End::Stall) => {
            if s.evs.len() != f.evs.len() {
                Some(("end".into(), n, lens))
            } else {
                None
            }
        }
        _ => Some(("end".into(), n, lens)),
    }
}

fn check(c: &Case, obs: &mut Obs) -> Result<(), Failure> {
    let isa = c.isa;
    let tag = isa.name();
    let p = program_of(c);
    let region_end = p.base + p.bytes.len() as u64;
    if RET_ADDR >= p.base && RET_ADDR < region_end {
        obs.exclude("return-address-inside-program");
        return Ok(());
    }
    obs.class(&format!("isa:{}", tag));

    // ---- ground truth
    let entry_k = p.by_addr[&p.entry];
    let r_units = p.reach(&[entry_k]);
    let r_addrs = p.covered(&r_units);
    let mut manual: Vec<(u64, u64)> = Vec::new();
    if let Some(h) = p.disp_addr {
        for k in 0..2 {
            if c.manual >> k & 1 == 1 {
                manual.push((h, p.disp_targets[k]));
            }
        }
    }
    let mut starts = vec![entry_k];
    for (h, t) in &manual {
        starts.push(p.by_addr[h]);
        starts.push(p.by_addr[t]);
    }
    let l_units = p.reach(&starts);
    let lifted = p.covered(&l_units);
    let manual_tails: BTreeSet<u64> = manual.iter().map(|m| m.1).collect();
    let extra: Vec<u64> = manual.iter().flat_map(|(h, t)| [*h, *t]).collect();
    let sh = shapes(&p, &extra);

    // ---- the step units (shared per-instruction lifting)
    let arch = arch_of(isa);
    let translator = arch.translator();
    let mut units: BTreeMap<u64, Unit> = BTreeMap::new();
    let mut names: BTreeMap<String, usize> = BTreeMap::new();
    for k in &l_units {
        let a = p.insns[*k].addr;
        let bytes = p.unit_bytes(*k);
        let btr = match guard(|| translator.translate_block(&bytes, a, &Options::default())) {
            Ok(Ok(b)) => b,
            Ok(Err(_)) => {
                obs.exclude("unit-not-liftable");
                obs.class(&format!("excluded:unit-not-liftable:{}", tag));
                return Ok(());
            }
            Err(_) => {
                obs.exclude("unit-lift-panics");
                return Ok(());
            }
        };
        for (_, cfg) in btr.instructions() {
            for b in cfg.blocks() {
                for i in b.instructions() {
                    if let Some(ss) = i.scalars() {
                        for s in ss {
                            if is_machine_scalar(s.name()) {
                                names.insert(s.name().to_string(), s.bits());
                            }
                        }
                    }
                }
            }
            for e in cfg.edges() {
                if let Some(cond) = e.condition() {
                    scalars_of_expr(cond, &mut names);
                }
            }
        }
        for (_, cond) in btr.successors() {
            if let Some(cond) = cond {
                scalars_of_expr(cond, &mut names);
            }
        }
        match make_unit(&p, *k, &btr) {
            Ok(u) => {
                units.insert(a, u);
            }
            Err(e) => fv::fail!(format!("C06|{}|stepper|unit-shape", tag), "{}\n{}", e, listing(&p)),
        }
    }
    // lifted native instructions whose own lifting holds no IL instruction
    let no_il_addrs: BTreeSet<u64> = units.iter().filter(|(_, u)| u.il_instrs[0] == 0).map(|(a, _)| *a).collect();
    let init = initial_state(c, &p, &names);
    let watch = Watch { names: init.scalars.iter().map(|(n, v)| (n.clone(), v.w)).collect(), mem: init.mem.bytes.keys().copied().collect() };

    // ---- the sequential execution
    let st = run_stepper(&p, &units, &init, &lifted, &watch, c.max_steps, None);
    if let End::Fault(f) = &st.end {
        // The generator knows where execution can continue after every direct branch and every
        // plain instruction it emitted.  A step unit (one instruction, lifted alone with
        // `translate_block`) that offers no enabled successor there, two different ones, or one
        // that is not a ground-truth successor contradicts the machine code itself: the defect is in
        // what `translate_block` returns (which `translate_function` is built from), not a
        // limitation of the stepper.  Every other stepper fault (pc leaves the lifted code, unmapped
        // load, undefined scalar in a guard, ...) stays an exclusion.
        if let Some((pc, kind, truth)) = &st.contradiction {
            let what = match kind {
                prog::Kind::Plain => "plain-instruction",
                _ => "direct-branch",
            };
            let text = p.by_addr.get(pc).map(|k| p.insns[*k].text.clone()).unwrap_or_default();
            fv::fail!(
                format!("C06|{}|stepper|{}-at-{}", tag, f, what),
                "the step unit at 0x{:x} ({}), lifted alone with translate_block, ends with `{}` ({}); the machine code continues at one of {:x?}\n{}",
                pc,
                text,
                f,
                st.note,
                truth,
                listing(&p)
            );
        }
        obs.exclude(&format!("stepper-fault:{}", f.split(':').next().unwrap_or("")));
        return Ok(());
    }

    // ---- classes
    let mut shape_bits = 0u32;
    let mut shape = |obs: &mut Obs, on: bool, bit: u32, name: &str| {
        if on {
            shape_bits |= 1 << bit;
            obs.class(name);
            obs.class(&format!("{}:{}", tag, name));
        }
    };
    shape(obs, sh.window_cut, 0, "window-cut");
    shape(obs, sh.straddle, 1, "straddle");
    shape(obs, sh.cut_on_boundary, 2, "cut-on-boundary");
    shape(obs, sh.mips_last8, 3, "branch-in-last-8-bytes");
    shape(obs, sh.mid_block_target, 4, "mid-block-target");
    shape(obs, sh.backward, 5, "backward-branch");
    shape(obs, sh.entry_loop, 6, "entry-loop");
    shape(obs, !manual.is_empty(), 7, "manual-edges");
    shape(obs, sh.target_fallthrough, 8, "target-is-fallthrough");
    shape(obs, c.tail.is_empty(), 9, "region-ends-after-last-instruction");
    shape(obs, isa.is_x86() && c.base & 3 != 0, 10, "unaligned-base");
    shape(obs, c.entry_item != 0, 11, "entry-not-lowest");
    shape(obs, c.items.iter().any(|i| matches!(i, Item::Junk { .. })), 12, "junk-island");
    shape(obs, p.disp_addr.is_some(), 13, "dispatch");
    shape(obs, sh.long_block, 14, "block-over-56-bytes");
    shape(obs, sh.target_delay_slot, 15, "target-is-delay-slot");
    // overlapping decodings: an instruction reachable through direct branches starts inside
    // another reachable instruction
    let overlapping = r_units.iter().any(|k| p.insns[*k].inner && r_units.contains(&p.item_first[p.insns[*k].item]));
    shape(obs, overlapping, 16, "overlapping-decode");
    if overlapping && r_units.iter().any(|k| p.insns[*k].inner && p.insns[*k].kind != prog::Kind::Plain) {
        obs.class("overlapping-decode:inner-transfer");
    }
    obs.count("native-events", st.evs.len() as u64);
    obs.class(match &st.end {
        End::Exit(_) => "end:exit",
        End::Cap => "end:cap",
        End::Stall => "end:stall",
        End::Fault(_) => "end:fault",
    });
    if st.taken > 0 {
        obs.class("taken-branch");
    }
    for cl in &st.dyn_classes {
        obs.class(cl);
    }
    if let Some(h) = p.disp_addr {
        if st.evs.iter().any(|e| e.0 == h) {
            obs.class("dispatch-executed");
            if !manual.is_empty() {
                obs.class("manual-head-executed");
            }
        }
    }

    // a branch that lands on a delay slot: the slot instruction is shared between the block of
    // its branch and the block that starts at it
    let slot_sig = format!("C06|{}|overlap|target-is-delay-slot|two-unconditional-edges", if isa.is_mips() { "mips" } else { tag });
    if sh.target_delay_slot && obs.known(&slot_sig) {
        obs.exclude(&format!("known_finding:{}", slot_sig));
        return Ok(());
    }

    // ---- the entry window as one graph (BlockTranslationResult::blockify)
    // `translate_block` documents one graph per instruction "which represents the semantics of this
    // block", and `blockify` returns "a single ControlFlowGraph for this block": running it must
    // visit the block's instructions in order, exactly like the sequential execution does until the
    // block ends (a block holds no taken branch except its last instruction).
    {
        let wlen = (region_end - p.entry).min(64) as usize;
        let off = (p.entry - p.base) as usize;
        let window = &p.bytes[off..off + wlen];
        let btr = guard(|| translator.translate_block(window, p.entry, &Options::default()));
        // a rep-prefixed instruction executes a number of times that depends on the state (also
        // zero times): "visits the block's instructions in order" says nothing about it
        let has_rep = match &btr {
            Ok(Ok(b)) => b.instructions().iter().any(|(a, _)| p.by_addr.get(a).map(|k| p.insns[*k].text.starts_with("rep")).unwrap_or(false)),
            _ => false,
        };
        if has_rep {
            obs.class("blockify-skipped:rep-instruction");
        } else if let Ok(Ok(btr)) = btr {
            let expected: Vec<u64> = btr.instructions().iter().filter(|(_, g)| g.blocks().iter().any(|b| !b.is_empty())).map(|(a, _)| *a).collect();
            match guard(|| btr.blockify()) {
                Ok(Ok(g)) => {
                    let bv = FnView::of_cfg(&g);
                    let bt = run_block(&bv, &init, &watch, expected.len() + 1);
                    let n = expected.len().min(st.evs.len());
                    let got: Vec<u64> = bt.evs.iter().map(|e| e.0).collect();
                    let dumpb = || format!("block at 0x{:x} ({} bytes)\n{}\nblockify():\n{}", p.entry, wlen, listing(&p), g);
                    if got != expected {
                        fv::fail!(format!("C06|{}|blockify|address-sequence", tag), "running blockify() visits {:x?}, the block's instructions are {:x?} (ended {:?} {})\n{}", got, expected, bt.end, bt.note, dumpb());
                    }
                    for k in 0..n {
                        if bt.evs[k].0 != st.evs[k].0 {
                            // the sequential execution left the block early (cannot happen: same bytes)
                            break;
                        }
                        if bt.evs[k].1 != st.evs[k].1 {
                            fv::fail!(format!("C06|{}|blockify|state", tag), "running blockify(): the state at event {} (0x{:x}) differs from the sequential execution\n{}", k, bt.evs[k].0, dumpb());
                        }
                    }
                    obs.class("blockify-compared");
                }
                Ok(Err(e)) => fv::fail!(format!("C06|{}|blockify|err", tag), "blockify() of the block at 0x{:x} returned Err: {}\n{}", p.entry, e, listing(&p)),
                Err(pi) => fv::fail!(format!("C06|{}|blockify|{}", tag, pi.sig()), "blockify() panicked: {} ({}:{})\n{}", pi.msg, pi.file, pi.line, listing(&p)),
            }
        }
    }

    // ---- recover the function
    let endian = if isa.big_endian() { Endian::Big } else { Endian::Little };
    let mut mem = backing::Memory::new(endian);
    {
        // one section, or up to three contiguous ones (a loader maps segments side by side)
        let n = p.bytes.len();
        let mut cuts: Vec<usize> = c.cuts.iter().map(|r| *r as usize % n.max(1)).filter(|k| *k > 0).collect();
        cuts.sort();
        cuts.dedup();
        if !cuts.is_empty() {
            obs.class("image-in-several-sections");
        }
        let mut start = 0usize;
        for k in cuts.into_iter().chain(std::iter::once(n)) {
            if k > start {
                mem.set_memory(p.base + start as u64, p.bytes[start..k].to_vec(), MemoryPermissions::READ | MemoryPermissions::EXECUTE);
            }
            start = k;
        }
    }
    let mut options = Options::new();
    let disp_expr = p.disp_addr.and_then(|h| units.get(&h)).and_then(|u| u.branch_expr.clone());
    for (h, t) in &manual {
        let Some(e) = &disp_expr else {
            fv::fail!(format!("C06|{}|stepper|dispatch-without-branch", tag), "the dispatch at 0x{:x} lifts to no Branch operation\n{}", h, listing(&p));
        };
        let cond = il::Expression::cmpeq(e.clone(), il::expr_const(*t, e.bits())).map_err(|x| Failure::new("C06|harness|manual-condition", x.to_string()))?;
        options.add_manual_edge(ManualEdge::new(*h, *t, Some(cond)));
    }
    let use_extended = !manual.is_empty() || c.extended;
    let how = if use_extended { "translate_function_extended" } else { "translate_function" };
    let res = guard(|| if use_extended { translator.translate_function_extended(&mem, p.entry, &options) } else { translator.translate_function(&mem, p.entry) });
    let function = match res {
        Ok(Ok(f)) => f,
        Ok(Err(e)) => {
            let es = e.to_string();
            let kind = if es.contains("delay slot") {
                "delay-slot"
            } else if es.contains("Unhandled") {
                "unhandled-instruction"
            } else if es.contains("isassembl") {
                "disassembly"
            } else {
                "other"
            };
            fv::fail!(format!("C06|{}|translate|err|{}", tag, kind), "{} returned Err: {}\nshapes {:?}\n{}", how, es, sh, listing(&p));
        }
        Err(pi) => fv::fail!(format!("C06|{}|translate|{}", tag, pi.sig()), "{} panicked: {} ({}:{})\nshapes {:?}\n{}", how, pi.msg, pi.file, pi.line, sh, listing(&p)),
    };

    // ---- structure
    let view = FnView::of(&function);
    let dump = || format!("shapes {:?}\nmanual edges {:x?}\n{}\nrecovered function:\n{}", sh, manual, listing(&p), function.control_flow_graph());
    if function.address() != p.entry {
        fv::fail!(format!("C06|{}|structure|function-address", tag), "function.address() = 0x{:x}, lifted at 0x{:x}", function.address(), p.entry);
    }
    let cfg = function.control_flow_graph();
    let Some(entry_block) = cfg.entry() else {
        fv::fail!(format!("C06|{}|structure|no-entry", tag), "the recovered function has no entry\n{}", dump());
    };
    if cfg.block(entry_block).is_err() {
        fv::fail!(format!("C06|{}|structure|entry-names-missing-block", tag), "entry {} is not a block\n{}", entry_block, dump());
    }
    for e in cfg.edges() {
        if cfg.block(e.head()).is_err() || cfg.block(e.tail()).is_err() {
            fv::fail!(format!("C06|{}|structure|edge-names-missing-block", tag), "edge {} -> {} names a missing block\n{}", e.head(), e.tail(), dump());
        }
    }
    if let Some(x) = cfg.exit() {
        if cfg.block(x).is_err() {
            fv::fail!(format!("C06|{}|structure|exit-names-missing-block", tag), "exit {} is not a block\n{}", x, dump());
        }
    }
    // Where every native instruction occurs.  Ground truth per reachable instruction: the IL of
    // its own lifting (n IL instructions spread over nb IL blocks; the two halves A / A+1 of a MIPS
    // branch count separately, and the deferred half A+1 of a direct MIPS branch is empty by
    // design).  "Appears in exactly one block" is decided as: all n IL instructions are there, none
    // twice, and they sit in no more blocks than the instruction's own graph has (one block for the
    // ordinary single-block instruction).  A native instruction whose lifting holds NO IL
    // instruction at all appears in no block: the x86 and MIPS lifters emit a placeholder nop for
    // direct branches precisely so that there is an instruction at that address; where a lifter
    // does not, the clause is violated (signature ...|empty-instruction-graph).
    let mut occ: BTreeMap<u64, (usize, BTreeSet<usize>)> = BTreeMap::new();
    for (b, is) in &view.blocks {
        for i in is {
            if let Some(a) = i.address {
                let e = occ.entry(a).or_default();
                e.0 += 1;
                e.1.insert(*b);
            }
        }
    }
    let mut expect: BTreeMap<u64, (usize, usize, usize)> = BTreeMap::new();
    for k in &r_units {
        let u = &units[&p.insns[*k].addr];
        for (j, (raw, _)) in u.graphs.iter().enumerate() {
            let native = p.by_addr.get(&fold(isa, *raw)).copied().unwrap_or(*k);
            expect.insert(*raw, (u.il_instrs[j], u.il_blocks[j], native));
        }
    }
    let empty_sig = format!("C06|{}|structure|reachable-instruction-in-no-block|empty-instruction-graph", tag);
    let mut no_il = 0u64;
    for (raw, (n, nb, native)) in &expect {
        let text = &p.insns[*native].text;
        if *n == 0 {
            if p.by_addr.contains_key(raw) {
                if !obs.known(&empty_sig) {
                    fv::fail!(empty_sig, "the instruction at 0x{:x} ({}) is reachable through direct branches but no block of the recovered function holds an instruction with its address: its own lifting is an empty graph\n{}", raw, text, dump());
                }
                no_il += 1;
            }
            continue;
        }
        let (got, blocks) = occ.get(raw).cloned().unwrap_or_default();
        if got == 0 {
            fv::fail!(format!("C06|{}|structure|reachable-instruction-in-no-block", tag), "the instruction at 0x{:x} ({}) is reachable through direct branches but occurs in no block\n{}", raw, text, dump());
        }
        if blocks.len() > *nb {
            fv::fail!(format!("C06|{}|structure|instruction-in-several-blocks", tag), "the instruction at 0x{:x} ({}) lifts to {} IL block(s) but occurs in blocks {:?}\n{}", raw, text, nb, blocks, dump());
        }
        if got > *n {
            fv::fail!(format!("C06|{}|structure|instruction-duplicated", tag), "the instruction at 0x{:x} ({}) lifts to {} IL instruction(s), the recovered function holds {} with its address\n{}", raw, text, n, got, dump());
        }
        if got < *n {
            fv::fail!(format!("C06|{}|structure|instruction-partly-missing", tag), "the instruction at 0x{:x} ({}) lifts to {} IL instruction(s), the recovered function holds only {} with its address\n{}", raw, text, n, got, dump());
        }
    }
    obs.count("reachable-instructions", r_addrs.len() as u64);
    obs.count("reachable-instructions-without-il", no_il);
    if no_il > 0 {
        // tolerated as a known finding: such instructions are events on neither side below
        obs.exclude(&format!("known_finding:{}", empty_sig));
    }
    // The entry block is the function address: its first instruction carries that address.  (When
    // the function's first native instruction lifts to no IL instruction - the known finding above -
    // the entry block has no such instruction to show; the behavioural comparison below still
    // requires the executions to start identically.)
    let entry_has_il = expect.get(&p.entry).map(|e| e.0 > 0).unwrap_or(false);
    if entry_has_il {
        let entry_first = view.blocks[&entry_block].first().and_then(|i| i.address);
        if entry_first != Some(p.entry) {
            fv::fail!(format!("C06|{}|structure|entry-block-not-function-address", tag), "the entry block {} starts with {:x?}, the function address is 0x{:x}\n{}", entry_block, entry_first, p.entry, dump());
        }
    } else {
        obs.class("entry-instruction-without-il");
    }
    // manual tails lifted and connected
    for (h, t) in &manual {
        let heads: BTreeSet<usize> = view.blocks.iter().filter(|(_, is)| is.last().map(|i| i.address.map(|a| fold(isa, a)) == Some(*h) && matches!(i.op, il::Operation::Branch { .. })).unwrap_or(false)).map(|(b, _)| *b).collect();
        let tails: BTreeSet<usize> = view.blocks.iter().filter(|(_, is)| is.first().and_then(|i| i.address) == Some(*t)).map(|(b, _)| *b).collect();
        if heads.is_empty() {
            fv::fail!(format!("C06|{}|manual|head-not-a-block-end", tag), "no block ends with the Branch of the manual head 0x{:x}\n{}", h, dump());
        }
        if no_il_addrs.contains(t) {
            // the tail is a direct branch: its block holds no instruction that could identify it
            obs.exclude("manual-tail-check:tail-without-il");
            continue;
        }
        if tails.is_empty() {
            fv::fail!(format!("C06|{}|manual|tail-not-lifted", tag), "no block starts at the manual tail 0x{:x}\n{}", t, dump());
        }
        if !view.edges.iter().any(|e| heads.contains(&e.head) && tails.contains(&e.tail)) {
            fv::fail!(format!("C06|{}|manual|tail-not-connected", tag), "no edge from the block ending at 0x{:x} to the block starting at 0x{:x}\n{}", h, t, dump());
        }
    }

    // ---- behaviour
    let rf = run_ref(isa, &view, &init, &lifted, &no_il_addrs, &manual_tails, &watch, c.max_steps, None);
    if st.branch_to_no_il && rf.end == End::Fault("branch-target-has-no-il".into()) {
        // an indirect branch lands on a lifted direct branch, for which no manual edge was requested:
        // falcon's IL has no location for it (direct branches are edges, not instructions)
        obs.exclude("behaviour:indirect-branch-to-instruction-without-il");
        return Ok(());
    }
    if let Some((kind, k, msg)) = compare(&st, &rf) {
        let s2 = run_stepper(&p, &units, &init, &lifted, &watch, c.max_steps, Some(k));
        let r2 = run_ref(isa, &view, &init, &lifted, &no_il_addrs, &manual_tails, &watch, c.max_steps, Some(k));
        let d = match (s2.snapshot.or(s2.final_state), r2.snapshot.or(r2.final_state)) {
            (Some(a), Some(b)) => diff_states(&a, &b, &watch),
            _ => String::new(),
        };
        let sig = if sh.target_delay_slot && kind.starts_with("fault:two-edges") { slot_sig.clone() } else { format!("C06|{}|reference-run|{}", tag, kind) };
        fv::fail!(sig, "{}\n(machine code vs recovered function: {})\ntrace tail {:x?}\n{}", msg, d, &st.evs.iter().map(|e| e.0).collect::<Vec<_>>()[k.saturating_sub(6)..(k + 1).min(st.evs.len())], dump());
    }
    // `Driver::step` continues a Branch at the IL instruction that carries the target address and
    // knows nothing of manual edges; it has nowhere to go when the target holds no IL
    let mut driver_blind = st.branch_to_no_il;
    if driver_blind {
        obs.exclude("driver-run:indirect-branch-to-instruction-without-il");
    }
    // A Branch into a native instruction whose graph has several blocks, after `merge` moved the
    // head of that graph into a block with a higher index than the rest of it: `Driver::step`
    // (`from_address`: "the first Instruction with the given address") lands inside the instruction.
    // (the defect site is merge + from_address, not a lifter: the signature carries no ISA)
    let inside_sig = "C06|driver-run|branch-lands-inside-multi-block-instruction".to_string();
    if rf.first_instruction_rule_differs && obs.known(&inside_sig) {
        obs.exclude(&format!("known_finding:{}", inside_sig));
        driver_blind = true;
    }
    let dr = run_driver(isa, &function, arch.clone(), &init, &lifted, &watch, c.max_steps, None);
    if let (false, Some((kind, k, msg))) = (driver_blind, compare(&st, &dr)) {
        let s2 = run_stepper(&p, &units, &init, &lifted, &watch, c.max_steps, Some(k));
        let d2 = run_driver(isa, &function, arch, &init, &lifted, &watch, c.max_steps, Some(k));
        let d = match (s2.snapshot.or(s2.final_state), d2.snapshot.or(d2.final_state)) {
            (Some(a), Some(b)) => diff_states(&a, &b, &watch),
            _ => String::new(),
        };
        let sig = if rf.first_instruction_rule_differs { inside_sig } else { format!("C06|{}|driver-run|{}", tag, kind) };
        fv::fail!(sig, "{}\n(machine code vs Driver: {})\n{}", msg, d, dump());
    }

    // ---- non-trivial
    if view.blocks.len() >= 2 && st.taken >= 1 {
        let bucket = match p.insns.len() {
            0..=8 => 0,
            9..=24 => 1,
            _ => 2,
        };
        obs.nontrivial(&(isa, shape_bits, bucket));
        obs.class("nontrivial");
    }
    if obs.want_sample() {
        obs.sample(render(c));
    }
    Ok(())
}

fn render(c: &Case) -> String {
    let p = program_of(c);
    format!(
        "{} function at 0x{:x} (region 0x{:x}..0x{:x}, {} tail bytes), manual mask {}, dispatch targets {:x?} (register holds #{}), {}, counter {}, max {} steps\n{}",
        c.isa.name(),
        p.entry,
        p.base,
        p.base + p.bytes.len() as u64,
        c.tail.len(),
        c.manual,
        p.disp_targets,
        c.disp_choice,
        if c.extended { "extended" } else { "plain" },
        c.counter,
        c.max_steps,
        listing(&p)
    )
}

/// remove items[start..start+len] (never the final terminator) and re-point every index
fn without(c: &Case, start: usize, len: usize) -> Case {
    let n = c.items.len();
    let mut d = c.clone();
    d.items.drain(start..start + len);
    let last = n - len - 1;
    let fix = |x: usize| (if x >= start + len { x - len } else if x >= start { start } else { x }).min(last);
    for it in d.items.iter_mut() {
        if let Some(t) = it.target_mut() {
            *t = fix(*t);
        }
    }
    d.entry_item = fix(d.entry_item);
    d.disp_items = [fix(d.disp_items[0]), fix(d.disp_items[1])];
    d
}

/// Structural shrinker.  proptest's own shrinking of the 900-entry tape is switched off (it needs
/// thousands of re-lifts); every candidate here is strictly simpler in a well-founded order (fewer
/// items, then fewer non-default fields), most aggressive first.
fn simplify(c: &Case) -> Vec<Case> {
    let mut v = Vec::new();
    let n = c.items.len();
    if c.max_steps > 60 {
        let mut d = c.clone();
        d.max_steps = 60;
        v.push(d);
    }
    // drop chunks of items, large to small (never the final terminator)
    let mut size = (n - 1) / 2;
    while size >= 2 {
        let mut start = 0;
        while start + size <= n - 1 {
            v.push(without(c, start, size));
            start += size;
        }
        size /= 2;
    }
    for i in 0..n.saturating_sub(1) {
        v.push(without(c, i, 1));
    }
    // simpler items
    let nop = Simple::nop();
    for i in 0..n {
        match &c.items[i] {
            Item::S(s) if *s != nop => {
                let mut d = c.clone();
                d.items[i] = Item::S(nop.clone());
                v.push(d);
            }
            Item::SetDisp { .. } | Item::Rep { .. } => {
                let mut d = c.clone();
                d.items[i] = Item::S(nop.clone());
                v.push(d);
            }
            Item::Overlap { outer, payload, end, cc, follow } => {
                let mut d = c.clone();
                d.items[i] = Item::S(nop.clone());
                v.push(d);
                if *end != 0 || *cc != 0 || !follow.is_empty() {
                    let mut d = c.clone();
                    d.items[i] = Item::Overlap { outer: outer.clone(), payload: payload.clone(), end: 0, cc: 0, follow: Vec::new() };
                    v.push(d);
                }
                for j in 0..payload.len() {
                    let mut q = payload.clone();
                    q.remove(j);
                    let mut d = c.clone();
                    d.items[i] = Item::Overlap { outer: outer.clone(), payload: q, end: *end, cc: *cc, follow: follow.clone() };
                    v.push(d);
                }
                if *outer != nop {
                    let mut d = c.clone();
                    d.items[i] = Item::Overlap { outer: nop.clone(), payload: payload.clone(), end: *end, cc: *cc, follow: follow.clone() };
                    v.push(d);
                }
            }
            it if it.is_transfer() => {
                if i + 1 < n && !matches!(it, Item::Dispatch { .. }) {
                    // a transfer becomes a plain instruction
                    let mut d = c.clone();
                    d.items[i] = Item::S(nop.clone());
                    v.push(d);
                }
                let mut d = c.clone();
                if let Some(s) = d.items[i].slot_mut() {
                    if *s != nop {
                        *s = nop.clone();
                        v.push(d);
                    }
                }
                let mut d = c.clone();
                let mut changed = false;
                match &mut d.items[i] {
                    Item::Cond { into_slot, near, .. } | Item::Loop { into_slot, near, .. } => {
                        changed = *into_slot || *near;
                        *into_slot = false;
                        *near = false;
                    }
                    Item::Jmp { into_slot, near, abs, .. } => {
                        changed = *into_slot || *near || *abs;
                        *into_slot = false;
                        *near = false;
                        *abs = false;
                    }
                    _ => {}
                }
                if changed {
                    v.push(d);
                }
                if let Item::Cond { cc, ra, rb, .. } = it {
                    if *cc != 0 || *ra != 0 || *rb != 0 {
                        let mut d = c.clone();
                        if let Item::Cond { cc, ra, rb, .. } = &mut d.items[i] {
                            *cc = 0;
                            *ra = 0;
                            *rb = 0;
                        }
                        v.push(d);
                    }
                }
            }
            Item::S(_) | Item::Junk { .. } => {}
            _ => {}
        }
    }
    if !c.tail.is_empty() {
        let mut d = c.clone();
        d.tail.clear();
        v.push(d);
    }
    if c.entry_item != 0 {
        let mut d = c.clone();
        d.entry_item = 0;
        v.push(d);
    }
    if c.manual != 0 && c.manual != 3 {
        let mut d = c.clone();
        d.manual = 3;
        v.push(d);
    }
    if c.extended && c.manual == 0 {
        let mut d = c.clone();
        d.extended = false;
        v.push(d);
    }
    if c.base != c.isa.bases()[0] {
        let mut d = c.clone();
        d.base = c.isa.bases()[0];
        v.push(d);
    }
    if c.counter != 0 {
        let mut d = c.clone();
        d.counter = 0;
        v.push(d);
    }
    if c.disp_choice != 0 {
        let mut d = c.clone();
        d.disp_choice = 0;
        v.push(d);
    }
    if c.seed != 0 {
        let mut d = c.clone();
        d.seed = 0;
        v.push(d);
    }
    v
}

/// libFuzzer entry: the input bytes are the entropy tape (little-endian u32 words); same
/// generator, same oracle as the proptest tiers.
#[allow(dead_code)]
pub fn fuzz_bytes(data: &[u8]) {
    let tape = fv::tape::words_from_bytes(data, 1200);
    let case = decode(&mut Tape::new(&tape));
    engine::fuzz_one("C06", &case, &render, &check);
}

#[allow(dead_code)]
fn main() -> std::process::ExitCode {
    let mut spec = Spec::new(
        "C06",
        "machine-code programs of 3-60 items for x86/amd64/mips/mipsel/aarch64 (ALU, scratch loads/stores, forward/backward conditional and unconditional direct branches, counted loops, optional jmp-reg dispatch with manual edges, junk islands; x86/amd64: direct branches into the middle of an instruction whose immediate bytes are instructions, i.e. overlapping decodings, loop/loope/loopne/jecxz, rep-prefixed string instructions with counts 0-3; mips: beqz/bnez and delay slots that rewrite the tested register) recovered with translate_function[_extended] and compared, structurally against the generator's ground truth (every step unit's successors agree with the generator's direct targets and fall-throughs, a MIPS conditional branch continues where its test on the registers from BEFORE the delay slot says, every reachable instruction's IL present exactly once and in no more blocks than its own lifting has, entry block at the function address, no dangling edge/entry/exit, manual tails lifted and connected) and behaviourally (Driver and reference interpreter on the recovered function vs a sequential one-unit-at-a-time stepper, same random initial state, up to 2000 native steps: one event per executed native instruction, address and state digest; plus blockify() of the entry window vs the stepper); non-trivial = at least 2 blocks after merge and at least one taken branch in the execution; distinct = (ISA, set of layout shapes {window cut, straddle, cut on boundary, MIPS branch in last 8 bytes, mid-block target, backward, entry loop, manual edges, overlapping decode, ...}, instruction-count bucket)",
        Box::new(|_t: Tier| from_tape(1200, decode).no_shrink().boxed()),
        |t| t.pick(45_000, 1_500_000),
        check,
    );
    spec.render = render;
    spec.simplify = Some(simplify);
    spec.assumptions = vec![
        "per-instruction IL semantics are shared by both sides (C01-C03 check them); a program whose step units do not all lift in isolation is excluded".into(),
        "executions stop at the first Branch whose target lies outside the lifted code (the terminator's return address)".into(),
        "a Branch operation into the function continues at the head of the target instruction's graph (reference run) / where Driver::step puts it (Driver run)".into(),
        "MIPS: no branch in a delay slot; the delay slot of jr never writes the target register (C02|mips|jr|target-after-slot)".into(),
        "x86: es_base is 0 (flat memory); a rep-prefixed string instruction is one event per executed iteration and none when its count is zero, on both sides".into(),
        "PowerPC is not generated (its lifter has almost no branch forms)".into(),
    ];
    // 0.4-0.5 of the smallest fraction measured over seeds 1..5 (45 000 cases each), see the report
    spec.floors = vec![
        ("image-in-several-sections", 0.15),
        ("nontrivial", 0.25),
        ("taken-branch", 0.26),
        ("x86:straddle", 0.008),
        ("amd64:straddle", 0.016),
        ("x86:cut-on-boundary", 0.003),
        ("amd64:cut-on-boundary", 0.006),
        ("x86:window-cut", 0.010),
        ("amd64:window-cut", 0.020),
        ("mips:window-cut", 0.018),
        ("mipsel:window-cut", 0.018),
        ("aarch64:window-cut", 0.011),
        ("mips:branch-in-last-8-bytes", 0.009),
        ("mipsel:branch-in-last-8-bytes", 0.009),
        ("x86:mid-block-target", 0.05),
        ("amd64:mid-block-target", 0.05),
        ("mips:mid-block-target", 0.05),
        ("mipsel:mid-block-target", 0.05),
        ("aarch64:mid-block-target", 0.05),
        ("x86:entry-loop", 0.017),
        ("amd64:entry-loop", 0.017),
        ("mips:entry-loop", 0.017),
        ("mipsel:entry-loop", 0.017),
        ("aarch64:entry-loop", 0.017),
        ("x86:manual-edges", 0.02),
        ("amd64:manual-edges", 0.02),
        ("mips:manual-edges", 0.02),
        ("mipsel:manual-edges", 0.02),
        ("aarch64:manual-edges", 0.02),
        ("manual-head-executed", 0.07),
        ("dispatch-executed", 0.08),
        ("backward-branch", 0.19),
        ("block-over-56-bytes", 0.09),
        ("region-ends-after-last-instruction", 0.22),
        ("unaligned-base", 0.14),
        ("target-is-fallthrough", 0.05),
        ("x86:overlapping-decode", 0.016),
        ("amd64:overlapping-decode", 0.016),
        ("overlapping-decode:inner-transfer", 0.017),
        ("end:exit", 0.27),
        ("blockify-compared", 0.5),
        // mips: an executed conditional branch whose delay slot changed the outcome of its own test
        ("slot-flips-branch-test", 0.005),
        // x86 / amd64: loope / loopne left through its ZF condition, the count register not zero
        ("loopcc-left-with-count-nonzero", 0.003),
        // x86 / amd64: an executed rep-prefixed string instruction whose count register is zero
        ("rep-with-count-zero", 0.02),
    ];
    spec.workers = |t| t.pick(8, 16);
    spec.case_timeout_s = 120;
    spec.crash_sig = |c: &Case| format!("C06|{}|abort", c.isa.name());
    engine::main(spec)
}
