//! C06 executions: the SEQUENTIAL STEPPER (one step unit at a time, lifted with `translate_block`
//! and run with the reference IL interpreter), and the two executions of the recovered function
//! (reference interpreter `fv::refil::Machine`, falcon's `executor::Driver`).  All three produce
//! the same kind of trace: one event per EXECUTION of a native instruction (for a MIPS branch: one
//! for its first half at `A` and one for its deferred body at `A+1`, as falcon labels them)
//! carrying a digest of the machine state at that moment, and how the execution ended.  On the
//! function side a new event starts when the address of the IL instruction changes or when an IL
//! location is re-entered within the current event (a one-instruction loop); on the stepper side
//! every instruction graph that holds IL is one event.  A graph without any IL instruction (the
//! deferred body `A+1` of a direct MIPS branch; an AArch64 direct branch, which is the known finding
//! `...|empty-instruction-graph` and only gets this far when that finding is tolerated) is an event
//! on neither side.
#![allow(dead_code)]

use super::prog::{Isa, Kind, Program};
use falcon::architecture::Architecture;
use falcon::executor::{Driver, Memory as ExMemory, State};
use falcon::il;
use falcon::translator::BlockTranslationResult;
use falcon::RC;
use fv::bv::Bv;
use fv::engine::{fingerprint, guard};
use fv::refil::{eval, Effect, Fault, FnView, Loc, Machine, RefState};
use std::collections::{BTreeMap, BTreeSet};

pub fn fold(isa: Isa, a: u64) -> u64 {
    if isa.is_mips() && a & 3 == 1 {
        a - 1
    } else {
        a
    }
}

pub fn is_machine_scalar(name: &str) -> bool {
    !name.starts_with("temp") && name != "branching_condition"
}

#[derive(Clone, Debug, PartialEq, Eq)]
pub enum End {
    /// a Branch operation left the lifted code for this address
    Exit(u64),
    /// the event budget was used up
    Cap,
    /// no new event within the IL / unit budget (spinning on one address)
    Stall,
    Fault(String),
}

#[derive(Clone, Debug)]
pub struct Trace {
    pub evs: Vec<(u64, u64)>,
    pub end: End,
    pub final_digest: u64,
    pub taken: usize,
    /// state at event `snapshot_at` (diagnostics)
    pub snapshot: Option<RefState>,
    pub final_state: Option<RefState>,
    /// free-form note for messages (where a fault happened)
    pub note: String,
    /// (stepper) a Branch operation continued at a lifted native instruction that lifts to no IL
    /// instruction: falcon's Branch semantics (`RefProgramLocation::from_address`) has no location
    /// for such a target
    pub branch_to_no_il: bool,
    /// (reference run of the function) a Branch operation continued at the head of a native
    /// instruction's graph that is not "the first Instruction with the given address"
    pub first_instruction_rule_differs: bool,
    /// (stepper) the unit at this address has a ground truth (a plain instruction or a direct
    /// branch the generator emitted: kind, addresses at which the machine code continues) and the
    /// execution ended there with a fault that contradicts it
    pub contradiction: Option<(u64, Kind, Vec<u64>)>,
    /// (stepper) things that happened during the execution, for the class counters
    pub dyn_classes: Vec<&'static str>,
}

/// The architectural decision of a MIPS conditional branch on the given state (None: a register
/// is not defined).  Independent of falcon: the generator knows which test it encoded.
fn mips_decide(test: (u8, u8, u8), s: &RefState) -> Option<bool> {
    let get = |r: u8| -> Option<u32> {
        if r == 0 {
            Some(0)
        } else {
            s.scalars.get(&super::prog::mips_rname(r)).map(|b| b.low_u64() as u32)
        }
    };
    let a = get(test.1)?;
    let b = get(test.2)?;
    Some(match test.0 {
        0 => a == b,
        1 => a != b,
        2 => (a as i32) <= 0,
        3 => (a as i32) > 0,
        4 => (a as i32) < 0,
        _ => (a as i32) >= 0,
    })
}

/// what the digests range over
pub struct Watch {
    pub names: Vec<(String, usize)>,
    pub mem: Vec<u64>,
}

fn scal_digest_ref(w: &Watch, s: &RefState) -> u64 {
    let v: Vec<Option<(usize, u64)>> = w.names.iter().map(|(n, _)| s.scalars.get(n).map(|b| (b.w, b.low_u64()))).collect();
    fingerprint(&v)
}

fn mem_digest_ref(w: &Watch, s: &RefState) -> u64 {
    if s.mem.bytes.len() == w.mem.len() {
        let v: Vec<u8> = s.mem.bytes.values().copied().collect();
        fingerprint(&v)
    } else {
        // a store outside the watched window: make it visible
        let v: Vec<(u64, u8)> = s.mem.bytes.iter().map(|(a, b)| (*a, *b)).collect();
        fingerprint(&v) ^ 0x5a5a
    }
}

fn scal_digest_falcon(w: &Watch, s: &State) -> u64 {
    let v: Vec<Option<(usize, u64)>> = w.names.iter().map(|(n, _)| s.get_scalar(n).map(|c| (c.bits(), Bv::from_constant(c).low_u64()))).collect();
    fingerprint(&v)
}

fn mem_digest_falcon(w: &Watch, s: &State) -> u64 {
    let v: Vec<u8> = w
        .mem
        .iter()
        .map(|a| match s.memory().load(*a, 8) {
            Ok(Some(c)) => c.value_u64().unwrap_or(0) as u8,
            _ => 0xee,
        })
        .collect();
    fingerprint(&v)
}

pub fn falcon_to_ref(w: &Watch, s: &State, big_endian: bool) -> RefState {
    let mut r = RefState { scalars: BTreeMap::new(), mem: fv::refil::RefMem::new(big_endian) };
    for (n, _) in &w.names {
        if let Some(c) = s.get_scalar(n) {
            r.scalars.insert(n.clone(), Bv::from_constant(c));
        }
    }
    for a in &w.mem {
        if let Ok(Some(c)) = s.memory().load(*a, 8) {
            r.mem.bytes.insert(*a, c.value_u64().unwrap_or(0) as u8);
        }
    }
    r
}

pub fn ref_to_falcon(s: &RefState) -> State {
    let endian = if s.mem.big_endian { falcon::architecture::Endian::Big } else { falcon::architecture::Endian::Little };
    let mut mem = ExMemory::new(endian);
    for (a, b) in &s.mem.bytes {
        mem.store(*a, il::const_(*b as u64, 8)).expect("store byte");
    }
    let mut st = State::new(mem);
    for (k, v) in &s.scalars {
        st.set_scalar(k.clone(), v.to_constant());
    }
    st
}

struct Rec {
    evs: Vec<(u64, u64)>,
    cap: usize,
    snapshot_at: Option<usize>,
    snapshot: Option<RefState>,
    /// address of the current event and the IL locations visited during it
    cur: Option<u64>,
    visited: BTreeSet<(usize, usize)>,
    /// steps since the last event
    idle: usize,
}

impl Rec {
    fn new(cap: usize, snapshot_at: Option<usize>) -> Rec {
        Rec { evs: Vec::new(), cap, snapshot_at, snapshot: None, cur: None, visited: BTreeSet::new(), idle: 0 }
    }
    /// does the IL instruction at location `key` with address `a` start a new event?
    fn starts_event(&self, a: u64, key: (usize, usize)) -> bool {
        self.cur != Some(a) || self.visited.contains(&key)
    }
    fn begin(&mut self, a: u64, digest: u64) {
        self.evs.push((a, digest));
        self.cur = Some(a);
        self.visited.clear();
        self.idle = 0;
    }
}

// ---------------------------------------------------------------------------------------------
// the stepper

pub struct Unit {
    pub graphs: Vec<(u64, FnView)>,
    pub successors: Vec<(u64, Option<il::Expression>)>,
    /// ground-truth addresses visited by the unit (one per graph)
    pub addrs: Vec<u64>,
    /// native address of the unit's branch, for `taken` accounting
    pub is_branch: bool,
    pub fallthrough: u64,
    /// for each graph: number of IL blocks that hold instructions, and of IL instructions
    pub il_blocks: Vec<usize>,
    pub il_instrs: Vec<usize>,
    /// target expression of the unit's Branch operation, if it has one
    pub branch_expr: Option<il::Expression>,
    /// a rep-prefixed string instruction: executes its body `count` times, possibly not at all.
    /// Events follow the rule of the function side (a new event when IL is re-entered, none when
    /// no IL instruction executes)
    pub repeats: bool,
}

pub fn make_unit(p: &Program, k: usize, btr: &BlockTranslationResult) -> Result<Unit, String> {
    let addrs = p.unit_addrs(k);
    let got: Vec<u64> = btr.instructions().iter().map(|(a, _)| fold(p.isa, *a)).collect();
    if got != addrs {
        return Err(format!("unit at 0x{:x} lifts to graphs at {:x?}, expected {:x?}", p.insns[k].addr, got, addrs));
    }
    let mut graphs = Vec::new();
    let mut il_blocks = Vec::new();
    let mut il_instrs = Vec::new();
    let mut branch_expr = None;
    for (a, cfg) in btr.instructions() {
        let v = FnView::of_cfg(cfg);
        il_blocks.push(v.blocks.values().filter(|b| !b.is_empty()).count());
        il_instrs.push(v.blocks.values().map(|b| b.len()).sum());
        for b in v.blocks.values() {
            for i in b {
                if let il::Operation::Branch { target } = &i.op {
                    branch_expr = Some(target.clone());
                }
                if let Some(ia) = i.address {
                    if ia != *a {
                        return Err(format!("graph 0x{:x} holds an instruction with address 0x{:x}", a, ia));
                    }
                } else {
                    return Err(format!("graph 0x{:x} holds an instruction without an address", a));
                }
            }
        }
        graphs.push((*a, v));
    }
    let n = p.unit_len(k);
    let last = &p.insns[(k + n - 1).min(p.insns.len() - 1)];
    Ok(Unit {
        graphs,
        successors: btr.successors().clone(),
        addrs,
        is_branch: p.is_branch(k),
        fallthrough: last.addr + last.bytes.len() as u64,
        il_blocks,
        il_instrs,
        branch_expr,
        repeats: p.isa.is_x86() && p.insns[k].text.starts_with("rep"),
    })
}

fn at_graph_end(view: &FnView, loc: Loc) -> bool {
    match loc {
        Loc::Instr(b, i) => {
            let is = &view.blocks[&b];
            is.last().map(|x| x.index) == Some(i) && view.out_edges(b).is_empty()
        }
        Loc::Empty(b) => view.out_edges(b).is_empty(),
        Loc::Edge(..) => false,
    }
}

/// Run one instruction graph to its end.  Ok((state, branch target, stored))
fn run_graph(view: &FnView, state: RefState) -> Result<(RefState, Option<u64>, bool), String> {
    let mut m = match Machine::new(view, state) {
        Ok(m) => m,
        Err(f) => return Err(format!("graph-entry:{}", f.kind())),
    };
    let mut stored = false;
    for _ in 0..10_000 {
        let last = at_graph_end(view, m.loc);
        if last {
            if let Loc::Empty(_) = m.loc {
                return Ok((m.state, None, stored));
            }
        }
        match m.step() {
            Ok(Effect::Branch { target }) => return Ok((m.state, Some(target), stored)),
            Ok(Effect::Store { .. }) => stored = true,
            Ok(_) => {}
            Err(Fault::NoEdge) if last && m.last_effect.is_some() => {
                if let Some(Effect::Store { .. }) = m.last_effect {
                    stored = true;
                }
                return Ok((m.state, None, stored));
            }
            Err(f) => {
                return Err(match &f {
                    Fault::UndefinedScalar(n) => format!("undefined-scalar:{}", n),
                    other => other.kind().to_string(),
                })
            }
        }
    }
    Err("graph-step-limit".into())
}

fn show_successors(s: &[(u64, Option<il::Expression>)]) -> String {
    let v: Vec<String> = s.iter().map(|(a, c)| format!("0x{:x} if {}", a, c.as_ref().map(|c| c.to_string()).unwrap_or("true".into()))).collect();
    format!("[{}]", v.join(", "))
}

#[allow(clippy::too_many_arguments)]
pub fn run_stepper(p: &Program, units: &BTreeMap<u64, Unit>, init: &RefState, lifted: &BTreeSet<u64>, w: &Watch, cap: usize, snapshot_at: Option<usize>) -> Trace {
    let mut rec = Rec::new(cap, snapshot_at);
    let mut state = init.clone();
    let mut pc = p.entry;
    let mut md = mem_digest_ref(w, &state);
    let mut taken = 0usize;
    // an event-free stretch consists of direct branches only; longer than the program = a cycle
    let idle_limit = p.insns.len() + 8;
    let to_no_il = std::cell::Cell::new(false);
    let contradiction: std::cell::RefCell<Option<(u64, Kind, Vec<u64>)>> = std::cell::RefCell::new(None);
    let dyn_classes: std::cell::RefCell<Vec<&'static str>> = std::cell::RefCell::new(Vec::new());
    let dyn_class = |c: &'static str| {
        let mut v = dyn_classes.borrow_mut();
        if !v.contains(&c) {
            v.push(c);
        }
    };
    let fin = |rec: Rec, end: End, state: RefState, md: u64, taken: usize, note: String| -> Trace {
        Trace { evs: rec.evs, end, final_digest: scal_digest_ref(w, &state) ^ md.rotate_left(1), taken, snapshot: rec.snapshot, final_state: Some(state), note, branch_to_no_il: to_no_il.get(), first_instruction_rule_differs: false, contradiction: contradiction.borrow().clone(), dyn_classes: dyn_classes.borrow().clone() }
    };
    // the generator's ground truth for the unit at `pc`: kind and continuation addresses of a plain
    // instruction / a direct branch it emitted, when all of them are lifted
    let truth_of = |pc: u64| -> Option<(u64, Kind, Vec<u64>)> {
        let k = *p.by_addr.get(&pc)?;
        let t = p.succ_addrs(k)?;
        if t.iter().all(|a| lifted.contains(a)) {
            Some((pc, p.insns[k].kind, t))
        } else {
            None
        }
    };
    loop {
        if rec.idle > idle_limit {
            return fin(rec, End::Stall, state, md, taken, String::new());
        }
        rec.idle += 1;
        let Some(u) = units.get(&pc) else {
            return fin(rec, End::Fault("pc-outside-lifted-set".into()), state, md, taken, format!("pc 0x{:x}", pc));
        };
        // MIPS: the machine decides a conditional branch on the register values it has when the
        // branch executes, i.e. before the delay slot
        let insn = p.by_addr.get(&pc).map(|k| &p.insns[*k]);
        let mips_test = if p.isa.is_mips() { insn.and_then(|i| i.mips_test.map(|t| (t, i.target))) } else { None };
        let mips_taken: Option<bool> = mips_test.and_then(|(t, _)| mips_decide(t, &state));
        let mut branch: Option<u64> = None;
        for (k, (raw, view)) in u.graphs.iter().enumerate() {
            let a = *raw;
            // a graph without any IL instruction (the deferred body A+1 of a direct MIPS branch; an
            // AArch64 direct branch while that known finding is tolerated): nothing executes there
            // and the recovered function has nothing to show for it: not an event on either side
            let silent = u.il_instrs[k] == 0;
            if u.repeats {
                let mut m = match Machine::new(view, state.clone()) {
                    Ok(m) => m,
                    Err(f) => return fin(rec, End::Fault(format!("graph-entry:{}", f.kind())), state, md, taken, format!("unit 0x{:x}", pc)),
                };
                // the first IL instruction that executes starts an event
                rec.cur = None;
                let mut steps = 0usize;
                let res: Result<Option<u64>, String> = loop {
                    steps += 1;
                    if steps > 400_000 {
                        break Err("graph-step-limit".into());
                    }
                    let last = at_graph_end(view, m.loc);
                    if last {
                        if let Loc::Empty(_) = m.loc {
                            break Ok(None);
                        }
                    }
                    if let Loc::Instr(b, i) = m.loc {
                        if rec.starts_event(a, (b, i)) {
                            if rec.evs.len() >= rec.cap {
                                return fin(rec, End::Cap, m.state, md, taken, String::new());
                            }
                            if rec.snapshot_at == Some(rec.evs.len()) {
                                rec.snapshot = Some(m.state.clone());
                            }
                            rec.begin(a, scal_digest_ref(w, &m.state) ^ md.rotate_left(1));
                            dyn_class("rep-iteration");
                        }
                        rec.visited.insert((b, i));
                    }
                    match m.step() {
                        Ok(Effect::Branch { target }) => break Ok(Some(target)),
                        Ok(Effect::Store { .. }) => md = mem_digest_ref(w, &m.state),
                        Ok(_) => {}
                        Err(Fault::NoEdge) if last && m.last_effect.is_some() => {
                            if let Some(Effect::Store { .. }) = m.last_effect {
                                md = mem_digest_ref(w, &m.state);
                            }
                            break Ok(None);
                        }
                        Err(f) => {
                            break Err(match &f {
                                Fault::UndefinedScalar(n) => format!("undefined-scalar:{}", n),
                                other => other.kind().to_string(),
                            })
                        }
                    }
                };
                if rec.cur.is_none() {
                    dyn_class("rep-with-count-zero");
                }
                state = m.state;
                match res {
                    Ok(Some(t)) => {
                        branch = Some(t);
                        break;
                    }
                    Ok(None) => continue,
                    Err(e) => return fin(rec, End::Fault(e), state, md, taken, format!("unit 0x{:x} graph 0x{:x}", pc, a)),
                }
            }
            if !silent {
                if rec.evs.len() >= rec.cap {
                    return fin(rec, End::Cap, state, md, taken, String::new());
                }
                if rec.snapshot_at == Some(rec.evs.len()) {
                    rec.snapshot = Some(state.clone());
                }
                rec.begin(a, scal_digest_ref(w, &state) ^ md.rotate_left(1));
            }
            match run_graph(view, state.clone()) {
                Ok((s, b, stored)) => {
                    state = s;
                    if stored {
                        md = mem_digest_ref(w, &state);
                    }
                    if let Some(t) = b {
                        branch = Some(t);
                        break;
                    }
                }
                Err(e) => return fin(rec, End::Fault(e), state, md, taken, format!("unit 0x{:x} graph 0x{:x}", pc, a)),
            }
        }
        let next = match branch {
            Some(t) => {
                if !lifted.contains(&t) {
                    return fin(rec, End::Exit(t), state, md, taken, String::new());
                }
                if units.get(&t).map(|u| u.il_instrs[0] == 0).unwrap_or(false) {
                    to_no_il.set(true);
                }
                taken += 1;
                t
            }
            None => {
                let mut chosen: Option<u64> = None;
                for (a, cond) in &u.successors {
                    let on = match cond {
                        None => true,
                        Some(c) => match eval(c, &state.scalars) {
                            Ok(v) if v.w == 1 => v.is_one(),
                            Ok(_) => return fin(rec, End::Fault("successor-guard-not-1-bit".into()), state, md, taken, String::new()),
                            Err(f) => return fin(rec, End::Fault(format!("successor-guard:{}", f.kind())), state, md, taken, String::new()),
                        },
                    };
                    if on {
                        if chosen.is_some() && chosen != Some(*a) {
                            *contradiction.borrow_mut() = truth_of(pc);
                            return fin(rec, End::Fault("two-successors".into()), state, md, taken, format!("unit 0x{:x}: successors {}", pc, show_successors(&u.successors)));
                        }
                        chosen = Some(*a);
                    }
                }
                match chosen {
                    Some(a) => {
                        if let Some(t) = truth_of(pc) {
                            if !t.2.contains(&a) {
                                *contradiction.borrow_mut() = Some(t);
                                return fin(rec, End::Fault("successor-not-in-ground-truth".into()), state, md, taken, format!("unit 0x{:x} continues at 0x{:x}: successors {}", pc, a, show_successors(&u.successors)));
                            }
                        }
                        if let (Some(taken_before), Some((test, Some(target)))) = (mips_taken, mips_test) {
                            let want = if taken_before { target } else { u.fallthrough };
                            if a != want {
                                *contradiction.borrow_mut() = Some((pc, Kind::Cond, vec![want]));
                                return fin(
                                    rec,
                                    End::Fault("successor-contradicts-branch-test".into()),
                                    state,
                                    md,
                                    taken,
                                    format!("unit 0x{:x} continues at 0x{:x}, the branch test on the registers as they were before the delay slot says {}: successors {}", pc, a, if taken_before { "taken" } else { "not taken" }, show_successors(&u.successors)),
                                );
                            }
                            dyn_class("mips-cond-executed");
                            if target != u.fallthrough && mips_decide(test, &state) == Some(!taken_before) {
                                dyn_class("slot-flips-branch-test");
                            }
                        }
                        if let Some(i) = insn {
                            if p.isa.is_x86() && i.text.starts_with("loop") && i.text.as_bytes().get(4) != Some(&b' ') && a == u.fallthrough {
                                let cx = if p.isa == Isa::Amd64 { "rcx" } else { "ecx" };
                                if state.scalars.get(cx).map(|v| v.low_u64() != 0).unwrap_or(false) {
                                    dyn_class("loopcc-left-with-count-nonzero");
                                }
                            }
                        }
                        if u.is_branch && a != u.fallthrough {
                            taken += 1;
                        }
                        a
                    }
                    None => {
                        *contradiction.borrow_mut() = truth_of(pc);
                        return fin(rec, End::Fault("no-successor".into()), state, md, taken, format!("unit 0x{:x}: successors {}", pc, show_successors(&u.successors)));
                    }
                }
            }
        };
        pc = next;
    }
}

// ---------------------------------------------------------------------------------------------
// the recovered function under the reference interpreter

/// Where a Branch to `target` continues inside the function: at the first IL instruction of the
/// native instruction at `target`, i.e. at the head of that instruction's graph.
///
/// A native instruction whose graph has several blocks (x86 jcc, MIPS slt, ...) starts several IL
/// blocks with its address.  The head is the start from which every other start is reachable
/// through IL that carries the same address (and empty blocks).  falcon's own rule
/// (`RefProgramLocation::from_address`, used by `Driver::step`) is "the first Instruction with the
/// given address", blocks taken in index order; it is used when the head cannot be told (an
/// instruction that loops to itself).  Returns (destination, falcon's rule lands elsewhere).
fn locate(view: &FnView, target: u64) -> Result<(Loc, bool), String> {
    let mut starts: Vec<(usize, usize)> = Vec::new();
    for (b, is) in &view.blocks {
        for (pos, i) in is.iter().enumerate() {
            if i.address == Some(target) && (pos == 0 || is[pos - 1].address != Some(target)) {
                starts.push((*b, pos));
            }
        }
    }
    let Some(&first) = starts.first() else {
        return Err("branch-target-not-in-function".into());
    };
    let loc_of = |(b, pos): (usize, usize)| Loc::Instr(b, view.blocks[&b][pos].index);
    if starts.len() == 1 {
        return Ok((loc_of(first), false));
    }
    let reaches_all = |from: (usize, usize)| -> bool {
        let mut seen_blocks: BTreeSet<usize> = BTreeSet::new();
        let mut reached: BTreeSet<(usize, usize)> = BTreeSet::new();
        reached.insert(from);
        // (block, position to continue from)
        let mut work = vec![from];
        while let Some((b, pos)) = work.pop() {
            let is = &view.blocks[&b];
            if is[pos..].iter().any(|i| i.address != Some(target)) {
                continue;
            }
            // the rest of the block belongs to the instruction: follow the out-edges
            let mut succ: Vec<usize> = view.out_edges(b).iter().map(|e| e.tail).collect();
            while let Some(t) = succ.pop() {
                if !seen_blocks.insert(t) {
                    continue;
                }
                let tis = &view.blocks[&t];
                if tis.is_empty() {
                    succ.extend(view.out_edges(t).iter().map(|e| e.tail));
                } else if tis[0].address == Some(target) {
                    reached.insert((t, 0));
                    work.push((t, 0));
                }
            }
        }
        starts.iter().all(|s| reached.contains(s))
    };
    let heads: Vec<(usize, usize)> = starts.iter().copied().filter(|s| reaches_all(*s)).collect();
    if heads.len() == 1 {
        Ok((loc_of(heads[0]), heads[0] != first))
    } else {
        Ok((loc_of(first), false))
    }
}

/// An event-free stretch of the function run passes through the IL of one native instruction,
/// empty blocks and edges; anything longer than the whole function is an event-free cycle.
fn idle_limit_of(view: &FnView) -> usize {
    2 * (view.blocks.len() + view.edges.len() + view.blocks.values().map(|b| b.len()).sum::<usize>()) + 16
}

#[allow(clippy::too_many_arguments)]
pub fn run_ref(isa: Isa, view: &FnView, init: &RefState, lifted: &BTreeSet<u64>, no_il: &BTreeSet<u64>, manual_tails: &BTreeSet<u64>, w: &Watch, cap: usize, snapshot_at: Option<usize>) -> Trace {
    let mut rec = Rec::new(cap, snapshot_at);
    let mut m = match Machine::new(view, init.clone()) {
        Ok(m) => m,
        Err(f) => {
            return Trace { evs: vec![], end: End::Fault(format!("entry:{}", f.kind())), final_digest: 0, taken: 0, snapshot: None, final_state: None, note: String::new(), branch_to_no_il: false, first_instruction_rule_differs: false, contradiction: None, dyn_classes: Vec::new() };
        }
    };
    let mut md = mem_digest_ref(w, &m.state);
    let idle_limit = idle_limit_of(view);
    let mut note = String::new();
    let mut first_instruction_rule_differs = false;
    let _ = isa;
    let end = loop {
        if rec.idle > idle_limit {
            break End::Stall;
        }
        rec.idle += 1;
        if let Loc::Instr(b, i) = m.loc {
            if let Some(a) = view.instr(b, i).and_then(|iv| iv.address) {
                if rec.starts_event(a, (b, i)) {
                    if rec.evs.len() >= rec.cap {
                        break End::Cap;
                    }
                    if rec.snapshot_at == Some(rec.evs.len()) {
                        rec.snapshot = Some(m.state.clone());
                    }
                    rec.begin(a, scal_digest_ref(w, &m.state) ^ md.rotate_left(1));
                }
                rec.visited.insert((b, i));
            }
        }
        let here = m.loc;
        match m.step() {
            Ok(Effect::Branch { target }) => {
                if !lifted.contains(&target) {
                    break End::Exit(target);
                }
                let dest = match locate(view, target) {
                    Ok((l, elsewhere)) => {
                        if elsewhere {
                            first_instruction_rule_differs = true;
                        }
                        l
                    }
                    Err(e) if e == "branch-target-not-in-function" && no_il.contains(&target) => {
                        // The target is a lifted native instruction without any IL instruction (a
                        // direct branch): a Branch operation cannot name it.  Continue along the one
                        // enabled (manual) edge if there is one.
                        let mut enabled = Vec::new();
                        if let Loc::Instr(b, i) = here {
                            if view.blocks[&b].last().map(|x| x.index) == Some(i) {
                                for e in view.out_edges(b) {
                                    let on = match &e.cond {
                                        None => true,
                                        Some(c) => eval(c, &m.state.scalars).map(|v| v.is_one()).unwrap_or(false),
                                    };
                                    if on {
                                        enabled.push(e.tail);
                                    }
                                }
                            }
                        }
                        if enabled.len() == 1 {
                            match view.block_entry(enabled[0]) {
                                Ok(l) => {
                                    m.loc = l;
                                    continue;
                                }
                                Err(f) => break End::Fault(f.kind().to_string()),
                            }
                        }
                        note = format!("Branch to 0x{:x} at {:?}", target, here);
                        break End::Fault("branch-target-has-no-il".into());
                    }
                    Err(e) => {
                        note = format!("Branch to 0x{:x} at {:?}", target, here);
                        break End::Fault(e);
                    }
                };
                // edges out of the block of the Branch (manual edges) must agree with it
                if let Loc::Instr(b, i) = here {
                    let is_last = view.blocks[&b].last().map(|x| x.index) == Some(i);
                    if is_last {
                        let mut enabled = Vec::new();
                        let mut bad = None;
                        for e in view.out_edges(b) {
                            let on = match &e.cond {
                                None => true,
                                Some(c) => match eval(c, &m.state.scalars) {
                                    Ok(v) => v.is_one(),
                                    Err(f) => {
                                        bad = Some(format!("manual-edge-guard:{}", f.kind()));
                                        false
                                    }
                                },
                            };
                            if on {
                                enabled.push(e.tail);
                            }
                        }
                        if let Some(e) = bad {
                            note = format!("Branch to 0x{:x}", target);
                            break End::Fault(e);
                        }
                        let want = match dest {
                            Loc::Instr(tb, ti) if view.blocks[&tb].first().map(|x| x.index) == Some(ti) => Some(tb),
                            _ => None,
                        };
                        if enabled.iter().any(|t| Some(*t) != want) {
                            note = format!("Branch to 0x{:x}: enabled edges lead to blocks {:?}, the target is in {:?}", target, enabled, dest);
                            break End::Fault("edge-disagrees-with-branch".into());
                        }
                        if manual_tails.contains(&target) && enabled.is_empty() {
                            note = format!("Branch to the manual tail 0x{:x}: no enabled edge out of block {}", target, b);
                            break End::Fault("manual-edge-not-enabled".into());
                        }
                    }
                }
                m.loc = dest;
            }
            Ok(Effect::Store { .. }) => md = mem_digest_ref(w, &m.state),
            Ok(_) => {}
            Err(f) => {
                if let Some(Effect::Store { .. }) = m.last_effect {
                    md = mem_digest_ref(w, &m.state);
                }
                note = format!("at {:?}", here);
                break End::Fault(match &f {
                    Fault::UndefinedScalar(n) => format!("undefined-scalar:{}", n),
                    other => other.kind().to_string(),
                });
            }
        }
    };
    let fd = scal_digest_ref(w, &m.state) ^ md.rotate_left(1);
    Trace { evs: rec.evs, end, final_digest: fd, taken: 0, snapshot: rec.snapshot, final_state: Some(m.state), note, branch_to_no_il: false, first_instruction_rule_differs, contradiction: None, dyn_classes: Vec::new() }
}

// ---------------------------------------------------------------------------------------------
// one block as a single graph (blockify) under the reference interpreter

/// Run a block graph from its entry until a Branch operation, the end of the graph or `cap` events.
pub fn run_block(view: &FnView, init: &RefState, w: &Watch, cap: usize) -> Trace {
    let mut rec = Rec::new(cap, None);
    let mut m = match Machine::new(view, init.clone()) {
        Ok(m) => m,
        Err(f) => {
            return Trace { evs: vec![], end: End::Fault(format!("entry:{}", f.kind())), final_digest: 0, taken: 0, snapshot: None, final_state: None, note: String::new(), branch_to_no_il: false, first_instruction_rule_differs: false, contradiction: None, dyn_classes: Vec::new() };
        }
    };
    let mut md = mem_digest_ref(w, &m.state);
    let idle_limit = idle_limit_of(view);
    let mut note = String::new();
    let end = loop {
        if rec.idle > idle_limit {
            break End::Stall;
        }
        rec.idle += 1;
        if let Loc::Instr(b, i) = m.loc {
            if let Some(a) = view.instr(b, i).and_then(|iv| iv.address) {
                if rec.starts_event(a, (b, i)) {
                    if rec.evs.len() >= rec.cap {
                        break End::Cap;
                    }
                    rec.begin(a, scal_digest_ref(w, &m.state) ^ md.rotate_left(1));
                }
                rec.visited.insert((b, i));
            }
        }
        let last = at_graph_end(view, m.loc);
        if last {
            if let Loc::Empty(_) = m.loc {
                break End::Exit(0);
            }
        }
        match m.step() {
            Ok(Effect::Branch { target }) => break End::Exit(target),
            Ok(Effect::Store { .. }) => md = mem_digest_ref(w, &m.state),
            Ok(_) => {}
            Err(Fault::NoEdge) if last && m.last_effect.is_some() => break End::Exit(0),
            Err(f) => {
                note = format!("at {:?}", m.loc);
                break End::Fault(f.kind().to_string());
            }
        }
    };
    let fd = scal_digest_ref(w, &m.state) ^ md.rotate_left(1);
    Trace { evs: rec.evs, end, final_digest: fd, taken: 0, snapshot: None, final_state: Some(m.state), note, branch_to_no_il: false, first_instruction_rule_differs: false, contradiction: None, dyn_classes: Vec::new() }
}

// ---------------------------------------------------------------------------------------------
// the recovered function under falcon's Driver

#[allow(clippy::too_many_arguments)]
pub fn run_driver(isa: Isa, function: &il::Function, arch: RC<dyn Architecture>, init: &RefState, lifted: &BTreeSet<u64>, w: &Watch, cap: usize, snapshot_at: Option<usize>) -> Trace {
    let mut rec = Rec::new(cap, snapshot_at);
    let view = FnView::of(function);
    let start = match view.entry_loc() {
        Ok(Loc::Instr(b, i)) => il::FunctionLocation::Instruction(b, i),
        Ok(Loc::Empty(b)) => il::FunctionLocation::EmptyBlock(b),
        _ => {
            return Trace { evs: vec![], end: End::Fault("entry".into()), final_digest: 0, taken: 0, snapshot: None, final_state: None, note: String::new(), branch_to_no_il: false, first_instruction_rule_differs: false, contradiction: None, dyn_classes: Vec::new() };
        }
    };
    let mut program = il::Program::new();
    program.add_function(function.clone());
    let fidx = program.functions()[0].index().unwrap_or(0);
    let mut driver = Driver::new(RC::new(program), il::ProgramLocation::new(Some(fidx), start), ref_to_falcon(init), arch);
    let mut md = mem_digest_falcon(w, driver.state());
    let idle_limit = idle_limit_of(&view);
    let mut note = String::new();
    let big = init.mem.big_endian;
    let _ = isa;
    let end = loop {
        if rec.idle > idle_limit {
            break End::Stall;
        }
        rec.idle += 1;
        // inspect the current location
        let mut is_store = false;
        let mut exit: Option<u64> = None;
        let mut fault: Option<String> = None;
        let mut ev: Option<(u64, (usize, usize))> = None;
        {
            let rloc = match driver.location().apply(driver.program()) {
                Ok(l) => l,
                Err(e) => break End::Fault(format!("driver-location:{}", e)),
            };
            if let il::RefFunctionLocation::Instruction(blk, ins) = rloc.function_location() {
                if let Some(a) = ins.address() {
                    ev = Some((a, (blk.index(), ins.index())));
                }
                match ins.operation() {
                    il::Operation::Store { .. } => is_store = true,
                    il::Operation::Branch { target } => match driver.state().symbolize_and_eval(target) {
                        Ok(c) => match c.value_u64() {
                            Some(t) if !lifted.contains(&t) => exit = Some(t),
                            Some(_) => {}
                            None => fault = Some("branch-target-too-wide".into()),
                        },
                        Err(e) => fault = Some(format!("branch-target:{}", e)),
                    },
                    _ => {}
                }
            }
        }
        if let Some((a, key)) = ev {
            if rec.starts_event(a, key) {
                if rec.evs.len() >= rec.cap {
                    break End::Cap;
                }
                if rec.snapshot_at == Some(rec.evs.len()) {
                    rec.snapshot = Some(falcon_to_ref(w, driver.state(), big));
                }
                rec.begin(a, scal_digest_falcon(w, driver.state()) ^ md.rotate_left(1));
            }
            rec.visited.insert(key);
        }
        if let Some(f) = fault {
            break End::Fault(f);
        }
        if let Some(t) = exit {
            break End::Exit(t);
        }
        let here = format!("{}", driver.location());
        let before = driver.clone();
        match guard(move || driver.step()) {
            Ok(Ok(d)) => {
                driver = d;
                if is_store {
                    md = mem_digest_falcon(w, driver.state());
                }
            }
            Ok(Err(e)) => {
                driver = before;
                note = format!("at {}: {}", here, e);
                break End::Fault(format!("driver-error:{}", error_kind(&e)));
            }
            Err(pi) => {
                driver = before;
                note = format!("at {}: panic {} ({}:{})", here, pi.msg, pi.file, pi.line);
                break End::Fault(format!("driver-{}", pi.sig()));
            }
        }
    };
    let fd = scal_digest_falcon(w, driver.state()) ^ md.rotate_left(1);
    let fs = falcon_to_ref(w, driver.state(), big);
    Trace { evs: rec.evs, end, final_digest: fd, taken: 0, snapshot: rec.snapshot, final_state: Some(fs), note, branch_to_no_il: false, first_instruction_rule_differs: false, contradiction: None, dyn_classes: Vec::new() }
}

pub fn error_kind(e: &falcon::Error) -> String {
    use falcon::Error;
    match e {
        Error::ExecutorScalar(_) => "undefined-scalar".into(),
        Error::ExecutorInvalidAddress => "unmapped".into(),
        Error::AccessUnmappedMemory(_) => "unmapped".into(),
        Error::ExecutorNoValidLocation => "no-valid-location".into(),
        Error::ExecutorNoEdgeCondition => "no-edge-condition".into(),
        Error::ExecutorLiftFail(..) => "lift-fail".into(),
        Error::Custom(s) if s.contains("edge condition") => "no-edge-condition".into(),
        Error::Custom(_) => "custom".into(),
        _ => "other".into(),
    }
}

pub fn diff_states(a: &RefState, b: &RefState, w: &Watch) -> String {
    let mut out = Vec::new();
    for (n, _) in &w.names {
        let (x, y) = (a.scalars.get(n), b.scalars.get(n));
        if x != y {
            out.push(format!("{}: {} vs {}", n, x.map(|v| format!("0x{:x}", v.low_u64())).unwrap_or("undef".into()), y.map(|v| format!("0x{:x}", v.low_u64())).unwrap_or("undef".into())));
        }
    }
    let keys: BTreeSet<u64> = a.mem.bytes.keys().chain(b.mem.bytes.keys()).copied().collect();
    let mut nmem = 0;
    for k in keys {
        let (x, y) = (a.mem.bytes.get(&k), b.mem.bytes.get(&k));
        if x != y {
            nmem += 1;
            if nmem <= 6 {
                out.push(format!("[0x{:x}]: {:02x?} vs {:02x?}", k, x, y));
            }
        }
    }
    if nmem > 6 {
        out.push(format!("... {} bytes differ", nmem));
    }
    out.join("; ")
}
