//! C06 program model: an ISA-neutral list of `Item`s (plain data, self-contained) that is
//! assembled into machine code for x86 / amd64 / mips / mipsel / aarch64, together with the
//! generator's GROUND TRUTH: every instruction boundary, every direct branch target, the set R of
//! instruction addresses reachable through direct branches, the set L that additionally covers
//! what manual edges make the translator lift, and the layout shapes (window cut, straddle, ...).
//!
//! Registers in items are *pool indices*, mapped per ISA to real register numbers, so every item
//! is valid on every ISA and shrinking never produces an ill-formed program.
#![allow(dead_code)]

#[path = "../c03/a64_asm.rs"]
mod a64_asm;
#[path = "../c02/mips_asm.rs"]
mod mips_asm;

use serde::{Deserialize, Serialize};
use std::collections::{BTreeMap, BTreeSet};

#[derive(Clone, Copy, Debug, PartialEq, Eq, Hash, PartialOrd, Ord, Serialize, Deserialize)]
pub enum Isa {
    X86,
    Amd64,
    Mips,
    Mipsel,
    A64,
}

pub const ISAS: [Isa; 5] = [Isa::X86, Isa::Amd64, Isa::Mips, Isa::Mipsel, Isa::A64];

impl Isa {
    pub fn name(self) -> &'static str {
        match self {
            Isa::X86 => "x86",
            Isa::Amd64 => "amd64",
            Isa::Mips => "mips",
            Isa::Mipsel => "mipsel",
            Isa::A64 => "aarch64",
        }
    }
    pub fn is_mips(self) -> bool {
        matches!(self, Isa::Mips | Isa::Mipsel)
    }
    pub fn is_x86(self) -> bool {
        matches!(self, Isa::X86 | Isa::Amd64)
    }
    pub fn big_endian(self) -> bool {
        self == Isa::Mips
    }
    pub fn word_bits(self) -> usize {
        match self {
            Isa::Amd64 | Isa::A64 => 64,
            _ => 32,
        }
    }
    /// general-purpose pool; the LAST entry is the loop counter
    pub fn pool(self) -> &'static [u8] {
        match self {
            Isa::X86 => &[0, 1, 6, 7, 2],
            Isa::Amd64 => &[0, 1, 6, 7, 8, 9, 10, 2],
            Isa::Mips | Isa::Mipsel => &[8, 9, 10, 11, 12, 13, 14, 15, 17],
            Isa::A64 => &[0, 1, 2, 3, 4, 5, 6, 7, 19],
        }
    }
    pub fn reg(self, idx: u8) -> u8 {
        let p = self.pool();
        p[idx as usize % p.len()]
    }
    pub fn cnt(self) -> u8 {
        *self.pool().last().unwrap()
    }
    pub fn disp(self) -> u8 {
        match self {
            Isa::X86 | Isa::Amd64 => 3,
            Isa::Mips | Isa::Mipsel => 25,
            Isa::A64 => 17,
        }
    }
    pub fn base(self) -> u8 {
        match self {
            Isa::X86 | Isa::Amd64 => 5,
            Isa::Mips | Isa::Mipsel => 16,
            Isa::A64 => 20,
        }
    }
    /// (scratch base, loop counter, dispatch register, stack pointer or link register) scalar names
    pub fn role_names(self) -> (&'static str, &'static str, &'static str, &'static str) {
        match self {
            Isa::X86 => ("ebp", "edx", "ebx", "esp"),
            Isa::Amd64 => ("rbp", "rdx", "rbx", "rsp"),
            Isa::Mips | Isa::Mipsel => ("$s0", "$s1", "$t9", "$ra"),
            Isa::A64 => ("x20", "x19", "x17", "x30"),
        }
    }
    pub fn bases(self) -> &'static [u64] {
        match self {
            Isa::X86 => &[0x1000, 0x0040_1003, 0x0804_8a37, 0x7fff_f001, 0xffff_e002],
            Isa::Amd64 => &[0x1000, 0x0040_1005, 0x7fff_1234_5679, 0x5555_5555_4002],
            Isa::Mips | Isa::Mipsel => &[0x0040_0000, 0x1000, 0x8000_1004, 0x7fc0_0048],
            Isa::A64 => &[0x1000, 0x8f00, 0x0040_0004, 0x7f_ffff_0008],
        }
    }
}

pub const SCRATCH: u64 = 0x2000_0000;
pub const SCRATCH_LEN: u64 = 256;
pub const STACK: u64 = 0x3000_0100;
/// where the terminator returns to: outside every program
pub const RET_ADDR: u64 = 0x0bad_0040;

/// A non-branching instruction.  kind: 0 nop, 1 alu reg-reg, 2 alu reg-imm, 3 move immediate,
/// 4 load from the scratch window, 5 store to it, 6 inc/dec (x86) or shift (mips) or add-imm (a64)
#[derive(Clone, Debug, PartialEq, Eq, Hash, Serialize, Deserialize, Default)]
pub struct Simple {
    pub kind: u8,
    pub op: u8,
    pub rd: u8,
    pub rs: u8,
    pub rt: u8,
    pub imm: u32,
    pub wide: bool,
    pub form: u8,
}

impl Simple {
    pub fn nop() -> Simple {
        Simple::default()
    }
}

#[derive(Clone, Debug, PartialEq, Eq, Hash, Serialize, Deserialize)]
pub enum Item {
    S(Simple),
    /// conditional direct branch
    Cond { cc: u8, ra: u8, rb: u8, target: usize, into_slot: bool, near: bool, slot: Simple },
    /// unconditional direct branch (`abs`: mips `j` instead of `b`)
    Jmp { target: usize, into_slot: bool, near: bool, abs: bool, slot: Simple },
    /// counter-- ; branch to target while counter != 0
    Loop { target: usize, into_slot: bool, near: bool, slot: Simple },
    /// `jmp reg` / `jr $t9` / `br x17`
    Dispatch { slot: Simple },
    /// dispatch register := address of dispatch target `which`
    SetDisp { which: u8 },
    /// ret / jr $ra / ret
    Ret { slot: Simple },
    /// bytes that are never executed (only after an unconditional transfer)
    Junk { bytes: Vec<u8> },
    /// x86 / amd64: OVERLAPPING DECODINGS.  An instruction with a 4- or 8-byte immediate (`outer`:
    /// form % 3 = 0 `mov r32, imm32`, 1 `alu r, imm32`, 2 `movabs r64, imm64` on amd64) whose
    /// immediate bytes are themselves instructions: `payload` instructions as far as they fit,
    /// 1-byte nops for the rest, then (end % 5) 0 nothing (the inner stream re-synchronises at the end of the outer
    /// instruction), 1 `ret`, 2 `jmp +0`, 3 `jcc +0`, 4 the opcode byte of a `mov r32, imm32` that
    /// swallows the next four bytes of the outer stream (the `follow` instructions, emitted by
    /// this item as ordinary instructions).  Falling into the item executes the outer instruction;
    /// every direct branch to the item lands on the FIRST BYTE OF THE IMMEDIATE.  On the other
    /// ISAs the item is the plain instruction `outer`.
    Overlap { outer: Simple, payload: Vec<Simple>, end: u8, cc: u8, follow: Vec<Simple> },
    /// x86 / amd64: a REP-PREFIXED STRING INSTRUCTION with a small count, possibly ZERO (the
    /// instruction then does nothing at all): `lea edi, [ebp+0x40]`, `mov ecx, count`, then
    /// (op % 4) 0 `rep stosb`, 1 `rep stosd`, 2 `repne scasb`, 3 `repe scasb`.  One nop elsewhere.
    Rep { count: u8, op: u8 },
}

impl Item {
    pub fn is_transfer(&self) -> bool {
        !matches!(self, Item::S(_) | Item::SetDisp { .. } | Item::Junk { .. } | Item::Overlap { .. } | Item::Rep { .. })
    }
    pub fn ends_flow(&self) -> bool {
        matches!(self, Item::Jmp { .. } | Item::Dispatch { .. } | Item::Ret { .. })
    }
    pub fn target(&self) -> Option<usize> {
        match self {
            Item::Cond { target, .. } | Item::Jmp { target, .. } | Item::Loop { target, .. } => Some(*target),
            _ => None,
        }
    }
    pub fn target_mut(&mut self) -> Option<&mut usize> {
        match self {
            Item::Cond { target, .. } | Item::Jmp { target, .. } | Item::Loop { target, .. } => Some(target),
            _ => None,
        }
    }
    pub fn slot_mut(&mut self) -> Option<&mut Simple> {
        match self {
            Item::Cond { slot, .. } | Item::Jmp { slot, .. } | Item::Loop { slot, .. } | Item::Dispatch { slot } | Item::Ret { slot } => Some(slot),
            _ => None,
        }
    }
}

#[derive(Clone, Copy, Debug, PartialEq, Eq)]
pub enum Kind {
    Plain,
    Cond,
    Jmp,
    Ind,
    Ret,
    Junk,
}

#[derive(Clone, Debug)]
pub struct Insn {
    pub addr: u64,
    pub bytes: Vec<u8>,
    pub kind: Kind,
    /// resolved direct target (Cond / Jmp)
    pub target: Option<u64>,
    pub item: usize,
    /// mips: this instruction sits in the delay slot of the previous one
    pub is_slot: bool,
    /// x86: this instruction starts INSIDE another instruction of the program (an overlapping
    /// decoding); such instructions follow the sequential ones in `insns`
    pub inner: bool,
    pub text: String,
    /// mips conditional branch: (test 0 beq, 1 bne, 2 blez, 3 bgtz, 4 bltz, 5 bgez; rs; rt) - the
    /// architectural decision is taken on the register values BEFORE the delay slot executes
    pub mips_test: Option<(u8, u8, u8)>,
}

#[derive(Clone, Debug)]
pub struct Program {
    pub isa: Isa,
    pub base: u64,
    /// the sequential instruction stream in address order (`..main_len`), then the instructions of
    /// the overlapping decodings
    pub insns: Vec<Insn>,
    pub main_len: usize,
    /// item index -> index of its first instruction
    pub item_first: Vec<usize>,
    pub bytes: Vec<u8>,
    /// length of the code proper (bytes may carry a trailing tail)
    pub code_len: usize,
    pub entry: u64,
    pub by_addr: BTreeMap<u64, usize>,
    pub disp_targets: [u64; 2],
    pub disp_addr: Option<u64>,
}

// ---------------------------------------------------------------------------------------------
// x86

const X86_ALU_RR: [(u8, &str); 8] = [(0x01, "add"), (0x29, "sub"), (0x21, "and"), (0x09, "or"), (0x31, "xor"), (0x89, "mov"), (0x39, "cmp"), (0x85, "test")];
const X86_ALU_RI: [(u8, &str); 6] = [(0, "add"), (1, "or"), (4, "and"), (5, "sub"), (6, "xor"), (7, "cmp")];
/// condition codes without the parity ones
pub const X86_CC: [u8; 14] = [4, 5, 2, 3, 8, 9, 0xc, 0xd, 0xe, 0xf, 6, 7, 0, 1];
const X86_CC_NAME: [&str; 16] = ["o", "no", "b", "ae", "e", "ne", "be", "a", "s", "ns", "p", "np", "l", "ge", "le", "g"];

fn x86_rname(m64: bool, wide: bool, r: u8) -> String {
    const N32: [&str; 8] = ["eax", "ecx", "edx", "ebx", "esp", "ebp", "esi", "edi"];
    const N64: [&str; 8] = ["rax", "rcx", "rdx", "rbx", "rsp", "rbp", "rsi", "rdi"];
    if r >= 8 {
        format!("r{}{}", r, if m64 && wide { "" } else { "d" })
    } else if m64 && wide {
        N64[r as usize].to_string()
    } else {
        N32[r as usize].to_string()
    }
}

fn x86_rex(m64: bool, w: bool, reg: u8, rm: u8, out: &mut Vec<u8>) {
    if m64 && (w || reg >= 8 || rm >= 8) {
        out.push(0x40 | ((w as u8) << 3) | (((reg >= 8) as u8) << 2) | ((rm >= 8) as u8));
    }
}

fn modrm(md: u8, reg: u8, rm: u8) -> u8 {
    (md << 6) | ((reg & 7) << 3) | (rm & 7)
}

const X86_NOPS: [&[u8]; 7] = [
    &[0x90],
    &[0x66, 0x90],
    &[0x0f, 0x1f, 0x00],
    &[0x0f, 0x1f, 0x40, 0x00],
    &[0x0f, 0x1f, 0x44, 0x00, 0x00],
    &[0x66, 0x0f, 0x1f, 0x44, 0x00, 0x00],
    &[0x0f, 0x1f, 0x80, 0x00, 0x00, 0x00, 0x00],
];

fn x86_simple(isa: Isa, s: &Simple) -> (Vec<u8>, String) {
    let m64 = isa == Isa::Amd64;
    let w = m64 && s.wide;
    let rd = isa.reg(s.rd);
    let rs = isa.reg(s.rs);
    let mut o = Vec::new();
    match s.kind % 7 {
        0 => {
            let b = X86_NOPS[s.form as usize % 7];
            (b.to_vec(), format!("nop{}", b.len()))
        }
        1 => {
            let (opc, mn) = X86_ALU_RR[s.op as usize % 8];
            x86_rex(m64, w, rs, rd, &mut o);
            o.push(opc);
            o.push(modrm(3, rs, rd));
            (o, format!("{} {}, {}", mn, x86_rname(m64, w, rd), x86_rname(m64, w, rs)))
        }
        2 => {
            let (ext, mn) = X86_ALU_RI[s.op as usize % 6];
            x86_rex(m64, w, 0, rd, &mut o);
            if s.form & 1 == 0 {
                o.push(0x83);
                o.push(modrm(3, ext, rd));
                o.push(s.imm as u8);
                (o, format!("{} {}, byte 0x{:x}", mn, x86_rname(m64, w, rd), s.imm as u8))
            } else {
                o.push(0x81);
                o.push(modrm(3, ext, rd));
                o.extend_from_slice(&s.imm.to_le_bytes());
                (o, format!("{} {}, dword 0x{:x}", mn, x86_rname(m64, w, rd), s.imm))
            }
        }
        3 => {
            if w && s.form & 1 == 1 {
                // movabs r64, imm64
                x86_rex(m64, true, 0, rd, &mut o);
                o.push(0xb8 + (rd & 7));
                let v = ((s.imm as u64) << 32) | (s.imm as u64).rotate_left(7);
                o.extend_from_slice(&v.to_le_bytes());
                (o, format!("movabs {}, 0x{:x}", x86_rname(m64, true, rd), v))
            } else if w {
                x86_rex(m64, true, 0, rd, &mut o);
                o.push(0xc7);
                o.push(modrm(3, 0, rd));
                o.extend_from_slice(&s.imm.to_le_bytes());
                (o, format!("mov {}, sx 0x{:x}", x86_rname(m64, true, rd), s.imm))
            } else {
                x86_rex(m64, false, 0, rd, &mut o);
                o.push(0xb8 + (rd & 7));
                o.extend_from_slice(&s.imm.to_le_bytes());
                (o, format!("mov {}, 0x{:x}", x86_rname(m64, false, rd), s.imm))
            }
        }
        4 | 5 => {
            let disp = ((s.imm % 15) * 8) as u8;
            let base = isa.base();
            x86_rex(m64, w, rd, base, &mut o);
            o.push(if s.kind % 7 == 4 { 0x8b } else { 0x89 });
            o.push(modrm(1, rd, base));
            o.push(disp);
            let b = x86_rname(m64, true, base);
            if s.kind % 7 == 4 {
                (o, format!("mov {}, [{}+0x{:x}]", x86_rname(m64, w, rd), b, disp))
            } else {
                (o, format!("mov [{}+0x{:x}], {}", b, disp, x86_rname(m64, w, rd)))
            }
        }
        _ => {
            let dec = s.op & 1 == 1;
            if !m64 && s.form & 1 == 1 {
                o.push(if dec { 0x48 } else { 0x40 } + (rd & 7));
            } else {
                x86_rex(m64, w, 0, rd, &mut o);
                o.push(0xff);
                o.push(modrm(3, dec as u8, rd));
            }
            (o, format!("{} {}", if dec { "dec" } else { "inc" }, x86_rname(m64, w, rd)))
        }
    }
}

fn rel(target: u64, next: u64) -> i64 {
    target.wrapping_sub(next) as i64
}

// ---------------------------------------------------------------------------------------------
// mips

pub fn mips_rname(r: u8) -> String {
    const N: [&str; 32] = [
        "$zero", "$at", "$v0", "$v1", "$a0", "$a1", "$a2", "$a3", "$t0", "$t1", "$t2", "$t3", "$t4", "$t5", "$t6", "$t7", "$s0", "$s1", "$s2", "$s3", "$s4", "$s5", "$s6", "$s7", "$t8", "$t9",
        "$k0", "$k1", "$gp", "$sp", "$fp", "$ra",
    ];
    N[r as usize & 31].to_string()
}

fn mips_simple(isa: Isa, s: &Simple) -> (u32, String) {
    use mips_asm::{encode, Fields, Op};
    let rd = isa.reg(s.rd);
    let rs = isa.reg(s.rs);
    let rt = isa.reg(s.rt);
    match s.kind % 7 {
        0 => (0, "nop".into()),
        1 => {
            const OPS: [(Op, &str); 8] = [(Op::Addu, "addu"), (Op::Subu, "subu"), (Op::And, "and"), (Op::Or, "or"), (Op::Xor, "xor"), (Op::Nor, "nor"), (Op::Slt, "slt"), (Op::Sltu, "sltu")];
            let (op, mn) = OPS[s.op as usize % 8];
            (encode(op, &Fields { rs, rt, rd, ..Default::default() }), format!("{} {}, {}, {}", mn, mips_rname(rd), mips_rname(rs), mips_rname(rt)))
        }
        2 => {
            const OPS: [(Op, &str); 6] = [(Op::Addiu, "addiu"), (Op::Andi, "andi"), (Op::Ori, "ori"), (Op::Xori, "xori"), (Op::Slti, "slti"), (Op::Sltiu, "sltiu")];
            let (op, mn) = OPS[s.op as usize % 6];
            (encode(op, &Fields { rs, rt: rd, imm: s.imm as u16, ..Default::default() }), format!("{} {}, {}, 0x{:x}", mn, mips_rname(rd), mips_rname(rs), s.imm as u16))
        }
        3 => (encode(Op::Lui, &Fields { rt: rd, imm: s.imm as u16, ..Default::default() }), format!("lui {}, 0x{:x}", mips_rname(rd), s.imm as u16)),
        4 => {
            const OPS: [(Op, &str, u32); 5] = [(Op::Lw, "lw", 4), (Op::Lbu, "lbu", 1), (Op::Lh, "lh", 2), (Op::Lb, "lb", 1), (Op::Lhu, "lhu", 2)];
            let (op, mn, al) = OPS[s.op as usize % 5];
            let off = ((s.imm % 60) * 4) / al * al;
            (encode(op, &Fields { rs: isa.base(), rt: rd, imm: off as u16, ..Default::default() }), format!("{} {}, 0x{:x}({})", mn, mips_rname(rd), off, mips_rname(isa.base())))
        }
        5 => {
            const OPS: [(Op, &str, u32); 3] = [(Op::Sw, "sw", 4), (Op::Sb, "sb", 1), (Op::Sh, "sh", 2)];
            let (op, mn, al) = OPS[s.op as usize % 3];
            let off = ((s.imm % 60) * 4) / al * al;
            (encode(op, &Fields { rs: isa.base(), rt: rd, imm: off as u16, ..Default::default() }), format!("{} {}, 0x{:x}({})", mn, mips_rname(rd), off, mips_rname(isa.base())))
        }
        _ => {
            const OPS: [(Op, &str); 3] = [(Op::Sll, "sll"), (Op::Srl, "srl"), (Op::Sra, "sra")];
            let (op, mn) = OPS[s.op as usize % 3];
            let sa = (s.imm % 31 + 1) as u8;
            (encode(op, &Fields { rt, rd, sa, ..Default::default() }), format!("{} {}, {}, {}", mn, mips_rname(rd), mips_rname(rt), sa))
        }
    }
}

/// register (number) written by a simple instruction on mips, for the delay-slot restriction
fn mips_writes(isa: Isa, s: &Simple) -> Option<u8> {
    match s.kind % 7 {
        0 | 5 => None,
        _ => Some(isa.reg(s.rd)),
    }
}

// ---------------------------------------------------------------------------------------------
// aarch64

fn a64_rname(wide: bool, r: u8) -> String {
    format!("{}{}", if wide { "x" } else { "w" }, r)
}

fn a64_simple(isa: Isa, s: &Simple) -> (u32, String) {
    let rd = isa.reg(s.rd) as u32;
    let rn = isa.reg(s.rs) as u32;
    let rm = isa.reg(s.rt) as u32;
    let sf = s.wide as u32;
    let w = s.wide;
    match s.kind % 7 {
        0 => (a64_asm::nop(), "nop".into()),
        1 => {
            let k = s.op % 5;
            if k == 4 {
                (a64_asm::logical_shifted(sf, 1, 0, 0, rm, 0, 31, rd), format!("mov {}, {}", a64_rname(w, rd as u8), a64_rname(w, rm as u8)))
            } else {
                let (op, sflag, mn) = [(0, 0, "add"), (1, 0, "sub"), (0, 1, "adds"), (1, 1, "subs")][k as usize];
                (a64_asm::add_sub_shifted(sf, op, sflag, 0, rm, 0, rn, rd), format!("{} {}, {}, {}", mn, a64_rname(w, rd as u8), a64_rname(w, rn as u8), a64_rname(w, rm as u8)))
            }
        }
        2 | 6 => {
            let (op, sflag, mn) = [(0, 0, "add"), (1, 0, "sub"), (0, 1, "adds"), (1, 1, "subs")][s.op as usize % 4];
            let imm12 = s.imm & 0xfff;
            (a64_asm::add_sub_imm(sf, op, sflag, 0, imm12, rn, rd), format!("{} {}, {}, #0x{:x}", mn, a64_rname(w, rd as u8), a64_rname(w, rn as u8), imm12))
        }
        3 => {
            let imm16 = s.imm & 0xffff;
            (a64_asm::mov_wide(sf, 2, 0, imm16, rd), format!("mov {}, #0x{:x}", a64_rname(w, rd as u8), imm16))
        }
        4 | 5 => {
            let size = if w { 3 } else { 2 };
            let slot = s.imm % 16;
            let load = s.kind % 7 == 4;
            (
                a64_asm::ldst_uimm(size, 0, load as u32, slot, isa.base() as u32, rd),
                format!("{} {}, [x{}, #{}]", if load { "ldr" } else { "str" }, a64_rname(w, rd as u8), isa.base(), slot * if w { 8 } else { 4 }),
            )
        }
        _ => unreachable!(),
    }
}

// ---------------------------------------------------------------------------------------------
// assembly

struct Raw {
    bytes: Vec<u8>,
    kind: Kind,
    target: Option<u64>,
    is_slot: bool,
    inner: bool,
    text: String,
    mips_test: Option<(u8, u8, u8)>,
}

fn raw(bytes: Vec<u8>, kind: Kind, target: Option<u64>, text: String) -> Raw {
    Raw { bytes, kind, target, is_slot: false, inner: false, text, mips_test: None }
}

fn word(isa: Isa, w: u32) -> Vec<u8> {
    if isa.big_endian() {
        w.to_be_bytes().to_vec()
    } else {
        w.to_le_bytes().to_vec()
    }
}

/// the delay-slot instruction actually emitted: never writes `forbid`
fn mips_slot(isa: Isa, slot: &Simple, forbid: Option<u8>) -> Raw {
    let s = match (mips_writes(isa, slot), forbid) {
        (Some(w), Some(f)) if w == f => Simple::nop(),
        _ => slot.clone(),
    };
    let (w, text) = mips_simple(isa, &s);
    Raw { bytes: word(isa, w), kind: Kind::Plain, target: None, is_slot: true, inner: false, text, mips_test: None }
}

/// `cands` as far as they fit into `cap` bytes, then 1-byte nops
fn x86_fill(isa: Isa, cands: &[Simple], cap: usize) -> Vec<(Vec<u8>, String)> {
    let mut out = Vec::new();
    let mut left = cap;
    for s in cands {
        let (b, t) = x86_simple(isa, s);
        if b.len() <= left {
            left -= b.len();
            out.push((b, t));
        }
    }
    while left > 0 {
        out.push((vec![0x90], "nop1".into()));
        left -= 1;
    }
    out
}

/// An overlapping-decodings item on x86 / amd64 at address `at`: the instructions of the
/// sequential stream (the outer instruction, then what the last inner instruction swallows) and
/// the instructions that start inside the outer one, with their offsets from `at`.  Everything is
/// assembled here; nothing is taken from a disassembler.
fn x86_overlap(isa: Isa, item: &Item, at: u64) -> (Vec<Raw>, Vec<(u64, Raw)>) {
    let Item::Overlap { outer, payload, end, cc, follow } = item else { unreachable!() };
    let m64 = isa == Isa::Amd64;
    let rd = isa.reg(outer.rd);
    let form = if m64 { outer.form % 3 } else { outer.form % 2 };
    let w = m64 && outer.wide && form == 1;
    let mut head = Vec::new();
    let (cap, mn) = match form {
        0 => {
            x86_rex(m64, false, 0, rd, &mut head);
            head.push(0xb8 + (rd & 7));
            (4usize, format!("mov {},", x86_rname(m64, false, rd)))
        }
        1 => {
            let (ext, mn) = X86_ALU_RI[outer.op as usize % 6];
            x86_rex(m64, w, 0, rd, &mut head);
            head.push(0x81);
            head.push(modrm(3, ext, rd));
            (4usize, format!("{} {}, dword", mn, x86_rname(m64, w, rd)))
        }
        _ => {
            x86_rex(m64, true, 0, rd, &mut head);
            head.push(0xb8 + (rd & 7));
            (8usize, format!("movabs {},", x86_rname(m64, true, rd)))
        }
    };
    let off0 = head.len() as u64;
    let outer_len = off0 + cap as u64;
    let next = at + outer_len;
    let end = *end % 5;
    let tail_len = [0usize, 1, 2, 2, 1][end as usize];
    let mut inner: Vec<(u64, Raw)> = Vec::new();
    let mut imm: Vec<u8> = Vec::new();
    for (b, t) in x86_fill(isa, payload, cap - tail_len) {
        let mut r = raw(b.clone(), Kind::Plain, None, t);
        r.inner = true;
        inner.push((off0 + imm.len() as u64, r));
        imm.extend_from_slice(&b);
    }
    let mut after: Vec<Raw> = Vec::new();
    let o = off0 + imm.len() as u64;
    let mut last = match end {
        0 => None,
        1 => {
            imm.push(0xc3);
            Some(raw(vec![0xc3], Kind::Ret, None, "ret".into()))
        }
        2 => {
            imm.extend_from_slice(&[0xeb, 0x00]);
            Some(raw(vec![0xeb, 0x00], Kind::Jmp, Some(next), format!("jmp 0x{:x}", next)))
        }
        3 => {
            let c = X86_CC[*cc as usize % X86_CC.len()];
            imm.extend_from_slice(&[0x70 + c, 0x00]);
            Some(raw(vec![0x70 + c, 0x00], Kind::Cond, Some(next), format!("j{} 0x{:x}", X86_CC_NAME[c as usize], next)))
        }
        _ => {
            // `mov r32, imm32` whose immediate is the next four bytes of the sequential stream
            let r = isa.reg(*cc);
            let r = if r >= 8 { 0 } else { r };
            imm.push(0xb8 + r);
            let mut b = vec![0xb8 + r];
            for (fb, ft) in x86_fill(isa, follow, 4) {
                b.extend_from_slice(&fb);
                after.push(raw(fb, Kind::Plain, None, ft));
            }
            let v = u32::from_le_bytes([b[1], b[2], b[3], b[4]]);
            Some(raw(b, Kind::Plain, None, format!("mov {}, 0x{:x}", x86_rname(m64, false, r), v)))
        }
    };
    if let Some(mut r) = last.take() {
        r.inner = true;
        inner.push((o, r));
    }
    debug_assert_eq!(imm.len(), cap);
    let mut v: u64 = 0;
    for (k, b) in imm.iter().enumerate() {
        v |= (*b as u64) << (8 * k);
    }
    let mut bytes = head;
    bytes.extend_from_slice(&imm);
    let mut main = vec![raw(bytes, Kind::Plain, None, format!("{} 0x{:x}", mn, v))];
    main.extend(after);
    (main, inner)
}

/// byte offset, inside an overlapping-decodings item, of the first inner instruction: where every
/// direct branch to the item lands
fn overlap_offset(isa: Isa, item: &Item) -> u64 {
    if isa.is_x86() && matches!(item, Item::Overlap { .. }) {
        x86_overlap(isa, item, 0).1.first().map(|x| x.0).unwrap_or(0)
    } else {
        0
    }
}

/// Emit the native instructions of one item.  `at` is the address of the item's first
/// instruction, `tgt` the resolved address of its direct target, `disp` the dispatch targets.
fn emit(isa: Isa, item: &Item, at: u64, tgt: u64, near: bool, disp: [u64; 2]) -> Vec<Raw> {
    use mips_asm::{encode, Fields, Op};
    let m64 = isa == Isa::Amd64;
    match isa {
        Isa::X86 | Isa::Amd64 => match item {
            Item::S(s) => {
                let (b, t) = x86_simple(isa, s);
                vec![raw(b, Kind::Plain, None, t)]
            }
            Item::Cond { cc, .. } if !near && *cc >= 16 => {
                // the count-register branches exist with an 8-bit displacement only: jecxz
                // (32-bit mode) and loop
                // (18 loope, 19 loopne: the loop is also left when ZF says so, the count still non-zero)
                let (op, name) = match *cc {
                    16 if isa == Isa::X86 => (0xe3u8, "jecxz"),
                    18 => (0xe1u8, "loope"),
                    19 => (0xe0u8, "loopne"),
                    _ => (0xe2u8, "loop"),
                };
                vec![raw(vec![op, rel(tgt, at + 2) as i8 as u8], Kind::Cond, Some(tgt), format!("{} 0x{:x}", name, tgt))]
            }
            Item::Cond { cc, .. } => {
                let cc = X86_CC[*cc as usize % X86_CC.len()];
                let b = if near {
                    let mut b = vec![0x0f, 0x80 + cc];
                    b.extend_from_slice(&(rel(tgt, at + 6) as i32).to_le_bytes());
                    b
                } else {
                    vec![0x70 + cc, rel(tgt, at + 2) as i8 as u8]
                };
                vec![raw(b, Kind::Cond, Some(tgt), format!("j{} 0x{:x}", X86_CC_NAME[cc as usize], tgt))]
            }
            Item::Jmp { .. } => {
                let b = if near {
                    let mut b = vec![0xe9];
                    b.extend_from_slice(&(rel(tgt, at + 5) as i32).to_le_bytes());
                    b
                } else {
                    vec![0xeb, rel(tgt, at + 2) as i8 as u8]
                };
                vec![raw(b, Kind::Jmp, Some(tgt), format!("jmp 0x{:x}", tgt))]
            }
            Item::Loop { .. } => {
                let c = isa.cnt();
                let dec = vec![0xff, modrm(3, 1, c)];
                let a2 = at + 2;
                let b = if near {
                    let mut b = vec![0x0f, 0x85];
                    b.extend_from_slice(&(rel(tgt, a2 + 6) as i32).to_le_bytes());
                    b
                } else {
                    vec![0x75, rel(tgt, a2 + 2) as i8 as u8]
                };
                vec![raw(dec, Kind::Plain, None, format!("dec {}", x86_rname(m64, false, c))), raw(b, Kind::Cond, Some(tgt), format!("jne 0x{:x}", tgt))]
            }
            Item::Dispatch { .. } => vec![raw(vec![0xff, modrm(3, 4, isa.disp())], Kind::Ind, None, format!("jmp {}", x86_rname(m64, true, isa.disp())))],
            Item::SetDisp { which } => {
                let v = disp[*which as usize & 1];
                if m64 {
                    let mut b = vec![0x48, 0xb8 + isa.disp()];
                    b.extend_from_slice(&v.to_le_bytes());
                    vec![raw(b, Kind::Plain, None, format!("movabs rbx, 0x{:x}", v))]
                } else {
                    let mut b = vec![0xb8 + isa.disp()];
                    b.extend_from_slice(&(v as u32).to_le_bytes());
                    vec![raw(b, Kind::Plain, None, format!("mov ebx, 0x{:x}", v))]
                }
            }
            Item::Ret { .. } => vec![raw(vec![0xc3], Kind::Ret, None, "ret".into())],
            Item::Junk { bytes } => vec![raw(bytes.clone(), Kind::Junk, None, format!("junk {:02x?}", bytes))],
            Item::Overlap { .. } => x86_overlap(isa, item, at).0,
            Item::Rep { count, op } => {
                let lea = if m64 { vec![0x48, 0x8d, 0x7d, 0x40] } else { vec![0x8d, 0x7d, 0x40] };
                let c = (*count % 4) as u32;
                let mut mov = vec![0xb9];
                mov.extend_from_slice(&c.to_le_bytes());
                let (b, t): (Vec<u8>, &str) = match *op % 4 {
                    0 => (vec![0xf3, 0xaa], "rep stosb"),
                    1 => (vec![0xf3, 0xab], "rep stosd"),
                    2 => (vec![0xf2, 0xae], "repne scasb"),
                    _ => (vec![0xf3, 0xae], "repe scasb"),
                };
                vec![
                    raw(lea, Kind::Plain, None, format!("lea {}, [{}+0x40]", x86_rname(m64, true, 7), x86_rname(m64, true, 5))),
                    raw(mov, Kind::Plain, None, format!("mov ecx, 0x{:x}", c)),
                    raw(b, Kind::Plain, None, t.to_string()),
                ]
            }
        },
        Isa::Mips | Isa::Mipsel => {
            let off = |a: u64| -> u16 { ((rel(tgt, a + 4) >> 2) as i16) as u16 };
            match item {
                Item::S(s) | Item::Overlap { outer: s, .. } => {
                    let (w, t) = mips_simple(isa, s);
                    vec![raw(word(isa, w), Kind::Plain, None, t)]
                }
                Item::Cond { cc, ra, rb, slot, .. } => {
                    let rs = isa.reg(*ra);
                    // cc 12..: the second operand of beq / bne is $zero (beqz / bnez)
                    let rt = if *cc >= 12 { 0 } else { isa.reg(*rb) };
                    let (op, mn, two) = [(Op::Beq, "beq", true), (Op::Bne, "bne", true), (Op::Blez, "blez", false), (Op::Bgtz, "bgtz", false), (Op::Bltz, "bltz", false), (Op::Bgez, "bgez", false)][*cc as usize % 6];
                    let rt = if two { rt } else { 0 };
                    let w = encode(op, &Fields { rs, rt, imm: off(at), ..Default::default() });
                    let t = if two { format!("{} {}, {}, 0x{:x}", mn, mips_rname(rs), mips_rname(rt), tgt) } else { format!("{} {}, 0x{:x}", mn, mips_rname(rs), tgt) };
                    let mut b = raw(word(isa, w), Kind::Cond, Some(tgt), t);
                    b.mips_test = Some((*cc % 6, rs, rt));
                    vec![b, mips_slot(isa, slot, None)]
                }
                Item::Jmp { abs, slot, .. } => {
                    // `j` can only reach the 256 MB region of its delay slot
                    let same_region = ((at + 4) & 0xf000_0000) == (tgt & 0xf000_0000);
                    let (w, t) = if *abs && same_region {
                        (encode(Op::J, &Fields { target: (tgt >> 2) as u32, ..Default::default() }), format!("j 0x{:x}", tgt))
                    } else {
                        (encode(Op::Beq, &Fields { rs: 0, rt: 0, imm: off(at), ..Default::default() }), format!("b 0x{:x}", tgt))
                    };
                    vec![raw(word(isa, w), Kind::Jmp, Some(tgt), t), mips_slot(isa, slot, None)]
                }
                Item::Loop { slot, .. } => {
                    let c = isa.cnt();
                    let w1 = encode(Op::Addiu, &Fields { rs: c, rt: c, imm: 0xffff, ..Default::default() });
                    let w2 = encode(Op::Bne, &Fields { rs: c, rt: 0, imm: off(at + 4), ..Default::default() });
                    vec![
                        raw(word(isa, w1), Kind::Plain, None, format!("addiu {0}, {0}, -1", mips_rname(c))),
                        Raw { mips_test: Some((1, c, 0)), ..raw(word(isa, w2), Kind::Cond, Some(tgt), format!("bnez {}, 0x{:x}", mips_rname(c), tgt)) },
                        mips_slot(isa, slot, None),
                    ]
                }
                Item::Dispatch { slot } => {
                    let w = encode(Op::Jr, &Fields { rs: isa.disp(), ..Default::default() });
                    vec![raw(word(isa, w), Kind::Ind, None, "jr $t9".into()), mips_slot(isa, slot, Some(isa.disp()))]
                }
                Item::SetDisp { which } => {
                    let v = disp[*which as usize & 1] as u32;
                    let d = isa.disp();
                    let w1 = encode(Op::Lui, &Fields { rt: d, imm: (v >> 16) as u16, ..Default::default() });
                    let w2 = encode(Op::Ori, &Fields { rs: d, rt: d, imm: v as u16, ..Default::default() });
                    vec![raw(word(isa, w1), Kind::Plain, None, format!("lui $t9, 0x{:x}", v >> 16)), raw(word(isa, w2), Kind::Plain, None, format!("ori $t9, $t9, 0x{:x}", v & 0xffff))]
                }
                Item::Ret { slot } => {
                    let w = encode(Op::Jr, &Fields { rs: 31, ..Default::default() });
                    vec![raw(word(isa, w), Kind::Ret, None, "jr $ra".into()), mips_slot(isa, slot, Some(31))]
                }
                Item::Rep { .. } => vec![raw(word(isa, 0), Kind::Plain, None, "nop".into())],
                Item::Junk { bytes } => {
                    let mut b = bytes.clone();
                    b.resize(4, 0xff);
                    vec![raw(b, Kind::Junk, None, "junk word".into())]
                }
            }
        }
        Isa::A64 => {
            let d19 = ((rel(tgt, at) >> 2) as u32) & 0x7ffff;
            match item {
                Item::S(s) | Item::Overlap { outer: s, .. } => {
                    let (w, t) = a64_simple(isa, s);
                    vec![raw(word(isa, w), Kind::Plain, None, t)]
                }
                Item::Cond { cc, ra, rb, .. } => {
                    let r = isa.reg(*ra) as u32;
                    let k = *cc % 18;
                    let (w, t) = if k < 14 {
                        const N: [&str; 14] = ["eq", "ne", "cs", "cc", "mi", "pl", "vs", "vc", "hi", "ls", "ge", "lt", "gt", "le"];
                        (a64_asm::b_cond(d19, k as u32), format!("b.{} 0x{:x}", N[k as usize], tgt))
                    } else if k < 16 {
                        let sf = (*rb & 1) as u32;
                        (a64_asm::cbz(sf, (k - 14) as u32, d19, r), format!("cb{}z {}, 0x{:x}", if k == 15 { "n" } else { "" }, a64_rname(sf == 1, r as u8), tgt))
                    } else {
                        let bit = (*rb as u32 * 5) % 64;
                        (a64_asm::tbz(bit, (k - 16) as u32, ((rel(tgt, at) >> 2) as u32) & 0x3fff, r), format!("tb{}z x{}, #{}, 0x{:x}", if k == 17 { "n" } else { "" }, r, bit, tgt))
                    };
                    vec![raw(word(isa, w), Kind::Cond, Some(tgt), t)]
                }
                Item::Jmp { .. } => vec![raw(word(isa, a64_asm::b_imm(0, ((rel(tgt, at) >> 2) as u32) & 0x3ff_ffff)), Kind::Jmp, Some(tgt), format!("b 0x{:x}", tgt))],
                Item::Loop { into_slot, .. } => {
                    let c = isa.cnt() as u32;
                    let a2 = at + 4;
                    let d = ((rel(tgt, a2) >> 2) as u32) & 0x7ffff;
                    if *into_slot {
                        // sub + cbnz form
                        vec![
                            raw(word(isa, a64_asm::add_sub_imm(1, 1, 0, 0, 1, c, c)), Kind::Plain, None, format!("sub x{0}, x{0}, #1", c)),
                            raw(word(isa, a64_asm::cbz(1, 1, d, c)), Kind::Cond, Some(tgt), format!("cbnz x{}, 0x{:x}", c, tgt)),
                        ]
                    } else {
                        vec![
                            raw(word(isa, a64_asm::add_sub_imm(1, 1, 1, 0, 1, c, c)), Kind::Plain, None, format!("subs x{0}, x{0}, #1", c)),
                            raw(word(isa, a64_asm::b_cond(d, 1)), Kind::Cond, Some(tgt), format!("b.ne 0x{:x}", tgt)),
                        ]
                    }
                }
                Item::Dispatch { .. } => vec![raw(word(isa, a64_asm::br_reg(0, isa.disp() as u32)), Kind::Ind, None, "br x17".into())],
                Item::SetDisp { which } => {
                    let v = disp[*which as usize & 1];
                    if v < 0x1_0000 {
                        vec![raw(word(isa, a64_asm::mov_wide(1, 2, 0, v as u32, isa.disp() as u32)), Kind::Plain, None, format!("mov x17, #0x{:x}", v))]
                    } else {
                        vec![raw(word(isa, a64_asm::nop()), Kind::Plain, None, "nop (setdisp: address too wide)".into())]
                    }
                }
                Item::Ret { .. } => vec![raw(word(isa, a64_asm::br_reg(2, 30)), Kind::Ret, None, "ret".into())],
                Item::Rep { .. } => vec![raw(word(isa, a64_asm::nop()), Kind::Plain, None, "nop".into())],
                Item::Junk { bytes } => {
                    let mut b = bytes.clone();
                    b.resize(4, 0);
                    vec![raw(b, Kind::Junk, None, "junk word".into())]
                }
            }
        }
    }
}

/// index of the first non-junk item at or after `i`
fn skip_junk(items: &[Item], mut i: usize) -> usize {
    if i >= items.len() {
        i = items.len() - 1;
    }
    while i + 1 < items.len() && matches!(items[i], Item::Junk { .. }) {
        i += 1;
    }
    i
}

/// byte offset, inside the instructions of item `i`, of what a branch `into_slot` lands on
fn slot_offset(isa: Isa, item: &Item, into_slot: bool) -> u64 {
    if !into_slot || !isa.is_mips() {
        return 0;
    }
    match item {
        Item::Cond { .. } | Item::Jmp { .. } | Item::Dispatch { .. } | Item::Ret { .. } => 4,
        Item::Loop { .. } => 8,
        _ => 0,
    }
}

pub fn assemble(isa: Isa, base: u64, items: &[Item], entry_item: usize, disp_items: [usize; 2], tail: &[u8]) -> Program {
    let n = items.len();
    let mut near: Vec<bool> = items
        .iter()
        .map(|it| match it {
            Item::Cond { near, .. } | Item::Jmp { near, .. } | Item::Loop { near, .. } => *near,
            _ => false,
        })
        .collect();
    let into_slot = |it: &Item| match it {
        Item::Cond { into_slot, .. } | Item::Jmp { into_slot, .. } | Item::Loop { into_slot, .. } => *into_slot,
        _ => false,
    };
    let mut item_addr = vec![base; n + 1];
    // `branch`: the address a direct branch to the item lands on (inside an overlapping-decodings
    // item: its first inner instruction); otherwise the item's first instruction
    let resolve = |item_addr: &Vec<u64>, idx: usize, slot: bool, branch: bool| -> u64 {
        let j = skip_junk(items, idx);
        item_addr[j] + slot_offset(isa, &items[j], slot) + if branch { overlap_offset(isa, &items[j]) } else { 0 }
    };
    // layout: lengths depend only on the near flags; widen short x86 branches that do not reach
    for _round in 0..(n + 2) {
        let mut a = base;
        for (i, it) in items.iter().enumerate() {
            item_addr[i] = a;
            let len: usize = emit(isa, it, a, a, near[i], [0, 0]).iter().map(|r| r.bytes.len()).sum();
            a += len as u64;
        }
        item_addr[n] = a;
        let mut changed = false;
        if isa.is_x86() {
            for (i, it) in items.iter().enumerate() {
                if let (Some(t), false) = (it.target(), near[i]) {
                    let tgt = resolve(&item_addr, t, false, true);
                    let end = item_addr[i + 1];
                    let d = rel(tgt, end);
                    if !(-128..=127).contains(&d) {
                        near[i] = true;
                        changed = true;
                    }
                }
            }
        }
        if !changed {
            break;
        }
    }
    let disp = [resolve(&item_addr, disp_items[0], false, false), resolve(&item_addr, disp_items[1], false, false)];
    let mut insns = Vec::new();
    let mut inner_insns = Vec::new();
    let mut item_first = Vec::new();
    let mut bytes = Vec::new();
    let mut disp_addr = None;
    for (i, it) in items.iter().enumerate() {
        item_first.push(insns.len());
        let at = item_addr[i];
        let tgt = match it.target() {
            Some(t) => resolve(&item_addr, t, into_slot(it), true),
            None => at,
        };
        if isa.is_x86() && matches!(it, Item::Overlap { .. }) {
            for (off, r) in x86_overlap(isa, it, at).1 {
                inner_insns.push(Insn { addr: at + off, bytes: r.bytes, kind: r.kind, target: r.target, item: i, is_slot: false, inner: true, text: r.text, mips_test: None });
            }
        }
        let mut a = at;
        for r in emit(isa, it, at, tgt, near[i], disp) {
            if r.kind == Kind::Ind {
                disp_addr = Some(a);
            }
            let len = r.bytes.len() as u64;
            bytes.extend_from_slice(&r.bytes);
            insns.push(Insn { addr: a, bytes: r.bytes, kind: r.kind, target: r.target, item: i, is_slot: r.is_slot, inner: false, text: r.text, mips_test: r.mips_test });
            a += len;
        }
    }
    let code_len = bytes.len();
    bytes.extend_from_slice(tail);
    let main_len = insns.len();
    // an inner instruction starts strictly inside an instruction of the sequential stream: no
    // address occurs twice
    insns.extend(inner_insns);
    let by_addr: BTreeMap<u64, usize> = insns.iter().enumerate().map(|(k, x)| (x.addr, k)).collect();
    debug_assert_eq!(by_addr.len(), insns.len());
    let entry = item_addr[skip_junk(items, entry_item)];
    Program { isa, base, insns, main_len, item_first, bytes, code_len, entry, by_addr, disp_targets: disp, disp_addr }
}

// ---------------------------------------------------------------------------------------------
// ground truth

impl Program {
    pub fn is_branch(&self, k: usize) -> bool {
        matches!(self.insns[k].kind, Kind::Cond | Kind::Jmp | Kind::Ind | Kind::Ret)
    }
    /// number of instructions executed as one step unit starting at instruction k
    pub fn unit_len(&self, k: usize) -> usize {
        if self.isa.is_mips() && self.is_branch(k) {
            2
        } else {
            1
        }
    }
    pub fn unit_bytes(&self, k: usize) -> Vec<u8> {
        let mut v = Vec::new();
        for j in k..(k + self.unit_len(k)).min(self.insns.len()) {
            v.extend_from_slice(&self.insns[j].bytes);
        }
        v
    }
    /// the native addresses a unit visits, in order, after folding A+1 into A
    pub fn unit_addrs(&self, k: usize) -> Vec<u64> {
        let a = self.insns[k].addr;
        if self.unit_len(k) == 2 {
            vec![a, a + 4, a]
        } else {
            vec![a]
        }
    }
    /// address right after the unit starting at k: where it falls through to
    pub fn unit_end(&self, k: usize) -> u64 {
        let last = &self.insns[(k + self.unit_len(k) - 1).min(self.insns.len() - 1)];
        last.addr + last.bytes.len() as u64
    }
    /// index of the instruction the unit starting at k falls through to (`insns.len()`: none).
    /// Decided by ADDRESS: an inner instruction of an overlapping decoding continues with whatever
    /// instruction starts where it ends.
    pub fn next_of(&self, k: usize) -> usize {
        self.by_addr.get(&self.unit_end(k)).copied().unwrap_or(self.insns.len())
    }
    /// ground truth: the addresses at which execution can continue after the unit starting at k
    /// (None: an indirect transfer, a return, junk)
    pub fn succ_addrs(&self, k: usize) -> Option<Vec<u64>> {
        let i = &self.insns[k];
        match i.kind {
            Kind::Plain => Some(vec![self.unit_end(k)]),
            Kind::Cond => Some(vec![i.target?, self.unit_end(k)]),
            Kind::Jmp => Some(vec![i.target?]),
            Kind::Ind | Kind::Ret | Kind::Junk => None,
        }
    }
    /// direct successors (instruction indices) of the unit starting at k
    pub fn unit_succ(&self, k: usize) -> Vec<usize> {
        let next = self.next_of(k);
        let t = self.insns[k].target.and_then(|t| self.by_addr.get(&t).copied());
        match self.insns[k].kind {
            Kind::Plain => vec![next],
            Kind::Cond => vec![t.unwrap(), next],
            Kind::Jmp => vec![t.unwrap()],
            Kind::Ind | Kind::Ret | Kind::Junk => vec![],
        }
    }
    /// unit starts reachable from the given instruction indices through direct branches
    pub fn reach(&self, from: &[usize]) -> BTreeSet<usize> {
        let mut seen = BTreeSet::new();
        let mut work: Vec<usize> = from.to_vec();
        while let Some(k) = work.pop() {
            if k >= self.insns.len() || !seen.insert(k) {
                continue;
            }
            for s in self.unit_succ(k) {
                work.push(s);
            }
        }
        seen
    }
    /// all instruction addresses covered by a set of unit starts
    pub fn covered(&self, units: &BTreeSet<usize>) -> BTreeSet<u64> {
        let mut s = BTreeSet::new();
        for k in units {
            for j in *k..(*k + self.unit_len(*k)).min(self.insns.len()) {
                s.insert(self.insns[j].addr);
            }
        }
        s
    }
}

/// Layout shapes, from an independent replay of the discovery (block starts and 64-byte windows).
#[derive(Clone, Debug, Default)]
pub struct Shapes {
    pub window_cut: bool,
    pub straddle: bool,
    pub cut_on_boundary: bool,
    pub mips_last8: bool,
    pub mid_block_target: bool,
    pub backward: bool,
    pub entry_loop: bool,
    pub target_fallthrough: bool,
    pub target_delay_slot: bool,
    pub long_block: bool,
    pub starts: usize,
}

pub fn shapes(p: &Program, extra_starts: &[u64]) -> Shapes {
    let mut sh = Shapes::default();
    let region_end = p.base + p.bytes.len() as u64;
    let mut queue: Vec<u64> = vec![p.entry];
    queue.extend_from_slice(extra_starts);
    let mut starts: BTreeSet<u64> = BTreeSet::new();
    let mut targets: BTreeSet<u64> = BTreeSet::new();
    while let Some(s) = queue.pop() {
        if !starts.insert(s) {
            continue;
        }
        let Some(&k0) = p.by_addr.get(&s) else { continue };
        let wlen = 64.min(region_end - s);
        let mut k = k0;
        loop {
            if k >= p.insns.len() {
                break;
            }
            let i = &p.insns[k];
            if i.kind == Kind::Junk {
                break;
            }
            let off = i.addr - s;
            let end = off + i.bytes.len() as u64;
            if off >= wlen {
                sh.window_cut = true;
                if p.isa.is_x86() {
                    sh.cut_on_boundary = true;
                }
                queue.push(i.addr);
                break;
            }
            if end > wlen {
                sh.window_cut = true;
                sh.straddle = true;
                queue.push(i.addr);
                break;
            }
            if off >= 56 {
                sh.long_block = true;
            }
            if p.is_branch(k) {
                if p.isa.is_mips() && wlen == 64 && off + 8 >= 64 && off > 0 {
                    sh.mips_last8 = true;
                    sh.window_cut = true;
                    queue.push(i.addr);
                    break;
                }
                for t in p.unit_succ(k) {
                    if t < p.insns.len() {
                        queue.push(p.insns[t].addr);
                    }
                }
                if let Some(t) = i.target {
                    targets.insert(t);
                    if t <= i.addr {
                        sh.backward = true;
                    }
                    if t == p.entry {
                        sh.entry_loop = true;
                    }
                    if i.kind == Kind::Cond && p.next_of(k) < p.insns.len() && p.unit_end(k) == t {
                        sh.target_fallthrough = true;
                    }
                    if let Some(&tk) = p.by_addr.get(&t) {
                        if p.insns[tk].is_slot {
                            sh.target_delay_slot = true;
                        }
                    }
                }
                break;
            }
            k = p.next_of(k);
        }
    }
    // addresses some plain instruction falls through to
    let fallen_into: BTreeSet<u64> = p.insns.iter().filter(|i| i.kind == Kind::Plain && !i.is_slot).map(|i| i.addr + i.bytes.len() as u64).collect();
    for t in targets.iter().chain(extra_starts.iter()) {
        if p.by_addr.contains_key(t) && fallen_into.contains(t) {
            // the previous instruction falls through into the target: the block that holds it
            // also covers the target
            sh.mid_block_target = true;
        }
    }
    sh.starts = starts.len();
    sh
}

pub fn listing(p: &Program) -> String {
    let mut s = String::new();
    let mut order: Vec<usize> = (0..p.insns.len()).collect();
    order.sort_by_key(|k| (p.insns[*k].addr, *k));
    for k in order {
        let i = &p.insns[k];
        let hex: String = i.bytes.iter().map(|b| format!("{:02x}", b)).collect();
        let mark = if i.is_slot {
            "(slot) "
        } else if i.inner {
            "(inside the previous instruction) "
        } else {
            ""
        };
        s.push_str(&format!("  {}0x{:x}: {:<22} {}{}\n", if i.addr == p.entry { ">" } else { " " }, i.addr, hex, mark, i.text));
    }
    s
}
