//! C14 — dead-code elimination preserves observable behaviour.
//!
//! Domain: IL functions from `gen_fn` (all six operation kinds, loops, several exits, optionally a
//! prologue that assigns every pool scalar, optionally blocks unreachable from the entry) into
//! which "gadgets" are spliced that put definitions next to the uses the property's anchors talk
//! about: a definition whose only use is an instruction reading two scalars, a guard, a store
//! operand, a later self-update `x = x + e`, an intrinsic with declared / partially declared /
//! undeclared effects (also one that overwrites a scalar defined just before it), a load whose
//! value only reaches an indirect branch, an immediately overwritten (really dead) definition.
//! Every function is paired with 16 initial states (some with missing scalars).
//!
//! Oracle (nothing here calls a falcon analysis; `FnView`/`Machine`/`Bv` are the harness's own
//! reference interpreter):
//!  * shape: the output of `analysis::dead_code_elimination` has the same block indices, the same
//!    edges with the same guards, the same instruction indices and addresses in the same order,
//!    and every operation is either equal to the input's or a `Nop`;
//!  * behaviour: input and output are run in lock-step by two `refil::Machine`s from the same
//!    initial state with the same havoc oracle (intrinsics with declared written scalars assign
//!    them pseudo-random values, `Branch` is a returning call that clobbers every defined
//!    scalar).  Both sides are at the same location at the same event number, so a scalar name
//!    gets the same havoc value on both sides.  On every initial state on which the INPUT reaches
//!    the end of a block without successors within 500 steps and without a fault:
//!    same location sequence, same stores (address, value) in the same order, the same complete
//!    scalar state in front of every `Branch` and `Intrinsic` (an observation point that became
//!    a `Nop` presents nothing: violation), the same complete scalar state at the end of the
//!    run, and no fault in the output.
//!
//! Readings of the property text that matter (see the report for the argument):
//!  * "present the same scalar state to every indirect branch and intrinsic": the state in which
//!    the operation executes (its pre-state), all scalars.  The output's defined scalars are
//!    always a subset of the input's (DCE only removes definitions), so "every scalar defined in
//!    the input's state has the same value in the output's state" is equality of the two states.
//!  * "whenever a block without successors is reached": compared where the run ends, i.e. after
//!    the last instruction of that block (comparing at the block's first instruction would reject
//!    the textbook removal of `x = 5` in front of an exit block that starts with `x = 2`).
//!  * "from any initial state on which the input runs without fault": a run that is cut by the
//!    step budget has not been shown to be fault free and is not judged.
//!  * a panic of `dead_code_elimination` on a well-formed function is a violation (no result);
//!    an `Err` is not judged (counted; a floor keeps the check from becoming vacuous).

use falcon::analysis::dead_code_elimination;
use falcon::il;
use fv::bv::Bv;
use fv::engine::{self, guard, Failure, Obs, Spec, Tier};
use fv::gen_il::{gen_fn, FnSpec, IlParams, OpSpec};
use fv::refil::{Effect, Fault, FnView, IntrinsicMode, Loc, Machine, RefMem, RefState};
use fv::tape::{from_tape, Tape};
use serde::{Deserialize, Serialize};
use std::collections::{BTreeMap, BTreeSet, HashSet};

const SCRATCH: u64 = 0x1000_0000;
const SCRATCH_LEN: u64 = 64;
const MAX_STEPS: usize = 500;
const N_STATES: usize = 16;

// ------------------------------------------------------------------------------------------
// case
// ------------------------------------------------------------------------------------------

#[derive(Clone, Debug, Serialize, Deserialize)]
struct StateSpec {
    /// scalars that are absent are undefined in the initial state
    scalars: BTreeMap<String, Bv>,
    /// the scratch window [SCRATCH-8, SCRATCH+88) is filled from this seed
    mem_seed: u64,
}

#[derive(Clone, Debug, Serialize, Deserialize)]
struct Case {
    f: FnSpec,
    /// every scalar (name, width) that occurs; for generation of states and rendering
    names: Vec<(String, usize)>,
    big_endian: bool,
    havoc_seed: u64,
    /// the entry block starts by assigning every pool scalar
    definitely_assigned: bool,
    gadgets: Vec<String>,
    states: Vec<StateSpec>,
}

fn konst(v: u128, bits: usize) -> il::Expression {
    il::Expression::constant(il::Constant::new_big(num_bigint::BigUint::from(v), bits))
}

fn sc(name: &str, bits: usize) -> il::Scalar {
    il::scalar(name.to_string(), bits)
}

fn esc(name: &str, bits: usize) -> il::Expression {
    il::Expression::Scalar(sc(name, bits))
}

fn bx(e: il::Expression) -> Box<il::Expression> {
    Box::new(e)
}

/// address inside the scratch window computed from `e` (64 bits)
fn window(e: il::Expression) -> il::Expression {
    il::Expression::Add(bx(il::Expression::And(bx(e), bx(konst(SCRATCH_LEN as u128 - 1, 64)))), bx(konst(SCRATCH as u128, 64)))
}

struct Builder {
    f: FnSpec,
    names: Vec<(String, usize)>,
    fresh: usize,
    next_addr: u64,
    gadgets: Vec<String>,
}

impl Builder {
    fn fresh(&mut self, bits: usize) -> (String, usize) {
        let n = format!("g{}", self.fresh);
        self.fresh += 1;
        self.names.push((n.clone(), bits));
        (n, bits)
    }
    /// a scalar of the wanted width: a pool scalar when one exists (and the tape says so), else fresh
    fn some_scalar(&mut self, t: &mut Tape, bits: usize) -> (String, usize) {
        let cands: Vec<(String, usize)> = self.names.iter().filter(|n| n.1 == bits).cloned().collect();
        if !cands.is_empty() && t.chance(1, 2) {
            t.pick(&cands).clone()
        } else {
            self.fresh(bits)
        }
    }
    fn insert(&mut self, block: usize, pos: usize, op: il::Operation) {
        let a = self.next_addr;
        self.next_addr += 4;
        let pos = pos.min(self.f.blocks[block].len());
        self.f.blocks[block].insert(pos, OpSpec { op, address: Some(a) });
    }
    /// Place `def` and, later on some path, `uses` (in order).  Returns nothing; positions are
    /// drawn from the tape: same block (def before the uses) or def at the end of a block and
    /// the uses at the start of one of its successors.
    fn place(&mut self, t: &mut Tape, def: Vec<il::Operation>, uses: Vec<il::Operation>) {
        let n = self.f.blocks.len();
        let b = t.below(n);
        let succs: Vec<usize> = self.f.edges.iter().filter(|e| e.0 == b).map(|e| e.1).collect();
        if !succs.is_empty() && t.chance(1, 3) {
            let s = *t.pick(&succs);
            let mut at = self.f.blocks[b].len();
            for d in def {
                self.insert(b, at, d);
                at += 1;
            }
            // when s == b the uses land in front of the definition: a loop-carried use
            for (k, u) in uses.into_iter().enumerate() {
                self.insert(s, k, u);
            }
        } else {
            let len = self.f.blocks[b].len();
            let p0 = t.below(len + 1);
            let mut at = p0;
            for d in def {
                self.insert(b, at, d);
                at += 1;
            }
            let len = self.f.blocks[b].len();
            let mut p1 = at + t.below(len - at + 1);
            for u in uses {
                self.insert(b, p1, u);
                p1 += 1;
            }
        }
    }
}

fn small_expr(t: &mut Tape, b: &mut Builder, bits: usize) -> il::Expression {
    match t.below(4) {
        0 => konst(t.biased(bits), bits),
        1 => {
            let (n, w) = b.some_scalar(t, bits);
            esc(&n, w)
        }
        2 => {
            let (n, w) = b.some_scalar(t, bits);
            il::Expression::Add(bx(esc(&n, w)), bx(konst(t.biased(bits), bits)))
        }
        _ => {
            let (n, w) = b.some_scalar(t, bits);
            let (m, _) = b.some_scalar(t, bits);
            il::Expression::Xor(bx(esc(&n, w)), bx(esc(&m, w)))
        }
    }
}

/// something that makes the value of `y` observable: a store of it, or nothing (it reaches the
/// exit / a later branch on its own)
fn observe(t: &mut Tape, y: &(String, usize)) -> Vec<il::Operation> {
    if y.1 >= 8 && t.chance(1, 2) {
        vec![il::Operation::Store { index: konst((SCRATCH + 8 * t.below(4) as u64) as u128, 64), src: esc(&y.0, y.1) }]
    } else {
        Vec::new()
    }
}

/// Most definitions reach an exit (a liveness root) unless something overwrites them: to make the
/// gadget's use the ONLY thing that needs the definition, overwrite the scalar afterwards.
fn kill(t: &mut Tape, x: &(String, usize)) -> Vec<il::Operation> {
    if t.chance(3, 4) {
        vec![il::Operation::Assign { dst: sc(&x.0, x.1), src: konst(t.below(3) as u128, x.1) }]
    } else {
        Vec::new()
    }
}

const GADGETS: [&str; 9] = [
    "two-operand-use",
    "guard-use",
    "store-operand",
    "self-update",
    "dead-definition",
    "intrinsic",
    "intrinsic-overwrites",
    "load-feeds-branch",
    "store-address-operand",
];

fn gadget(t: &mut Tape, b: &mut Builder) {
    let k = t.weighted(&[22, 20, 12, 14, 14, 12, 6, 6, 6]);
    let w = *t.pick(&[32usize, 8, 16, 64]);
    match k {
        0 => {
            // T = e ; Y = T op Z
            let tt = b.some_scalar(t, w);
            let z = b.some_scalar(t, w);
            let y = b.some_scalar(t, w);
            let e = small_expr(t, b, w);
            let (l, r) = if t.chance(1, 2) { (esc(&z.0, w), esc(&tt.0, w)) } else { (esc(&tt.0, w), esc(&z.0, w)) };
            let src = match t.below(7) {
                0 => il::Expression::Add(bx(l), bx(r)),
                1 => il::Expression::Sub(bx(l), bx(r)),
                2 => il::Expression::Xor(bx(l), bx(r)),
                3 => il::Expression::Add(bx(esc(&tt.0, w)), bx(esc(&tt.0, w))), // the same scalar twice
                // T only as the shift amount / only as the shifted value
                4 => il::Expression::AShr(bx(esc(&z.0, w)), bx(esc(&tt.0, w))),
                5 => il::Expression::AShr(bx(esc(&tt.0, w)), bx(esc(&z.0, w))),
                _ => il::Expression::Shl(bx(esc(&z.0, w)), bx(esc(&tt.0, w))),
            };
            let mut uses = vec![il::Operation::Assign { dst: sc(&y.0, w), src }];
            if y.0 != tt.0 {
                uses.extend(kill(t, &tt));
            }
            uses.extend(observe(t, &y));
            b.place(t, vec![il::Operation::Assign { dst: sc(&tt.0, w), src: e }], uses);
        }
        1 => {
            // C = cmp ; guards C / C == 0 on a two-way block
            let two: Vec<usize> = (0..b.f.blocks.len()).filter(|h| b.f.edges.iter().filter(|e| e.0 == *h).count() == 2).collect();
            if two.is_empty() {
                return gadget_fallback(t, b, w);
            }
            let h = *t.pick(&two);
            let c = b.fresh(1);
            let l = small_expr(t, b, w);
            let r = small_expr(t, b, w);
            let cmp = match t.below(3) {
                0 => il::Expression::Cmpeq(bx(l), bx(r)),
                1 => il::Expression::Cmpltu(bx(l), bx(r)),
                _ => il::Expression::Cmplts(bx(l), bx(r)),
            };
            // the guard reads C alone, or C together with another 1-bit scalar
            let g = if t.chance(1, 3) {
                let d = b.some_scalar(t, 1);
                il::Expression::Xor(bx(esc(&c.0, 1)), bx(esc(&d.0, 1)))
            } else {
                esc(&c.0, 1)
            };
            let mut first = true;
            for e in b.f.edges.iter_mut().filter(|e| e.0 == h) {
                e.2 = Some(if first { g.clone() } else { il::Expression::Cmpeq(bx(g.clone()), bx(konst(0, 1))) });
                first = false;
            }
            // define C in the block itself (anywhere) or at the end of a predecessor
            let mut preds: Vec<usize> = b.f.edges.iter().filter(|e| e.1 == h && e.0 != h).map(|e| e.0).collect();
            if preds.iter().collect::<std::collections::BTreeSet<_>>().len() == 1 && t.chance(2, 3) {
                // give the guarded block a second predecessor: the edge p -> h is split over a 1-bit
                // selector, one half goes through a new empty block q (guards of p stay exclusive
                // and exhaustive)
                let p = preds[0];
                let x = b.some_scalar(t, 1);
                let q = b.f.blocks.len();
                b.f.blocks.push(Vec::new());
                let idx = b.f.edges.iter().position(|e| e.0 == p && e.1 == h).unwrap();
                let xs = esc(&x.0, 1);
                let nx = il::Expression::Cmpeq(bx(xs.clone()), bx(konst(0, 1)));
                let (g1, g2) = match b.f.edges[idx].2.clone() {
                    None => (xs, nx),
                    Some(g) => (il::Expression::And(bx(g.clone()), bx(xs)), il::Expression::And(bx(g), bx(nx))),
                };
                b.f.edges[idx].2 = Some(g1);
                b.f.edges.push((p, q, Some(g2)));
                b.f.edges.push((q, h, None));
                preds.push(q);
            }
            let def = il::Operation::Assign { dst: sc(&c.0, 1), src: cmp };
            let several = preds.iter().collect::<std::collections::BTreeSet<_>>().len() >= 2;
            if !preds.is_empty() && if several { t.chance(3, 5) } else { t.chance(1, 4) } {
                // every predecessor defines it (otherwise the guard may read an undefined scalar);
                // with several predecessors each gets its own definition, so that two or more
                // definitions reach the guard and the guard is their only use
                let mut done = std::collections::BTreeSet::new();
                for (k, p) in preds.into_iter().enumerate() {
                    if !done.insert(p) {
                        continue;
                    }
                    let at = b.f.blocks[p].len();
                    let d = if several && k > 0 {
                        il::Operation::Assign { dst: sc(&c.0, 1), src: if t.chance(1, 2) { konst((k & 1) as u128, 1) } else { il::Expression::Cmpeq(bx(small_expr(t, b, w)), bx(small_expr(t, b, w))) } }
                    } else {
                        def.clone()
                    };
                    b.insert(p, at, d);
                }
                if several {
                    b.gadgets.push("guard-use-several-definitions".to_string());
                }
                if h == 0 {
                    b.insert(0, 0, def);
                }
            } else {
                let len = b.f.blocks[h].len();
                let at = t.below(len + 1);
                b.insert(h, at, def);
            }
            if t.chance(3, 4) {
                let succs: Vec<usize> = b.f.edges.iter().filter(|e| e.0 == h).map(|e| e.1).collect();
                for s in succs {
                    b.insert(s, 0, il::Operation::Assign { dst: sc(&c.0, 1), src: konst(0, 1) });
                }
            }
        }
        2 => {
            // T = e ; [const] = T      (one scalar read by the store)
            let tt = b.some_scalar(t, w);
            let e = small_expr(t, b, w);
            let st = il::Operation::Store { index: konst((SCRATCH + t.below(48) as u64) as u128, 64), src: esc(&tt.0, w) };
            let mut uses = vec![st];
            uses.extend(kill(t, &tt));
            b.place(t, vec![il::Operation::Assign { dst: sc(&tt.0, w), src: e }], uses);
        }
        3 => {
            // X = e ; X = X op e2 ; observe X
            let x = b.some_scalar(t, w);
            let e = small_expr(t, b, w);
            let e2 = if t.chance(2, 3) { konst(1 + t.below(8) as u128, w) } else { small_expr(t, b, w) };
            let xx = bx(esc(&x.0, w));
            let upd = match t.below(3) {
                0 => il::Expression::Add(xx, bx(e2)),
                1 => il::Expression::Sub(xx, bx(e2)),
                _ => il::Expression::Xor(xx, bx(e2)),
            };
            let mut uses = vec![il::Operation::Assign { dst: sc(&x.0, w), src: upd }];
            uses.extend(observe(t, &x));
            b.place(t, vec![il::Operation::Assign { dst: sc(&x.0, w), src: e }], uses);
        }
        4 => {
            // T = e1 ; T = e2 with nothing in between: the first one is dead
            let tt = b.some_scalar(t, w);
            let e1 = small_expr(t, b, w);
            let e2 = konst(t.biased(w), w);
            let first = if w >= 8 && t.chance(1, 4) {
                il::Operation::Load { dst: sc(&tt.0, w), index: konst((SCRATCH + t.below(40) as u64) as u128, 64) }
            } else {
                il::Operation::Assign { dst: sc(&tt.0, w), src: e1 }
            };
            let n = b.f.blocks.len();
            let blk = t.below(n);
            let len = b.f.blocks[blk].len();
            let at = t.below(len + 1);
            b.insert(blk, at, first);
            b.insert(blk, at + 1, il::Operation::Assign { dst: sc(&tt.0, w), src: e2 });
        }
        5 | 6 => {
            // an intrinsic: declared, partially declared or undeclared effects
            let x = b.some_scalar(t, w);
            let y = b.some_scalar(t, w);
            let (written, read) = if k == 6 {
                (Some(vec![esc(&x.0, w)]), if t.chance(1, 2) { None } else { Some(vec![esc(&y.0, w)]) })
            } else {
                match t.weighted(&[30, 20, 20, 15, 15]) {
                    0 => (None, None),
                    1 => (Some(vec![esc(&x.0, w)]), Some(vec![esc(&y.0, w)])),
                    2 => (Some(vec![esc(&x.0, w)]), None),
                    3 => (None, Some(vec![esc(&y.0, w)])),
                    _ => (Some(Vec::new()), Some(Vec::new())),
                }
            };
            let intr = il::Operation::Intrinsic {
                intrinsic: il::Intrinsic::new("gadget", format!("gadget {}", b.fresh), Vec::new(), written, read, vec![0x0f, 0x05]),
            };
            if k == 6 {
                // X = e ; intrinsic(writes X)
                let e = small_expr(t, b, w);
                b.place(t, vec![il::Operation::Assign { dst: sc(&x.0, w), src: e }], vec![intr]);
            } else {
                let mut uses = vec![il::Operation::Assign { dst: sc(&y.0, w), src: il::Expression::Add(bx(esc(&x.0, w)), bx(konst(1, w))) }];
                uses.extend(observe(t, &y));
                b.place(t, vec![intr], uses);
            }
        }
        7 => {
            // T = [a] ; branch   (the loaded value only reaches the indirect branch)
            let tt = b.some_scalar(t, 64);
            let ld = il::Operation::Load { dst: sc(&tt.0, 64), index: konst((SCRATCH + t.below(40) as u64) as u128, 64) };
            let target = if t.chance(1, 2) { esc(&tt.0, 64) } else { konst(0x5000, 64) };
            let mut uses = vec![il::Operation::Branch { target }];
            uses.extend(kill(t, &tt));
            b.place(t, vec![ld], uses);
        }
        _ => {
            // A = e ; [window(A + Z)] = V    (the address reads two scalars)
            let a = b.some_scalar(t, 64);
            let z = b.some_scalar(t, 64);
            let v = b.some_scalar(t, w);
            let e = small_expr(t, b, 64);
            let idx = if t.chance(1, 2) { window(il::Expression::Add(bx(esc(&a.0, 64)), bx(esc(&z.0, 64)))) } else { window(esc(&a.0, 64)) };
            let st = il::Operation::Store { index: idx, src: esc(&v.0, w) };
            let mut uses = vec![st];
            uses.extend(kill(t, &a));
            b.place(t, vec![il::Operation::Assign { dst: sc(&a.0, 64), src: e }], uses);
        }
    }
    b.gadgets.push(GADGETS[k].to_string());
}

fn gadget_fallback(t: &mut Tape, b: &mut Builder, w: usize) {
    let tt = b.some_scalar(t, w);
    let e = small_expr(t, b, w);
    let st = il::Operation::Store { index: konst(SCRATCH as u128, 64), src: esc(&tt.0, w) };
    b.place(t, vec![il::Operation::Assign { dst: sc(&tt.0, w), src: e }], vec![st]);
    b.gadgets.push("store-operand".to_string());
}

fn decode(t: &mut Tape) -> Case {
    let mut p = IlParams::default();
    p.branch = true;
    p.intrinsic = true;
    p.mem = true;
    p.max_blocks = *t.pick(&[5usize, 3, 7]);
    p.max_ops = *t.pick(&[3usize, 2, 5]);
    p.max_expr_depth = *t.pick(&[2usize, 1, 3]);
    p.definitely_assigned = t.chance(1, 2);
    p.unreachable = t.chance(1, 3);
    p.scratch_base = SCRATCH;
    p.scratch_len = SCRATCH_LEN;
    let big_endian = t.chance(1, 2);
    let havoc_seed = t.u64();
    p.index_gaps_permille = 200;
    p.nop_placeholders = true;
    p.function_index = true;
    let g = gen_fn(t, &p);
    let mut f = g.spec;
    // gen_fn repairs reachability by adding edges and wraps the last block around to block 0, which
    // leaves few blocks without successors: most runs would never end.  Turn blocks into sinks as
    // long as every block stays reachable (unreachable blocks are requested separately).
    {
        let n = f.blocks.len();
        let all_reachable = |f: &FnSpec| f.reachable_blocks().len() == f.blocks.len();
        let was = all_reachable(&f);
        for b in (1..n).rev() {
            let want = if b == n - 1 { t.chance(3, 4) } else { t.chance(1, 4) };
            if !want || !f.edges.iter().any(|e| e.0 == b) {
                continue;
            }
            let saved = f.edges.clone();
            f.edges.retain(|e| e.0 != b);
            if was && !all_reachable(&f) {
                f.edges = saved;
            }
        }
        // at least one block without successors, if that is possible without cutting blocks off
        if !(0..n).any(|b| !f.edges.iter().any(|e| e.0 == b)) && t.chance(7, 8) {
            for b in (0..n).rev() {
                let saved = f.edges.clone();
                f.edges.retain(|e| e.0 != b);
                if was && !all_reachable(&f) {
                    f.edges = saved;
                } else {
                    break;
                }
            }
        }
        f.exit = (0..n).rev().find(|b| !f.edges.iter().any(|e| e.0 == *b)).or(Some(n - 1));
    }
    let mut b = Builder { f, names: g.pool.scalars.clone(), fresh: 0, next_addr: 0x8000, gadgets: Vec::new() };
    let n_gadgets = t.weighted(&[10, 35, 35, 20]);
    for _ in 0..n_gadgets {
        gadget(t, &mut b);
    }
    // initial states
    let mut states = Vec::new();
    for _ in 0..N_STATES {
        // 0: everything defined; 1: a few scalars missing; 2: most missing (useful behind a prologue)
        let kind = if p.definitely_assigned { t.weighted(&[30, 30, 40]) } else { t.weighted(&[70, 25, 5]) };
        let mut scalars = BTreeMap::new();
        for (name, w) in &b.names {
            let missing = match kind {
                0 => false,
                1 => t.chance(1, 6),
                _ => t.chance(2, 3),
            };
            if missing {
                continue;
            }
            let v = if *w == 64 && t.chance(1, 2) { (SCRATCH + t.below(SCRATCH_LEN as usize) as u64) as u128 } else { t.biased(*w) };
            scalars.insert(name.clone(), Bv::from_u128(v, *w));
        }
        states.push(StateSpec { scalars, mem_seed: t.raw() as u64 });
    }
    // one function in four (never where every scalar is meant to be assigned before it is read):
    // an instruction scheduler went over a block - two non-branch instructions changed places
    // through instructions_mut(), so that indices no longer equal positions
    if !p.definitely_assigned && t.chance(1, 4) {
        for _ in 0..t.range(1, 2) {
            let cands: Vec<usize> = (0..b.f.blocks.len()).filter(|k| b.f.blocks[*k].iter().filter(|o| !matches!(o.op, il::Operation::Branch { .. })).count() >= 2).collect();
            if cands.is_empty() {
                break;
            }
            let blk = cands[t.below(cands.len())];
            let pos: Vec<usize> = (0..b.f.blocks[blk].len()).filter(|k| !matches!(b.f.blocks[blk][*k].op, il::Operation::Branch { .. })).collect();
            let i = t.below(pos.len() - 1);
            let j = i + 1 + t.below(pos.len() - 1 - i);
            b.f.swaps.push((blk, pos[i], pos[j]));
        }
    }
    Case { f: b.f, names: b.names, big_endian, havoc_seed, definitely_assigned: p.definitely_assigned, gadgets: b.gadgets, states }
}

fn build_state(s: &StateSpec, big_endian: bool) -> RefState {
    let mut mem = RefMem::new(big_endian);
    let lo = SCRATCH - 8;
    let hi = SCRATCH + SCRATCH_LEN + 24;
    for a in lo..hi {
        let x = (a ^ s.mem_seed).wrapping_mul(0x9E37_79B9_7F4A_7C15) >> 56;
        mem.bytes.insert(a, x as u8);
    }
    RefState { scalars: s.scalars.clone(), mem }
}

// ------------------------------------------------------------------------------------------
// reading operations (own walkers over the public enums)
// ------------------------------------------------------------------------------------------

fn expr_reads(e: &il::Expression, out: &mut Vec<String>) {
    use il::Expression as E;
    match e {
        E::Scalar(s) => out.push(s.name().to_string()),
        E::Constant(_) => {}
        E::Add(l, r) | E::Sub(l, r) | E::Mul(l, r) | E::Divu(l, r) | E::Modu(l, r) | E::Divs(l, r) | E::Mods(l, r) | E::And(l, r)
        | E::Or(l, r) | E::Xor(l, r) | E::Shl(l, r) | E::Shr(l, r) | E::AShr(l, r) | E::Cmpeq(l, r) | E::Cmpneq(l, r) | E::Cmplts(l, r)
        | E::Cmpltu(l, r) => {
            expr_reads(l, out);
            expr_reads(r, out);
        }
        E::Zext(_, x) | E::Sext(_, x) | E::Trun(_, x) => expr_reads(x, out),
        E::Ite(c, a, b) => {
            expr_reads(c, out);
            expr_reads(a, out);
            expr_reads(b, out);
        }
    }
}

/// scalars whose value the reference interpreter needs to execute the operation (occurrences, in order)
fn op_reads(op: &il::Operation) -> Vec<String> {
    let mut v = Vec::new();
    match op {
        il::Operation::Assign { src, .. } => expr_reads(src, &mut v),
        il::Operation::Store { index, src } => {
            expr_reads(index, &mut v);
            expr_reads(src, &mut v);
        }
        il::Operation::Load { index, .. } => expr_reads(index, &mut v),
        il::Operation::Branch { target } => expr_reads(target, &mut v),
        il::Operation::Intrinsic { .. } | il::Operation::Nop { .. } => {}
    }
    v
}

/// declared written scalars of an intrinsic (None = undeclared)
fn intrinsic_writes(i: &il::Intrinsic) -> Option<Vec<String>> {
    i.written_expressions().map(|es| {
        let mut v = Vec::new();
        for e in es {
            expr_reads(e, &mut v);
        }
        v
    })
}

fn intrinsic_reads(i: &il::Intrinsic) -> Option<Vec<String>> {
    i.read_expressions().map(|es| {
        let mut v = Vec::new();
        for e in es {
            expr_reads(e, &mut v);
        }
        v
    })
}

fn op_writes(op: &il::Operation) -> Vec<String> {
    match op {
        il::Operation::Assign { dst, .. } | il::Operation::Load { dst, .. } => vec![dst.name().to_string()],
        il::Operation::Intrinsic { intrinsic } => intrinsic_writes(intrinsic).unwrap_or_default(),
        _ => Vec::new(),
    }
}

fn op_kind(op: &il::Operation) -> &'static str {
    match op {
        il::Operation::Assign { .. } => "assign",
        il::Operation::Store { .. } => "store",
        il::Operation::Load { .. } => "load",
        il::Operation::Branch { .. } => "branch",
        il::Operation::Intrinsic { .. } => "intrinsic",
        il::Operation::Nop { .. } => "nop",
    }
}

fn is_nop(op: &il::Operation) -> bool {
    matches!(op, il::Operation::Nop { .. })
}

/// How an instruction that reads `x` uses it, in the terms of the anchors.
fn classify_use(op: &il::Operation, x: &str) -> &'static str {
    let reads = op_reads(op);
    if reads.len() >= 2 {
        "used-by-instruction-reading-several-scalars"
    } else if op_writes(op).iter().any(|w| w == x) {
        "used-by-self-update"
    } else {
        "used-by-instruction-reading-one-scalar"
    }
}

fn block_of(l: Loc) -> usize {
    match l {
        Loc::Instr(b, _) | Loc::Empty(b) => b,
        Loc::Edge(h, _) => h,
    }
}

fn op_at<'a>(v: &'a FnView, l: Loc) -> Option<&'a il::Operation> {
    match l {
        Loc::Instr(b, i) => v.instr(b, i).map(|x| &x.op),
        _ => None,
    }
}

/// the last location of a block without out-edges: where a run ends
fn is_final_loc(v: &FnView, l: Loc) -> bool {
    match l {
        Loc::Edge(..) => false,
        Loc::Empty(b) => v.out_edges(b).is_empty(),
        Loc::Instr(b, i) => v.out_edges(b).is_empty() && v.blocks[&b].last().map(|x| x.index) == Some(i),
    }
}

// ------------------------------------------------------------------------------------------
// reference def-use (static; used for the generator classes only, never as an oracle)
// ------------------------------------------------------------------------------------------

#[derive(Clone, Debug, PartialEq, Eq, PartialOrd, Ord)]
enum RefUse {
    Several,
    StoreOperand,
    SelfUpdate,
    Single,
    Guard,
    Branch,
    Intrinsic,
    IntrinsicOverwriting,
    Exit,
}

struct RefDef {
    loc: Loc,
    uses: BTreeSet<(Loc, RefUse)>,
}

fn reachable_locs(v: &FnView) -> BTreeSet<Loc> {
    let mut seen = BTreeSet::new();
    let mut stack: Vec<Loc> = v.entry_loc().into_iter().collect();
    while let Some(l) = stack.pop() {
        if seen.insert(l) {
            stack.extend(v.succ_locs(l));
        }
    }
    seen
}

fn ref_def_use(v: &FnView, reach: &BTreeSet<Loc>) -> Vec<RefDef> {
    let mut out = Vec::new();
    for l in reach {
        let Some(op) = op_at(v, *l) else { continue };
        for x in op_writes(op) {
            let mut uses = BTreeSet::new();
            if is_final_loc(v, *l) {
                uses.insert((*l, RefUse::Exit));
            }
            let mut seen = BTreeSet::new();
            let mut stack = v.succ_locs(*l);
            while let Some(m) = stack.pop() {
                if !seen.insert(m) {
                    continue;
                }
                let mut killed = false;
                match m {
                    Loc::Edge(h, t) => {
                        if let Some(c) = v.edges.iter().find(|e| e.head == h && e.tail == t).and_then(|e| e.cond.as_ref()) {
                            let mut r = Vec::new();
                            expr_reads(c, &mut r);
                            if r.contains(&x) {
                                uses.insert((m, RefUse::Guard));
                            }
                        }
                    }
                    Loc::Empty(_) => {}
                    Loc::Instr(..) => {
                        let mop = op_at(v, m).unwrap();
                        let reads = op_reads(mop);
                        let writes = op_writes(mop);
                        if reads.contains(&x) {
                            let u = if matches!(mop, il::Operation::Store { .. }) {
                                RefUse::StoreOperand
                            } else if reads.len() >= 2 {
                                RefUse::Several
                            } else if writes.contains(&x) {
                                RefUse::SelfUpdate
                            } else {
                                RefUse::Single
                            };
                            uses.insert((m, u));
                        }
                        match mop {
                            il::Operation::Branch { .. } => {
                                uses.insert((m, RefUse::Branch));
                            }
                            il::Operation::Intrinsic { .. } => {
                                uses.insert((m, if writes.contains(&x) { RefUse::IntrinsicOverwriting } else { RefUse::Intrinsic }));
                            }
                            _ => {}
                        }
                        killed = writes.contains(&x);
                    }
                }
                if killed {
                    continue;
                }
                if is_final_loc(v, m) {
                    uses.insert((m, RefUse::Exit));
                }
                stack.extend(v.succ_locs(m));
            }
            out.push(RefDef { loc: *l, uses });
        }
    }
    out
}

// ------------------------------------------------------------------------------------------
// shape
// ------------------------------------------------------------------------------------------

/// Returns the set of instructions that became a `Nop`.
fn check_shape(vin: &FnView, vout: &FnView) -> Result<BTreeSet<Loc>, Failure> {
    let bi: Vec<usize> = vin.blocks.keys().copied().collect();
    let bo: Vec<usize> = vout.blocks.keys().copied().collect();
    if bi != bo {
        fv::fail!("C14|shape|blocks", "block indices changed: {:?} -> {:?}", bi, bo);
    }
    if vin.entry != vout.entry {
        fv::fail!("C14|shape|entry", "entry changed: {:?} -> {:?}", vin.entry, vout.entry);
    }
    if vin.edges.len() != vout.edges.len() {
        fv::fail!("C14|shape|edges", "{} edges became {}", vin.edges.len(), vout.edges.len());
    }
    for (a, b) in vin.edges.iter().zip(vout.edges.iter()) {
        if a.head != b.head || a.tail != b.tail {
            fv::fail!("C14|shape|edges", "edge {}->{} became {}->{}", a.head, a.tail, b.head, b.tail);
        }
        if a.cond != b.cond {
            fv::fail!("C14|shape|edge-guard", "guard of {}->{} changed: {:?} -> {:?}", a.head, a.tail, a.cond.as_ref().map(|c| c.to_string()), b.cond.as_ref().map(|c| c.to_string()));
        }
    }
    let mut removed = BTreeSet::new();
    for (bidx, is) in &vin.blocks {
        let os = &vout.blocks[bidx];
        if is.len() != os.len() {
            fv::fail!("C14|shape|instruction-positions", "block {} has {} instructions, had {}", bidx, os.len(), is.len());
        }
        for (a, b) in is.iter().zip(os.iter()) {
            if a.index != b.index || a.address != b.address {
                fv::fail!("C14|shape|instruction-positions", "block {}: instruction index/address ({}, {:?}) became ({}, {:?})", bidx, a.index, a.address, b.index, b.address);
            }
            if a.op != b.op {
                if !is_nop(&b.op) {
                    fv::fail!("C14|shape|operation-rewritten", "block {} instruction {}: `{}` became `{}`, which is neither the same operation nor a nop", bidx, a.index, a.op, b.op);
                }
                removed.insert(Loc::Instr(*bidx, a.index));
            }
        }
    }
    Ok(removed)
}

// ------------------------------------------------------------------------------------------
// lock-step execution
// ------------------------------------------------------------------------------------------

enum Adv {
    Next(Effect),
    End(Effect),
    Fault(Fault, /* the operation itself executed; choosing the successor failed */ bool),
}

/// One step with the modelling choices of DESIGN 1.8: `Branch` is a call that returns with every
/// defined scalar clobbered; reaching the end of a block without out-edges ends the run.
fn advance(m: &mut Machine, v: &FnView) -> Adv {
    let cur = m.loc;
    match m.step() {
        Ok(Effect::Branch { target }) => {
            m.havoc_defined();
            match m.fallthrough() {
                Ok(l) => {
                    m.loc = l;
                    Adv::Next(Effect::Branch { target })
                }
                Err(Fault::NoEdge) if is_final_loc(v, cur) => Adv::End(Effect::Branch { target }),
                Err(f) => Adv::Fault(f, true),
            }
        }
        Ok(e) => Adv::Next(e),
        Err(Fault::NoEdge) if m.last_effect.is_some() && is_final_loc(v, cur) => Adv::End(m.last_effect.clone().unwrap()),
        Err(f) => {
            let executed = m.last_effect.is_some();
            Adv::Fault(f, executed)
        }
    }
}

#[derive(Clone, Debug)]
struct Taint {
    origin: Loc,
    origin_op: String,
    /// how the first kept instruction that read the removed definition's scalar used it
    user: Option<(&'static str, String)>,
}

#[derive(Default)]
struct RunStats {
    passed_removed: BTreeSet<Loc>,
    kinds: BTreeSet<&'static str>,
    stores: usize,
    branches: usize,
    intrinsics: usize,
}

enum Outcome {
    Terminated,
    /// the input provably never faults and never ends: the prefix up to the repetition is judged
    LoopsForever,
    Fault(&'static str),
    StepLimit,
}

struct Run {
    outcome: Outcome,
    steps: usize,
    violation: Option<Failure>,
    stats: RunStats,
}

fn blame(taint: &BTreeMap<String, Taint>, names: &[String], direct: &'static str, direct_text: &str) -> (String, String) {
    for n in names {
        if let Some(t) = taint.get(n) {
            let (u, ut) = match &t.user {
                Some((u, ut)) => (*u, ut.clone()),
                None => (direct, direct_text.to_string()),
            };
            return (
                format!("C14|live-definition-removed|{}", u),
                format!("`{}` at {:?} was replaced by nop although its value of {} is still needed: {} `{}`", t.origin_op, t.origin, n, u, ut),
            );
        }
    }
    ("C14|divergence|origin-unknown".to_string(), "no removed definition could be blamed".to_string())
}

fn diff_states(a: &BTreeMap<String, Bv>, b: &BTreeMap<String, Bv>) -> Vec<String> {
    let mut v: Vec<String> = a.iter().filter(|(k, x)| b.get(*k) != Some(*x)).map(|(k, _)| k.clone()).collect();
    v.extend(b.keys().filter(|k| !a.contains_key(*k)).cloned());
    v
}

fn show(s: &BTreeMap<String, Bv>, names: &[String]) -> String {
    names.iter().map(|n| match s.get(n) { Some(v) => format!("{}={}", n, v), None => format!("{}=<undefined>", n) }).collect::<Vec<_>>().join(" ")
}

fn run_pair(vin: &FnView, vout: &FnView, removed: &BTreeSet<Loc>, st: &RefState, seed: u64, state_no: usize) -> Result<Run, Failure> {
    fn mk<'a>(v: &'a FnView, st: &RefState, seed: u64) -> Result<Machine<'a>, Failure> {
        let mut m = Machine::new(v, st.clone()).map_err(|e| Failure::new("C14|harness|machine", format!("{:?}", e)))?;
        m.intrinsics = IntrinsicMode::Havoc;
        m.havoc_seed = seed;
        Ok(m)
    }
    let mut a = mk(vin, st, seed)?;
    let mut b = mk(vout, st, seed)?;
    let mut taint: BTreeMap<String, Taint> = BTreeMap::new();
    let mut pending: Option<Failure> = None;
    let mut lock = true;
    let mut stats = RunStats::default();
    // configurations (location, scalars) of the input seen at edges since the last havoc event or
    // store: meeting one again (exact comparison) proves that the input, which is deterministic
    // between havoc events, loops forever without a fault
    let mut seen: HashSet<(Loc, BTreeMap<String, Bv>)> = HashSet::new();
    for step in 0..MAX_STEPS {
        let loc = a.loc;
        let op_in = op_at(vin, loc).cloned();
        let observed = matches!(op_in, Some(il::Operation::Branch { .. }) | Some(il::Operation::Intrinsic { .. }));
        let pre_a = if observed && lock { Some(a.state.scalars.clone()) } else { None };
        let ra = advance(&mut a, vin);
        if let Adv::Fault(f, _) = &ra {
            return Ok(Run { outcome: Outcome::Fault(f.kind()), steps: step, violation: None, stats });
        }
        if let Some(op) = &op_in {
            stats.kinds.insert(op_kind(op));
        }
        match &ra {
            Adv::Next(Effect::Store { .. }) | Adv::End(Effect::Store { .. }) => stats.stores += 1,
            Adv::Next(Effect::Branch { .. }) | Adv::End(Effect::Branch { .. }) => stats.branches += 1,
            Adv::Next(Effect::Intrinsic { .. }) | Adv::End(Effect::Intrinsic { .. }) => stats.intrinsics += 1,
            _ => {}
        }
        if lock {
            if b.loc != loc {
                fv::fail!("C14|harness|lockstep", "machines out of step at {:?} / {:?}", loc, b.loc);
            }
            let op_out = op_at(vout, loc).cloned();
            let is_removed = removed.contains(&loc);
            if is_removed {
                stats.passed_removed.insert(loc);
            }
            let pre_b = if observed { Some(b.state.scalars.clone()) } else { None };
            let rb = advance(&mut b, vout);
            let here = format!("state #{}, step {}, at {:?}", state_no, step, loc);
            // phase 1: what the operation itself showed (observation points, faults of the operation, stores)
            let v = compare(1, vin, loc, op_in.as_ref(), op_out.as_ref(), is_removed, pre_a.as_ref(), pre_b.as_ref(), &ra, &rb, &a, &b, &taint, &here);
            match v {
                Some(f) => {
                    pending = Some(f);
                    lock = false;
                }
                None => {
                    // taint bookkeeping: which scalars differ, and which removed definition is to blame
                    let written: Vec<String> = match &ra {
                        Adv::Next(e) | Adv::End(e) => match e {
                            Effect::Assign { name, .. } | Effect::Load { name, .. } => vec![name.clone()],
                            Effect::Intrinsic { wrote, .. } => wrote.iter().map(|w| w.0.clone()).collect(),
                            Effect::Branch { .. } => a.state.scalars.keys().cloned().collect(),
                            _ => Vec::new(),
                        },
                        Adv::Fault(..) => Vec::new(),
                    };
                    for name in written {
                        if a.state.scalars.get(&name) == b.state.scalars.get(&name) {
                            taint.remove(&name);
                        } else if is_removed {
                            let op = op_in.as_ref().unwrap();
                            taint.insert(name, Taint { origin: loc, origin_op: op.to_string(), user: None });
                        } else {
                            let op = op_in.as_ref().unwrap();
                            let reads = op_reads(op);
                            let t = reads.iter().find_map(|r| taint.get(r).map(|t| (r, t))).map(|(r, t)| {
                                let mut t = t.clone();
                                if t.user.is_none() {
                                    t.user = Some((classify_use(op, r), op.to_string()));
                                }
                                t
                            });
                            match t {
                                Some(t) => {
                                    taint.insert(name, t);
                                }
                                None => {
                                    taint.insert(name, Taint { origin: loc, origin_op: format!("(unknown; first seen after `{}`)", op), user: Some(("origin-unknown", String::new())) });
                                }
                            }
                        }
                    }
                    // phase 2: where control went (guards), and the state at the end of the run
                    if let Some(f) = compare(2, vin, loc, op_in.as_ref(), op_out.as_ref(), is_removed, pre_a.as_ref(), pre_b.as_ref(), &ra, &rb, &a, &b, &taint, &here) {
                        pending = Some(f);
                        lock = false;
                    }
                }
            }
        }
        if let Adv::End(_) = ra {
            return Ok(Run { outcome: Outcome::Terminated, steps: step + 1, violation: pending, stats });
        }
        match &ra {
            Adv::Next(Effect::Branch { .. }) => seen.clear(),
            Adv::Next(Effect::Intrinsic { wrote, .. }) if !wrote.is_empty() => seen.clear(),
            Adv::Next(Effect::Store { .. }) => seen.clear(),
            _ => {}
        }
        if let Loc::Edge(..) = a.loc {
            if !seen.insert((a.loc, a.state.scalars.clone())) {
                return Ok(Run { outcome: Outcome::LoopsForever, steps: step + 1, violation: pending, stats });
            }
        }
    }
    Ok(Run { outcome: Outcome::StepLimit, steps: MAX_STEPS, violation: pending, stats })
}

#[allow(clippy::too_many_arguments)]
fn compare(
    phase: u8,
    vin: &FnView,
    loc: Loc,
    op_in: Option<&il::Operation>,
    op_out: Option<&il::Operation>,
    is_removed: bool,
    pre_a: Option<&BTreeMap<String, Bv>>,
    pre_b: Option<&BTreeMap<String, Bv>>,
    ra: &Adv,
    rb: &Adv,
    a: &Machine,
    b: &Machine,
    taint: &BTreeMap<String, Taint>,
    here: &str,
) -> Option<Failure> {
    // 1. an observable operation that is no longer there
    if phase == 1 && is_removed {
        match op_in {
            Some(il::Operation::Intrinsic { intrinsic }) => {
                let w = if intrinsic.written_expressions().is_none() { "undeclared-writes" } else { "declared-writes" };
                return Some(Failure::new(
                    format!("C14|intrinsic-removed|{}", w),
                    format!("{}: the input executes `{}` (written {:?}, read {:?}); the output has a nop there, so nothing is presented to the intrinsic", here, op_in.unwrap(), intrinsic_writes(intrinsic), intrinsic_reads(intrinsic)),
                ));
            }
            Some(il::Operation::Branch { .. }) => {
                return Some(Failure::new("C14|branch-removed", format!("{}: the input executes `{}`; the output has a nop there", here, op_in.unwrap())));
            }
            Some(il::Operation::Store { .. }) => {
                return Some(Failure::new("C14|store-removed", format!("{}: the input executes `{}`; the output has a nop there", here, op_in.unwrap())));
            }
            _ => {}
        }
    }
    // 2. the scalar state presented to a branch / intrinsic
    if let (1, Some(pa), Some(pb), Some(op)) = (phase, pre_a, pre_b, op_in) {
        let d = diff_states(pa, pb);
        if !d.is_empty() {
            let (direct, what) = match op {
                il::Operation::Intrinsic { intrinsic } => {
                    if intrinsic_writes(intrinsic).map(|w| w.contains(&d[0])).unwrap_or(false) {
                        ("seen-by-intrinsic-that-overwrites-it", "intrinsic")
                    } else {
                        ("seen-by-intrinsic", "intrinsic")
                    }
                }
                _ => ("seen-by-branch", "branch"),
            };
            let (sig, why) = blame(taint, &d, direct, &op.to_string());
            return Some(Failure::new(
                sig,
                format!("{}: the scalar state presented to the {} `{}` differs in {:?}: input {} / output {}. {}", here, what, op, d, show(pa, &d), show(pb, &d), why),
            ));
        }
    }
    // 3. a fault in the output only
    if let Adv::Fault(f, executed) = rb {
        let in_guard = *executed || op_out.is_none();
        let (names, direct, text): (Vec<String>, &'static str, String) = if (phase == 1) == in_guard {
            // a fault while choosing the successor is judged in phase 2, one of the operation in phase 1
            (Vec::new(), "", String::new())
        } else if in_guard {
            let mut r = Vec::new();
            for e in vin.out_edges(block_of(loc)) {
                if let Some(c) = &e.cond {
                    expr_reads(c, &mut r);
                }
            }
            (r, "used-by-guard", format!("guards of block {}", block_of(loc)))
        } else {
            let op = op_out.unwrap();
            let r = op_reads(op);
            let first = r.iter().find(|n| taint.contains_key(*n)).cloned().unwrap_or_default();
            (r, classify_use(op, &first), op.to_string())
        };
        if !direct.is_empty() {
            let (sig, why) = blame(taint, &names, direct, &text);
            return Some(Failure::new(sig, format!("{}: the input runs on, the output faults with {:?}. {}", here, f, why)));
        }
    }
    // 4. effects: stores
    let ea = match ra {
        Adv::Next(e) | Adv::End(e) => Some(e),
        _ => None,
    };
    let eb = match rb {
        Adv::Next(e) | Adv::End(e) => Some(e),
        _ => None,
    };
    if phase == 1 {
        if let Some(Effect::Store { addr, value }) = ea {
            return match eb {
                Some(Effect::Store { addr: a2, value: v2 }) if a2 == addr && v2 == value => None,
                other => {
                    let op = op_in.unwrap();
                    let r = op_reads(op);
                    let first = r.iter().find(|n| taint.contains_key(*n)).cloned().unwrap_or_default();
                    let (sig, why) = blame(taint, &r, classify_use(op, &first), &op.to_string());
                    Some(Failure::new(sig, format!("{}: store sequence differs: input stores {} at 0x{:x}, output does {:?}. {}", here, value, addr, other, why)))
                }
            };
        }
        return None;
    }
    // 5. end of the run: complete scalar state
    match (ra, rb) {
        (Adv::End(_), Adv::End(_)) => {
            let d = diff_states(&a.state.scalars, &b.state.scalars);
            if !d.is_empty() {
                let (sig, why) = blame(taint, &d, "seen-at-exit", &format!("end of block {}", block_of(loc)));
                return Some(Failure::new(
                    sig,
                    format!("{}: the run ends in block {} (no successors) and the scalar states differ in {:?}: input {} / output {}. {}", here, block_of(loc), d, show(&a.state.scalars, &d), show(&b.state.scalars, &d), why),
                ));
            }
            None
        }
        (Adv::End(_), _) | (_, Adv::End(_)) => Some(Failure::new("C14|harness|end-disagreement", format!("{}: one side ended, the other did not", here))),
        _ => {
            // 6. path
            if a.loc != b.loc {
                let mut r = Vec::new();
                for e in vin.out_edges(block_of(loc)) {
                    if let Some(c) = &e.cond {
                        expr_reads(c, &mut r);
                    }
                }
                let (sig, why) = blame(taint, &r, "used-by-guard", &format!("guards of block {}", block_of(loc)));
                return Some(Failure::new(sig, format!("{}: paths diverge: input goes to {:?}, output to {:?}. {}", here, a.loc, b.loc, why)));
            }
            None
        }
    }
}

// ------------------------------------------------------------------------------------------
// check
// ------------------------------------------------------------------------------------------

fn check(case: &Case, obs: &mut Obs) -> Result<(), Failure> {
    let function = case.f.build().map_err(|e| Failure::new("C14|harness|build", e))?;
    let vin = FnView::of(&function);
    let reach = reachable_locs(&vin);
    let all_reachable = vin.blocks.keys().all(|b| vin.block_entry(*b).map(|l| reach.contains(&l)).unwrap_or(false));

    // ---- generator classes
    obs.class(if case.definitely_assigned { "definitely-assigned" } else { "not-definitely-assigned" });
    obs.class(if all_reachable { "all-blocks-reachable" } else { "unreachable-block" });
    if case.f.has_cycle() {
        obs.class("loop");
    }
    let sinks = vin.blocks.keys().filter(|b| vin.out_edges(**b).is_empty() && reach.contains(&vin.block_entry(**b).unwrap())).count();
    if sinks >= 2 {
        obs.class("several-exits");
    }
    if sinks == 0 {
        obs.class("no-exit");
    }
    for g in &case.gadgets {
        obs.class(&format!("gadget-{}", g));
    }
    if vin.blocks.values().any(|is| is.iter().enumerate().any(|(pos, i)| i.index != pos) && is.iter().map(|i| i.index).max().map(|m| m + 1 == is.len()).unwrap_or(false)) {
        obs.class("block-permuted-in-place-nothing-removed");
    }
    for l in &reach {
        if let Some(il::Operation::Intrinsic { intrinsic }) = op_at(&vin, *l) {
            let w = intrinsic.written_expressions();
            let r = intrinsic.read_expressions();
            obs.class(match (w, r) {
                (None, None) => "intrinsic-undeclared",
                (Some(_), Some(_)) => "intrinsic-declared",
                _ => "intrinsic-partially-declared",
            });
            if w.map(|w| !w.is_empty()).unwrap_or(false) {
                obs.class("intrinsic-declares-written-scalar");
            }
        }
        if let Some(il::Operation::Branch { .. }) = op_at(&vin, *l) {
            obs.class("has-branch");
        }
    }
    let defs = ref_def_use(&vin, &reach);
    let mut ref_dead: BTreeSet<Loc> = BTreeSet::new();
    for d in &defs {
        if d.uses.is_empty() {
            ref_dead.insert(d.loc);
            obs.class("ref-dead-definition");
            continue;
        }
        // "only use": all static uses of the definition are of one kind and nothing else sees it
        let kinds: BTreeSet<&RefUse> = d.uses.iter().map(|u| &u.1).collect();
        if kinds.len() == 1 {
            obs.class(match kinds.iter().next().unwrap() {
                RefUse::Several => "only-use-two-operand-instruction",
                RefUse::StoreOperand => "only-use-store-operand",
                RefUse::SelfUpdate => "only-use-self-update",
                RefUse::Single => "only-use-one-operand-instruction",
                RefUse::Guard => "only-use-guard",
                RefUse::Branch => "only-seen-by-branch",
                RefUse::Intrinsic => "only-seen-by-intrinsic",
                RefUse::IntrinsicOverwriting => "only-seen-by-intrinsic-overwriting-it",
                RefUse::Exit => "only-seen-at-exit",
            });
        }
        if d.uses.iter().any(|u| u.1 == RefUse::SelfUpdate) {
            obs.class("feeds-self-update");
        }
        if d.uses.iter().any(|u| u.1 == RefUse::Guard) {
            obs.class("feeds-guard");
        }
        if d.uses.iter().any(|u| u.1 == RefUse::StoreOperand) {
            obs.class("feeds-store");
        }
        if matches!(op_at(&vin, d.loc), Some(il::Operation::Load { .. })) && d.uses.iter().any(|u| u.1 == RefUse::Branch) {
            obs.class("load-reaches-branch");
        }
    }

    // ---- falcon
    let out = match guard(|| dead_code_elimination(&function)) {
        Err(pi) => {
            fv::fail!(
                format!("C14|dce|panic|{}", if all_reachable { "all-blocks-reachable" } else { "unreachable-block" }),
                "dead_code_elimination panicked: {} ({}:{})",
                pi.msg, pi.file, pi.line
            );
        }
        Ok(Err(e)) => {
            obs.exclude("dce-returned-err");
            obs.class("dce-err");
            let _ = e;
            return Ok(());
        }
        Ok(Ok(f)) => f,
    };
    obs.class("dce-ok");
    let vout = FnView::of(&out);
    let removed = check_shape(&vin, &vout)?;
    obs.count("instructions-replaced", removed.len() as u64);
    if !removed.is_empty() {
        obs.class("dce-removed-something");
    }
    if removed.iter().any(|l| ref_dead.contains(l)) {
        obs.class("dce-removed-ref-dead-definition");
    }
    obs.count("ref-dead-definitions", ref_dead.len() as u64);
    obs.count("ref-dead-definitions-kept", ref_dead.iter().filter(|l| !removed.contains(l)).count() as u64);

    // ---- behaviour
    let mut passed: BTreeSet<Loc> = BTreeSet::new();
    let mut kinds: BTreeSet<&'static str> = BTreeSet::new();
    let mut ends: BTreeSet<&'static str> = BTreeSet::new();
    let mut observed = (false, false, false);
    let mut first: Option<Failure> = None;
    for (i, s) in case.states.iter().enumerate() {
        let st = build_state(s, case.big_endian);
        if s.scalars.len() < case.names.len() {
            obs.class("state-with-missing-scalar");
        }
        let run = run_pair(&vin, &vout, &removed, &st, case.havoc_seed, i)?;
        obs.count("steps", run.steps as u64);
        match run.outcome {
            Outcome::Terminated | Outcome::LoopsForever => {
                obs.count("runs-judged", 1);
                if let Outcome::Terminated = run.outcome {
                    ends.insert("terminated");
                    obs.class("input-run-terminates");
                } else {
                    ends.insert("loops-forever");
                    obs.class("input-run-loops-forever");
                    obs.count("runs-judged-looping-forever", 1);
                }
                obs.class("input-run-judged");
                if !run.stats.passed_removed.is_empty() {
                    obs.count("runs-passing-a-replaced-instruction", 1);
                }
                passed.extend(run.stats.passed_removed.iter().copied());
                kinds.extend(run.stats.kinds.iter().copied());
                observed.0 |= run.stats.stores > 0;
                observed.1 |= run.stats.branches > 0;
                observed.2 |= run.stats.intrinsics > 0;
                if let Some(f) = run.violation {
                    // report the first violation; one that is not a recorded finding takes
                    // precedence, so that a shallow known defect does not hide a new one
                    let replace = match &first {
                        None => true,
                        Some(old) => obs.known(&old.sig) && !obs.known(&f.sig),
                    };
                    if replace {
                        first = Some(f);
                    }
                }
            }
            Outcome::Fault(k) => {
                obs.count("runs-input-faults", 1);
                obs.count(&format!("input-fault-{}", k), 1);
                ends.insert("fault");
            }
            Outcome::StepLimit => {
                obs.count("runs-step-limit", 1);
                if run.violation.is_some() {
                    obs.exclude("difference-in-a-run-cut-by-the-step-budget");
                }
                ends.insert("step-limit");
            }
        }
    }
    if observed.0 {
        obs.class("judged-run-with-store");
    }
    if observed.1 {
        obs.class("judged-run-with-branch");
    }
    if observed.2 {
        obs.class("judged-run-with-intrinsic");
    }
    if !passed.is_empty() {
        obs.class("nontrivial");
        let what: BTreeSet<(&'static str, bool)> = passed.iter().map(|l| (op_kind(op_at(&vin, *l).unwrap()), ref_dead.contains(l))).collect();
        obs.nontrivial(&(vin.blocks.len(), case.f.has_cycle(), what, kinds, ends, observed, case.definitely_assigned, passed.len().min(4)));
    }
    if obs.want_sample() {
        obs.sample(render(case));
    }
    match first {
        Some(f) => Err(f),
        None => Ok(()),
    }
}

// ------------------------------------------------------------------------------------------
// rendering, simplification
// ------------------------------------------------------------------------------------------

fn render(c: &Case) -> String {
    let mut s = format!(
        "{} endian, havoc seed 0x{:x}, {}, gadgets {:?}\n",
        if c.big_endian { "big" } else { "little" },
        c.havoc_seed,
        if c.definitely_assigned { "prologue assigns every pool scalar" } else { "no prologue" },
        c.gadgets
    );
    s.push_str(&c.f.render());
    for (i, st) in c.states.iter().enumerate() {
        s.push_str(&format!(" state #{} (mem seed 0x{:x}):", i, st.mem_seed));
        for (n, w) in &c.names {
            match st.scalars.get(n) {
                Some(v) => s.push_str(&format!(" {}={}", n, v)),
                None => s.push_str(&format!(" {}:{}=<undefined>", n, w)),
            }
        }
        s.push('\n');
    }
    s
}

fn expr_bits(e: &il::Expression) -> usize {
    fv::refil::sort_of(e).unwrap_or(0)
}

/// one-step reductions of an expression that keep its width
fn reduce_expr(e: &il::Expression) -> Vec<il::Expression> {
    use il::Expression as E;
    let w = expr_bits(e);
    let mut v = Vec::new();
    if w == 0 {
        return v;
    }
    let kids: Vec<&il::Expression> = match e {
        E::Scalar(_) | E::Constant(_) => vec![],
        E::Add(l, r) | E::Sub(l, r) | E::Mul(l, r) | E::Divu(l, r) | E::Modu(l, r) | E::Divs(l, r) | E::Mods(l, r) | E::And(l, r)
        | E::Or(l, r) | E::Xor(l, r) | E::Shl(l, r) | E::Shr(l, r) | E::AShr(l, r) | E::Cmpeq(l, r) | E::Cmpneq(l, r) | E::Cmplts(l, r)
        | E::Cmpltu(l, r) => vec![l, r],
        E::Zext(_, x) | E::Sext(_, x) | E::Trun(_, x) => vec![x],
        E::Ite(c, a, b) => vec![c, a, b],
    };
    for k in kids {
        if expr_bits(k) == w {
            v.push(k.clone());
        }
    }
    if !matches!(e, E::Constant(_)) {
        v.push(konst(0, w));
        v.push(konst(1, w));
    }
    v
}

fn reduce_op(op: &il::Operation) -> Vec<il::Operation> {
    let mut v = Vec::new();
    match op {
        il::Operation::Assign { dst, src } => {
            for e in reduce_expr(src) {
                v.push(il::Operation::Assign { dst: dst.clone(), src: e });
            }
        }
        il::Operation::Store { index, src } => {
            for e in reduce_expr(src) {
                v.push(il::Operation::Store { index: index.clone(), src: e });
            }
            if !matches!(index, il::Expression::Constant(_)) {
                v.push(il::Operation::Store { index: konst(SCRATCH as u128, 64), src: src.clone() });
            }
        }
        il::Operation::Load { dst, index } => {
            if !matches!(index, il::Expression::Constant(_)) {
                v.push(il::Operation::Load { dst: dst.clone(), index: konst(SCRATCH as u128, 64) });
            }
        }
        il::Operation::Branch { target } => {
            for e in reduce_expr(target) {
                v.push(il::Operation::Branch { target: e });
            }
        }
        _ => {}
    }
    v
}

fn drop_edge(c: &Case, k: usize) -> Case {
    let mut d = c.clone();
    let (h, _, _) = d.f.edges.remove(k);
    let left: Vec<usize> = (0..d.f.edges.len()).filter(|i| d.f.edges[*i].0 == h).collect();
    if left.len() == 1 {
        d.f.edges[left[0]].2 = None;
    }
    d
}

fn drop_block(c: &Case, b: usize) -> Option<Case> {
    if b == 0 || c.f.blocks.len() <= 1 || c.f.entry != Some(0) {
        return None;
    }
    let mut d = c.clone();
    d.f.blocks.remove(b);
    let heads: BTreeSet<usize> = d.f.edges.iter().filter(|e| e.1 == b && e.0 != b).map(|e| e.0).collect();
    d.f.edges.retain(|e| e.0 != b && e.1 != b);
    for h in heads {
        let left: Vec<usize> = (0..d.f.edges.len()).filter(|i| d.f.edges[*i].0 == h).collect();
        if left.len() == 1 {
            d.f.edges[left[0]].2 = None;
        }
    }
    for e in d.f.edges.iter_mut() {
        if e.0 > b {
            e.0 -= 1;
        }
        if e.1 > b {
            e.1 -= 1;
        }
    }
    let n = d.f.blocks.len();
    d.f.exit = match c.f.exit {
        Some(x) if x == b => (0..n).rev().find(|k| !d.f.edges.iter().any(|e| e.0 == *k)).or(Some(n - 1)),
        Some(x) if x > b => Some(x - 1),
        x => x,
    };
    Some(d)
}

fn simplify(c: &Case) -> Vec<Case> {
    let mut v = Vec::new();
    if c.states.len() > 1 {
        for i in 0..c.states.len() {
            let mut d = c.clone();
            d.states = vec![c.states[i].clone()];
            v.push(d);
        }
    }
    for b in (1..c.f.blocks.len()).rev() {
        if let Some(d) = drop_block(c, b) {
            v.push(d);
        }
    }
    for k in 0..c.f.edges.len() {
        v.push(drop_edge(c, k));
    }
    for (bi, ops) in c.f.blocks.iter().enumerate() {
        for k in 0..ops.len() {
            let mut d = c.clone();
            d.f.blocks[bi].remove(k);
            v.push(d);
        }
    }
    for (bi, ops) in c.f.blocks.iter().enumerate() {
        for (k, o) in ops.iter().enumerate() {
            for r in reduce_op(&o.op) {
                let mut d = c.clone();
                d.f.blocks[bi][k].op = r;
                v.push(d);
            }
        }
    }
    for (k, e) in c.f.edges.iter().enumerate() {
        // a two-way choice on a simpler condition
        if let Some(g) = &e.2 {
            if !matches!(g, il::Expression::Cmpeq(..)) {
                for r in reduce_expr(g) {
                    if matches!(r, il::Expression::Constant(_)) {
                        continue;
                    }
                    let mut d = c.clone();
                    let old = g.clone();
                    for e2 in d.f.edges.iter_mut().filter(|e2| e2.0 == e.0) {
                        if e2.2.as_ref() == Some(&old) {
                            e2.2 = Some(r.clone());
                        } else if e2.2 == Some(il::Expression::Cmpeq(bx(old.clone()), bx(konst(0, 1)))) {
                            e2.2 = Some(il::Expression::Cmpeq(bx(r.clone()), bx(konst(0, 1))));
                        }
                    }
                    let _ = k;
                    v.push(d);
                }
            }
        }
    }
    if c.states.len() == 1 {
        let st = &c.states[0];
        for (n, val) in &st.scalars {
            // undefined is the simplest, then zero
            let mut d = c.clone();
            d.states[0].scalars.remove(n);
            v.push(d);
            if !val.is_zero() {
                let mut d = c.clone();
                d.states[0].scalars.insert(n.clone(), Bv::zero(val.w));
                v.push(d);
            }
        }
        if st.mem_seed != 0 {
            let mut d = c.clone();
            d.states[0].mem_seed = 0;
            v.push(d);
        }
    }
    if c.havoc_seed != 0 {
        let mut d = c.clone();
        d.havoc_seed = 0;
        v.push(d);
    }
    {
        // forget scalars that no longer occur
        let mut used: Vec<String> = Vec::new();
        for ops in &c.f.blocks {
            for o in ops {
                used.extend(op_reads(&o.op));
                used.extend(op_writes(&o.op));
                if let il::Operation::Intrinsic { intrinsic } = &o.op {
                    used.extend(intrinsic_reads(intrinsic).unwrap_or_default());
                }
            }
        }
        for e in &c.f.edges {
            if let Some(g) = &e.2 {
                expr_reads(g, &mut used);
            }
        }
        if c.names.iter().any(|n| !used.contains(&n.0)) {
            let mut d = c.clone();
            d.names.retain(|n| used.contains(&n.0));
            for st in d.states.iter_mut() {
                st.scalars.retain(|k, _| used.contains(k));
            }
            v.push(d);
        }
    }
    if !c.gadgets.is_empty() {
        let mut d = c.clone();
        d.gadgets.clear();
        v.push(d);
    }
    v
}

/// libFuzzer entry: the input bytes are the entropy tape (little-endian u32 words); same
/// generator, same oracle as the proptest tiers.
#[allow(dead_code)]
pub fn fuzz_bytes(data: &[u8]) {
    let tape = fv::tape::words_from_bytes(data, 3000);
    let case = decode(&mut Tape::new(&tape));
    engine::fuzz_one("C14", &case, &render, &check);
}

#[allow(dead_code)]
fn main() -> std::process::ExitCode {
    let mut spec = Spec::new(
        "C14",
        "IL functions from gen_fn (1-7 blocks, assign/store/load/branch/intrinsic/nop, loops, several exits, with or without a prologue assigning every pool scalar, 1/8 with blocks unreachable from the entry) plus 0-3 spliced gadgets (definition whose only use is a two-operand instruction / a guard / a store operand / a self-update, intrinsics with declared, partial and undeclared effects, intrinsic overwriting a fresh definition, load feeding a branch, immediately overwritten definition) x 16 initial states (half with missing scalars); dead_code_elimination's output must have the same shape with operations only replaced by nop, and, run in lock-step with the input by the reference interpreter under one havoc oracle (Branch = returning call clobbering all defined scalars, intrinsics assign their declared written scalars), must take the same path, do the same stores, present the same complete scalar state to every Branch and Intrinsic, end in the same complete scalar state and not fault, on every state from which the input reaches the end of a block without successors within 500 steps without fault; non-trivial = DCE replaced at least one instruction and a judged run executes it; distinct = (number of blocks, loop, kinds of replaced instructions passed and whether the reference def-use calls them dead, operation kinds executed, how runs ended, observation kinds met, prologue, capped count)",
        Box::new(|_t: Tier| from_tape(3000, decode)),
        |t| t.pick(80_000, 3_000_000),
        check,
    );
    spec.render = render;
    spec.simplify = Some(simplify);
    spec.case_timeout_s = 120;
    spec.crash_sig = |_c: &Case| "C14|dce|crash".to_string();
    spec.assumptions = vec![
        "a scalar name has one width across the function and the initial state (as every lifter guarantees)".into(),
        "reference semantics of DESIGN 1.8: an intrinsic assigns oracle-chosen values to its declared written scalars and nothing else (undeclared effects write nothing); a Branch is a call that returns to the next location with every currently defined scalar clobbered, memory untouched; the havoc value is a function of (seed, event number, scalar name), and both sides are at the same event number".into(),
        "only initial states from which the input reaches the end of a block without successors within 500 steps and without any fault are judged; runs cut by the budget are counted and not judged".into(),
        "the scalar state 'presented to' a Branch or Intrinsic is the complete scalar valuation in which it executes; the state 'when a block without successors is reached' is taken where the run ends, after the block's last instruction".into(),
        "guards are exclusive and exhaustive by construction; functions without an entry are not generated; a result of Err is counted but not judged".into(),
    ];
    spec.floors = vec![
        ("block-permuted-in-place-nothing-removed", 0.04),
        ("dce-ok", 0.80),
        ("dce-removed-something", 0.40),
        ("nontrivial", 0.30),
        ("input-run-judged", 0.60),
        ("input-run-terminates", 0.50),
        ("definitely-assigned", 0.30),
        ("not-definitely-assigned", 0.30),
        ("loop", 0.30),
        ("several-exits", 0.05),
        ("only-use-two-operand-instruction", 0.15),
        ("only-use-guard", 0.05),
        ("gadget-guard-use-several-definitions", 0.02),
        ("only-use-store-operand", 0.10),
        ("only-use-self-update", 0.03),
        ("feeds-self-update", 0.10),
        ("intrinsic-declared", 0.10),
        ("intrinsic-partially-declared", 0.10),
        ("intrinsic-undeclared", 0.05),
        ("load-reaches-branch", 0.03),
        ("only-seen-by-branch", 0.03),
        ("only-seen-by-intrinsic-overwriting-it", 0.05),
        ("ref-dead-definition", 0.40),
        ("unreachable-block", 0.02),
        ("state-with-missing-scalar", 0.50),
        ("judged-run-with-store", 0.30),
        ("judged-run-with-branch", 0.10),
        ("judged-run-with-intrinsic", 0.10),
    ];
    engine::main(spec)
}
