//! C09 — the fixed-point engine returns the least solution of the data-flow equations.
//!
//! Domain: CFG skeletons from `gen_fn` (operations replaced by `nop`, they are irrelevant to the
//! engine) x harness-defined analyses implementing falcon's `FixedPointAnalysis` (gen/kill
//! bit-sets, constant-propagation-shaped map, saturating counter, "locations seen" powerset; each
//! monotone or deliberately non-monotone), forward and backward, force on/off, step budgets.
//!
//! Oracle: naive chaotic iteration over the location graph built from `FnView` (blocks()/edges()
//! only, not `location.rs`), two visiting orders that must agree; the equations are also checked
//! directly on the map falcon returns.
//!
//! Conventions taken from the property text and falcon's documentation (not from the solver):
//!  * locations are instructions, empty blocks and edges (`Function::locations`, location.rs docs);
//!  * the state stored for a location is `trans(location, join of the stored states of its
//!    predecessors)` (successors for backward); predecessors without a state do not take part in
//!    the join; when no predecessor has a state `trans` gets `None`;
//!  * `None` is bottom: every analysis here satisfies trans(l, None) == trans(l, Some(bottom)) and
//!    join(bottom, x) == x, exactly like `reaching_definitions` and `constants` (the
//!    entry's equation is therefore the same as every other location's, also when the entry lies
//!    on a cycle);
//!  * `state.partial_cmp(old)` is the lattice order, Equal iff ==.

use falcon::analysis::fixed_point::{
    fixed_point_backward, fixed_point_backward_options, fixed_point_forward, fixed_point_forward_options, FixedPointAnalysis,
};
use falcon::il;
use falcon::Error;
use fv::engine::{self, guard, Failure, Obs, Spec, Tier};
use fv::gen_il::{gen_fn, FnSpec, IlParams, OpSpec};
use fv::refil::{FnView, Loc};
use fv::tape::{from_tape, Tape};
use serde::{Deserialize, Serialize};
use std::cell::Cell;
use std::cmp::Ordering;
use std::collections::{BTreeMap, BTreeSet, VecDeque};

// ------------------------------------------------------------------------------------------
// case
// ------------------------------------------------------------------------------------------

/// CFG skeleton: block i has `blocks[i]` nop instructions; guards are irrelevant to the engine and
/// are re-created canonically at build time.
#[derive(Clone, Debug, Serialize, Deserialize, PartialEq, Eq, Hash)]
struct Skel {
    blocks: Vec<usize>,
    edges: Vec<(usize, usize)>,
    entry: usize,
    exit: usize,
    /// instruction-index gaps (see `FnSpec::gaps`): blocks as `remove_instruction` leaves them
    #[serde(default)]
    gaps: Vec<(usize, usize)>,
    /// blocks whose last instruction is an `Operation::Branch` (a resolved computed jump: the
    /// block keeps its out-edges) instead of a nop
    #[serde(default)]
    branch_last: Vec<usize>,
}

#[derive(Clone, Copy, Debug, Serialize, Deserialize, PartialEq, Eq, Hash)]
enum Kind {
    GenKill,
    ConstMap,
    Counter,
    Seen,
}

#[derive(Clone, Copy, Debug, Serialize, Deserialize, PartialEq, Eq, Hash)]
enum Budget {
    Default,
    Zero,
    One,
    NeedMinus2,
    NeedMinus1,
    Need,
    /// `usize::MAX`: no limit in effect
    Max,
}

#[derive(Clone, Debug, Serialize, Deserialize)]
struct Case {
    skel: Skel,
    kind: Kind,
    monotone: bool,
    /// per-location parameters of the analysis are a fixed function of (seed, location)
    seed: u64,
    /// GenKill: number of bits (1..=16); ConstMap: number of keys (1..=4); Counter: k (1..=6)
    size: u32,
    backward: bool,
    force: bool,
    budget: Budget,
}

impl Skel {
    fn to_fnspec(&self) -> FnSpec {
        let mut addr = 0x4000u64;
        let blocks = self
            .blocks
            .iter()
            .enumerate()
            .map(|(bi, n)| {
                (0..*n)
                    .map(|k| {
                        let a = addr;
                        addr += 4;
                        let op = if k + 1 == *n && self.branch_last.contains(&bi) {
                            il::Operation::Branch { target: il::expr_const(0x4000, 32) }
                        } else {
                            il::Operation::Nop { placeholder: None }
                        };
                        OpSpec { op, address: Some(a) }
                    })
                    .collect()
            })
            .collect();
        let mut edges = Vec::new();
        for (h, t) in &self.edges {
            let outs: Vec<&(usize, usize)> = self.edges.iter().filter(|e| e.0 == *h).collect();
            let cond = if outs.len() <= 1 {
                None
            } else {
                let k = outs.iter().position(|e| e.1 == *t).unwrap() as u64;
                Some(il::Expression::cmpeq(il::expr_scalar("sel", 8), il::expr_const(k, 8)).unwrap())
            };
            edges.push((*h, *t, cond));
        }
        FnSpec { address: 0x4000, blocks, edges, entry: Some(self.entry), exit: Some(self.exit), gaps: self.gaps.clone(), index: None, swaps: Vec::new() }
    }
}

fn decode(t: &mut Tape) -> Case {
    let mut p = IlParams::default();
    p.max_blocks = *t.pick(&[1usize, 2, 4, 6, 9, 12]);
    p.max_ops = *t.pick(&[0usize, 1, 2, 4]);
    p.mem = false;
    p.max_expr_depth = 0;
    p.widths = vec![8];
    p.max_scalars = 2;
    p.entry_no_preds = t.chance(1, 5);
    p.unreachable = t.chance(1, 2);
    let g = gen_fn(t, &p);
    let n = g.spec.blocks.len();
    let mut skel = Skel {
        blocks: g.spec.blocks.iter().map(|b| b.len()).collect(),
        edges: g.spec.edges.iter().map(|e| (e.0, e.1)).collect(),
        entry: g.spec.entry.unwrap_or(0),
        exit: g.spec.exit.unwrap_or(n - 1),
        gaps: Vec::new(),
        branch_last: Vec::new(),
    };
    // gen_fn repairs reachability by adding edges, which leaves few sinks: sometimes turn blocks
    // into sinks (more acyclic shapes, several exits, more unreachable parts)
    if t.chance(1, 2) {
        for b in 0..n {
            if t.chance(1, 3) && b != 0 {
                skel.edges.retain(|e| e.0 != b);
            }
        }
        if let Some(b) = (0..n).rev().find(|b| !skel.edges.iter().any(|e| e.0 == *b)) {
            skel.exit = b;
        }
    }
    // the generator always enters at block 0 and exits at the last sink: sometimes move them
    if t.chance(1, 4) {
        skel.exit = t.below(n);
    }
    if t.chance(1, 10) {
        skel.entry = t.below(n);
    }
    let kind = [Kind::GenKill, Kind::ConstMap, Kind::Counter, Kind::Seen][t.below(4)];
    let monotone = !t.chance(1, 3);
    let size = match kind {
        Kind::GenKill => t.range(1, 16) as u32,
        Kind::ConstMap => t.range(1, 4) as u32,
        Kind::Counter => t.range(1, 6) as u32,
        Kind::Seen => 0,
    };
    let seed = t.u64();
    let backward = t.chance(1, 2);
    let force = monotone && t.chance(1, 3);
    let budget = if backward {
        Budget::Default
    } else {
        [Budget::Default, Budget::Zero, Budget::One, Budget::NeedMinus2, Budget::NeedMinus1, Budget::Need, Budget::Max][t.weighted(&[36, 8, 8, 14, 15, 15, 4])]
    };
    // blocks whose instruction indices are not dense (what removing an instruction leaves)
    if t.chance(1, 4) {
        for _ in 0..t.range(1, 2) {
            let b = t.below(n);
            let len = skel.blocks[b];
            let k = if len >= 2 && t.chance(3, 4) { t.range(1, len - 1) } else { t.below(len + 1) };
            skel.gaps.push((b, k));
        }
    }
    // blocks that end in a branch instruction and still have their out-edges
    if t.chance(1, 3) {
        for _ in 0..t.range(1, 2) {
            let with_outs: Vec<usize> = (0..n).filter(|b| skel.blocks[*b] >= 1 && skel.edges.iter().any(|e| e.0 == *b)).collect();
            let any: Vec<usize> = (0..n).filter(|b| skel.blocks[*b] >= 1).collect();
            let pool = if !with_outs.is_empty() && t.chance(4, 5) { with_outs } else { any };
            if !pool.is_empty() {
                skel.branch_last.push(pool[t.below(pool.len())]);
            }
        }
    }
    Case { skel, kind, monotone, seed, size, backward, force, budget }
}

// ------------------------------------------------------------------------------------------
// the analyses (these are *inputs* of the engine; the same pure functions serve falcon through
// the trait and the oracle)
// ------------------------------------------------------------------------------------------

#[derive(Clone, Debug, PartialEq, Eq)]
enum St {
    /// gen/kill: a subset of 0..size
    Bits(u32),
    /// constant map: per key 0 = bottom (no information), 1..=3 = that constant, 255 = top
    Map(Vec<u8>),
    /// saturating counter
    Ctr(u32),
    /// set of location ids
    Seen(BTreeSet<u16>),
}

fn subset_order(a_in_b: bool, b_in_a: bool) -> Option<Ordering> {
    match (a_in_b, b_in_a) {
        (true, true) => Some(Ordering::Equal),
        (true, false) => Some(Ordering::Less),
        (false, true) => Some(Ordering::Greater),
        (false, false) => None,
    }
}

impl PartialOrd for St {
    fn partial_cmp(&self, other: &St) -> Option<Ordering> {
        match (self, other) {
            (St::Bits(a), St::Bits(b)) => subset_order(a & b == *a, a & b == *b),
            (St::Ctr(a), St::Ctr(b)) => Some(a.cmp(b)),
            (St::Seen(a), St::Seen(b)) => subset_order(a.is_subset(b), b.is_subset(a)),
            (St::Map(a), St::Map(b)) => {
                if a.len() != b.len() {
                    return None;
                }
                let le = |x: u8, y: u8| x == y || x == 0 || y == 255;
                subset_order(a.iter().zip(b).all(|(x, y)| le(*x, *y)), a.iter().zip(b).all(|(x, y)| le(*y, *x)))
            }
            _ => None,
        }
    }
}

fn mix(seed: u64, a: u64, b: u64) -> u64 {
    let mut z = seed ^ a.wrapping_mul(0x9E37_79B9_7F4A_7C15) ^ b.wrapping_mul(0xC2B2_AE3D_27D4_EB4F);
    z = z.wrapping_add(0x9E37_79B9_7F4A_7C15);
    z = (z ^ (z >> 30)).wrapping_mul(0xBF58_476D_1CE4_E5B9);
    z = (z ^ (z >> 27)).wrapping_mul(0x94D0_49BB_1331_11EB);
    z ^ (z >> 31)
}

fn loc_code(l: Loc) -> u64 {
    match l {
        Loc::Instr(b, i) => ((b as u64) << 20) | i as u64,
        Loc::Edge(h, t) => (1u64 << 40) | ((h as u64) << 20) | t as u64,
        Loc::Empty(b) => (2u64 << 40) | ((b as u64) << 20),
    }
}

const CAP_MSG: &str = "C09 harness: trans called more often than the termination bound";
/// deterministic stand-in for the watchdog: no work-list algorithm needs more than
/// (height x edges of the location graph) steps, which is < 10^4 for every generated case
const TRANS_CAP: u64 = 1_000_000;

struct An {
    kind: Kind,
    monotone: bool,
    seed: u64,
    size: u32,
    ids: BTreeMap<Loc, u16>,
    calls: Cell<u64>,
}

impl An {
    fn bottom(&self) -> St {
        match self.kind {
            Kind::GenKill => St::Bits(0),
            Kind::ConstMap => St::Map(vec![0; self.size as usize]),
            Kind::Counter => St::Ctr(0),
            Kind::Seen => St::Seen(BTreeSet::new()),
        }
    }

    /// the transfer function: a pure function of (location, input); `None` is bottom
    fn tr(&self, l: Loc, input: Option<&St>) -> St {
        let x = input.cloned().unwrap_or_else(|| self.bottom());
        let c = loc_code(l);
        let h = |salt: u64| mix(self.seed, c, salt);
        let odd = !self.monotone && h(7) % 3 == 0; // this location misbehaves in the non-monotone variant
        match x {
            St::Bits(x) => {
                let n = self.size.max(1);
                let mask = if n >= 32 { u32::MAX } else { (1u32 << n) - 1 };
                let (gen, kill) = if h(1) % 3 == 0 {
                    (0, 0)
                } else {
                    ((h(2) as u32) & ((h(2) >> 32) as u32) & mask, (h(3) as u32) & ((h(3) >> 32) as u32) & mask)
                };
                let mut out = (x & !kill) | gen;
                if odd {
                    // presence of bit a removes bit b
                    let a = (h(4) % n as u64) as u32;
                    let b = ((h(4) >> 8) % n as u64) as u32;
                    if x & (1 << a) != 0 {
                        out &= !(1u32 << b);
                    }
                }
                St::Bits(out)
            }
            St::Map(mut v) => {
                let n = v.len().max(1);
                let k = (h(2) % n as u64) as usize;
                let k1 = ((h(2) >> 8) % n as u64) as usize;
                let k2 = ((h(2) >> 16) % n as u64) as usize;
                if v.is_empty() {
                    return St::Map(v);
                }
                if odd {
                    // going up in k1 (to top) takes k down from top to a constant
                    v[k] = if v[k1] == 255 { 1 } else { 255 };
                    return St::Map(v);
                }
                match h(1) % 6 {
                    0 | 1 => {}
                    2 => v[k] = 1 + ((h(3) % 3) as u8),
                    3 => v[k] = v[k1],
                    4 => {
                        // strict in bottom, top absorbs, constants fold: monotone, not distributive
                        let (a, b) = (v[k1], v[k2]);
                        v[k] = if a == 0 || b == 0 {
                            0
                        } else if a == 255 || b == 255 {
                            255
                        } else {
                            (a + b) % 3 + 1
                        };
                    }
                    _ => v[k] = 255,
                }
                St::Map(v)
            }
            St::Ctr(x) => {
                let k = self.size.max(1);
                if odd {
                    // wraps instead of saturating
                    return St::Ctr(if x >= k { 0 } else { x + 1 });
                }
                let inc = (h(1) % 2) as u32;
                St::Ctr((x + inc).min(k))
            }
            St::Seen(mut s) => {
                let me = self.ids.get(&l).copied().unwrap_or(u16::MAX);
                if odd && s.iter().any(|j| mix(self.seed, c, 100 + *j as u64) % 4 == 0) {
                    // a larger input can reset the set
                    s.clear();
                }
                s.insert(me);
                St::Seen(s)
            }
        }
    }

    fn jn(&self, a: &St, b: &St) -> St {
        match (a, b) {
            (St::Bits(a), St::Bits(b)) => St::Bits(a | b),
            (St::Ctr(a), St::Ctr(b)) => St::Ctr(*a.max(b)),
            (St::Seen(a), St::Seen(b)) => St::Seen(a.union(b).copied().collect()),
            (St::Map(a), St::Map(b)) => St::Map(
                a.iter()
                    .zip(b)
                    .map(|(x, y)| if x == y { *x } else if *x == 0 { *y } else if *y == 0 { *x } else { 255 })
                    .collect(),
            ),
            _ => unreachable!("states of different analyses are never mixed"),
        }
    }
}

fn ref_to_loc(l: &il::RefProgramLocation) -> Loc {
    match l.function_location() {
        il::RefFunctionLocation::Instruction(b, i) => Loc::Instr(b.index(), i.index()),
        il::RefFunctionLocation::Edge(e) => Loc::Edge(e.head(), e.tail()),
        il::RefFunctionLocation::EmptyBlock(b) => Loc::Empty(b.index()),
    }
}

fn pl_to_loc(l: &il::ProgramLocation) -> Loc {
    match *l.function_location() {
        il::FunctionLocation::Instruction(b, i) => Loc::Instr(b, i),
        il::FunctionLocation::Edge(h, t) => Loc::Edge(h, t),
        il::FunctionLocation::EmptyBlock(b) => Loc::Empty(b),
    }
}

impl<'f, 'a> FixedPointAnalysis<'f, St> for &'a An {
    fn trans(&self, location: il::RefProgramLocation<'f>, state: Option<St>) -> Result<St, Error> {
        let n = self.calls.get() + 1;
        self.calls.set(n);
        if n > TRANS_CAP {
            return Err(Error::Custom(CAP_MSG.to_string()));
        }
        Ok(self.tr(ref_to_loc(&location), state.as_ref()))
    }
    fn join(&self, state0: St, state1: &St) -> Result<St, Error> {
        Ok(self.jn(&state0, state1))
    }
}

// ------------------------------------------------------------------------------------------
// location graph and oracle
// ------------------------------------------------------------------------------------------

struct LocGraph {
    locs: Vec<Loc>,
    /// flow predecessors / successors in the direction of the analysis
    fpred: Vec<Vec<usize>>,
    fsucc: Vec<Vec<usize>>,
    start: usize,
    /// reachable from start along fsucc
    reach: Vec<bool>,
}

impl LocGraph {
    fn new(view: &FnView, exit_block: usize, backward: bool) -> Result<LocGraph, Failure> {
        let mut locs = view.all_locs();
        locs.sort();
        locs.dedup();
        let id: BTreeMap<Loc, usize> = locs.iter().enumerate().map(|(i, l)| (*l, i)).collect();
        let mut succ = vec![Vec::new(); locs.len()];
        let mut pred = vec![Vec::new(); locs.len()];
        for (i, l) in locs.iter().enumerate() {
            for s in view.succ_locs(*l) {
                succ[i].push(*id.get(&s).ok_or_else(|| Failure::new("C09|harness|locgraph", format!("{:?} has unknown successor {:?}", l, s)))?);
            }
            for p in view.pred_locs(*l) {
                pred[i].push(*id.get(&p).ok_or_else(|| Failure::new("C09|harness|locgraph", format!("{:?} has unknown predecessor {:?}", l, p)))?);
            }
        }
        // self-check of the reference graph: pred is the inverse of succ
        for i in 0..locs.len() {
            for s in &succ[i] {
                if !pred[*s].contains(&i) {
                    fv::fail!("C09|harness|locgraph", "succ/pred of the reference location graph are not inverse at {:?}", locs[i]);
                }
            }
            for p in &pred[i] {
                if !succ[*p].contains(&i) {
                    fv::fail!("C09|harness|locgraph", "pred/succ of the reference location graph are not inverse at {:?}", locs[i]);
                }
            }
        }
        let start_loc = if backward {
            match view.blocks.get(&exit_block).and_then(|b| b.last()) {
                Some(i) => Loc::Instr(exit_block, i.index),
                None => Loc::Empty(exit_block),
            }
        } else {
            view.entry_loc().map_err(|e| Failure::new("C09|harness|locgraph", format!("{:?}", e)))?
        };
        let start = *id.get(&start_loc).ok_or_else(|| Failure::new("C09|harness|locgraph", "start location unknown"))?;
        let (fpred, fsucc) = if backward { (succ, pred) } else { (pred, succ) };
        let mut reach = vec![false; locs.len()];
        let mut stack = vec![start];
        while let Some(l) = stack.pop() {
            if !reach[l] {
                reach[l] = true;
                stack.extend(fsucc[l].iter().copied());
            }
        }
        Ok(LocGraph { locs, fpred, fsucc, start, reach })
    }

    fn cyclic(&self) -> bool {
        // a cycle among the reachable locations (iterative colouring)
        let n = self.locs.len();
        let mut indeg = vec![0usize; n];
        for l in 0..n {
            if self.reach[l] {
                for s in &self.fsucc[l] {
                    indeg[*s] += 1;
                }
            }
        }
        // Kahn: if not every reachable location can be removed there is a cycle
        let mut q: Vec<usize> = (0..n).filter(|l| self.reach[*l] && indeg[*l] == 0).collect();
        let mut removed = 0usize;
        while let Some(l) = q.pop() {
            removed += 1;
            for s in &self.fsucc[l] {
                indeg[*s] -= 1;
                if indeg[*s] == 0 {
                    q.push(*s);
                }
            }
        }
        removed != self.reach.iter().filter(|r| **r).count()
    }
}

fn join_in<'a>(an: &An, states: impl Iterator<Item = &'a St>) -> Option<St> {
    let mut acc: Option<St> = None;
    for s in states {
        acc = Some(match acc {
            None => s.clone(),
            Some(a) => an.jn(&a, s),
        });
    }
    acc
}

/// Least solution by chaotic iteration.  `order_a`: ascending sweep evaluating every reachable
/// location; otherwise descending sweep evaluating a location only once it has an input (or is
/// the start) and joining predecessors in the opposite order.
fn least_solution(an: &An, g: &LocGraph, order_a: bool) -> Result<Vec<Option<St>>, Failure> {
    let n = g.locs.len();
    let mut x: Vec<Option<St>> = vec![None; n];
    let order: Vec<usize> = if order_a { (0..n).collect() } else { (0..n).rev().collect() };
    let mut rounds = 0usize;
    loop {
        let mut changed = false;
        for &l in &order {
            if !g.reach[l] {
                continue;
            }
            let input = if order_a {
                join_in(an, g.fpred[l].iter().filter(|p| g.reach[**p]).filter_map(|p| x[*p].as_ref()))
            } else {
                join_in(an, g.fpred[l].iter().rev().filter(|p| g.reach[**p]).filter_map(|p| x[*p].as_ref()))
            };
            if !order_a && input.is_none() && l != g.start {
                continue;
            }
            let new = an.tr(g.locs[l], input.as_ref());
            if x[l].as_ref() != Some(&new) {
                x[l] = Some(new);
                changed = true;
            }
        }
        if !changed {
            return Ok(x);
        }
        rounds += 1;
        if rounds > 20_000 {
            fv::fail!("C09|harness|oracle-diverges", "reference iteration did not converge for a monotone analysis");
        }
    }
}

/// One pass in breadth-first order from the start (used only for the non-trivial rule).
fn single_pass(an: &An, g: &LocGraph) -> Vec<Option<St>> {
    let n = g.locs.len();
    let mut x: Vec<Option<St>> = vec![None; n];
    let mut seen = vec![false; n];
    let mut q = VecDeque::new();
    q.push_back(g.start);
    seen[g.start] = true;
    while let Some(l) = q.pop_front() {
        let input = join_in(an, g.fpred[l].iter().filter_map(|p| x[*p].as_ref()));
        x[l] = Some(an.tr(g.locs[l], input.as_ref()));
        for s in &g.fsucc[l] {
            if !seen[*s] {
                seen[*s] = true;
                q.push_back(*s);
            }
        }
    }
    x
}

// ------------------------------------------------------------------------------------------
// running falcon
// ------------------------------------------------------------------------------------------

enum Out {
    Ok(BTreeMap<Loc, St>),
    Ordering(String),
    MaxSteps,
    Cap,
    Other(String),
}

const DEFAULT_STEPS: usize = 250_000; // DEFAULT_MAX_ANALYSIS_STEPS

fn run_solver(function: &il::Function, an: &An, case: &Case, budget: Option<usize>, tag: &str) -> Result<(Out, u64), Failure> {
    an.calls.set(0);
    let r = guard(|| -> Result<(BTreeMap<Loc, St>, usize), Error> {
        if case.backward {
            // both entry points are exercised: the plain one is `_options(.., false)`
            let m = if case.force {
                fixed_point_backward_options(an, function, true)?
            } else if case.seed & 1 == 0 {
                fixed_point_backward(an, function)?
            } else {
                fixed_point_backward_options(an, function, false)?
            };
            let len = m.len();
            Ok((m.iter().map(|(k, v)| (ref_to_loc(k), v.clone())).collect(), len))
        } else {
            let m = match (case.force, budget) {
                (false, None) => fixed_point_forward(an, function)?,
                (f, b) => fixed_point_forward_options(an, function, f, b.unwrap_or(DEFAULT_STEPS))?,
            };
            let len = m.len();
            Ok((m.iter().map(|(k, v)| (pl_to_loc(k), v.clone())).collect(), len))
        }
    });
    let calls = an.calls.get();
    let out = match r {
        Err(pi) => fv::fail!(format!("C09|{}|{}", tag, pi.sig()), "the solver panicked: {} ({}:{})", pi.msg, pi.file, pi.line),
        Ok(Ok((m, len))) => {
            if m.len() != len {
                fv::fail!(format!("C09|{}|keys|duplicate", tag), "the returned map has {} keys for {} distinct locations", len, m.len());
            }
            Out::Ok(m)
        }
        Ok(Err(Error::FixedPointMaxSteps)) => Out::MaxSteps,
        Ok(Err(Error::FixedPointOrdering(what, loc))) => Out::Ordering(format!("{} at {}", what, loc)),
        Ok(Err(Error::Custom(ref s))) if s == CAP_MSG => Out::Cap,
        Ok(Err(e)) => Out::Other(e.to_string()),
    };
    Ok((out, calls))
}

/// keys exactly the reachable locations, every stored state satisfies its equation
fn check_equations(an: &An, g: &LocGraph, m: &BTreeMap<Loc, St>, tag: &str, what: &str) -> Result<(), Failure> {
    let reach: BTreeSet<Loc> = (0..g.locs.len()).filter(|l| g.reach[*l]).map(|l| g.locs[l]).collect();
    let missing: Vec<&Loc> = reach.iter().filter(|l| !m.contains_key(l)).collect();
    if !missing.is_empty() {
        fv::fail!(format!("C09|{}|{}|keys-missing-reachable", tag, what), "no state for {} of the {} reachable locations, e.g. {:?}", missing.len(), reach.len(), missing[0]);
    }
    let extra: Vec<&Loc> = m.keys().filter(|l| !reach.contains(l)).collect();
    if !extra.is_empty() {
        fv::fail!(format!("C09|{}|{}|keys-extra-unreachable", tag, what), "state for {} locations that are not reachable from the start, e.g. {:?}", extra.len(), extra[0]);
    }
    for (i, l) in g.locs.iter().enumerate() {
        if !g.reach[i] {
            continue;
        }
        let input = join_in(an, g.fpred[i].iter().filter_map(|p| m.get(&g.locs[*p])));
        let want = an.tr(*l, input.as_ref());
        if m[l] != want {
            fv::fail!(
                format!("C09|{}|{}|equation-violated", tag, what),
                "state at {:?} is {:?} but trans({:?}, join of the neighbours' states = {:?}) = {:?}",
                l, m[l], l, input, want
            );
        }
    }
    Ok(())
}

fn check_least(g: &LocGraph, m: &BTreeMap<Loc, St>, lfp: &[Option<St>], tag: &str, what: &str) -> Result<(), Failure> {
    for (i, l) in g.locs.iter().enumerate() {
        if g.reach[i] && Some(&m[l]) != lfp[i].as_ref() {
            fv::fail!(
                format!("C09|{}|{}|not-least-solution", tag, what),
                "state at {:?} is {:?}, the least solution has {:?} (the map satisfies the equations but is not the least solution)",
                l, m[l], lfp[i]
            );
        }
    }
    Ok(())
}

fn check(case: &Case, obs: &mut Obs) -> Result<(), Failure> {
    let spec = case.skel.to_fnspec();
    let function = spec.build().map_err(|e| Failure::new("C09|harness|build", e))?;
    let view = FnView::of(&function);
    let exit_block = function.control_flow_graph().exit().ok_or_else(|| Failure::new("C09|harness|build", "no exit"))?;
    let g = LocGraph::new(&view, exit_block, case.backward)?;
    if case.skel.gaps.iter().any(|(b, k)| *k >= 1 && *k < case.skel.blocks[*b]) {
        obs.class("index-gap-inside-block");
    }
    if case.skel.branch_last.iter().any(|b| case.skel.blocks[*b] >= 1 && case.skel.edges.iter().any(|e| e.0 == *b)) {
        obs.class("block-ending-in-branch-with-out-edges");
    }
    let an = An {
        kind: case.kind,
        monotone: case.monotone,
        seed: case.seed,
        size: case.size,
        ids: g.locs.iter().enumerate().map(|(i, l)| (*l, i as u16)).collect(),
        calls: Cell::new(0),
    };
    let tag = match (case.backward, case.force) {
        (false, false) => "fwd",
        (false, true) => "fwd-force",
        (true, false) => "bwd",
        (true, true) => "bwd-force",
    };

    // ---- classes of the skeleton
    let skel = &case.skel;
    let n = skel.blocks.len();
    let mut from_entry = vec![false; n];
    let mut stack = vec![skel.entry];
    while let Some(b) = stack.pop() {
        if !from_entry[b] {
            from_entry[b] = true;
            stack.extend(skel.edges.iter().filter(|e| e.0 == b).map(|e| e.1));
        }
    }
    let mut shape: Vec<&'static str> = Vec::new();
    if skel.edges.iter().any(|e| e.0 == e.1 && from_entry[e.0]) {
        shape.push("self-loop");
    }
    if skel.edges.iter().any(|e| e.1 == skel.entry && from_entry[e.0]) {
        shape.push("loop-through-entry");
    }
    if (0..n).any(|b| from_entry[b] && skel.blocks[b] == 0) {
        shape.push("empty-block");
    }
    if skel.blocks[skel.entry] == 0 {
        shape.push("entry-block-empty");
    }
    if (0..n).filter(|b| from_entry[*b] && !skel.edges.iter().any(|e| e.0 == *b)).count() >= 2 {
        shape.push("multiple-exits");
    }
    if (0..n).any(|b| !from_entry[b]) {
        shape.push("unreachable-block");
    }
    if skel.edges.iter().any(|e| !from_entry[e.0] && from_entry[e.1]) {
        shape.push("unreachable-feeds-live");
    }
    if skel.edges.iter().any(|e| e.0 == skel.exit) {
        shape.push("exit-has-successors");
    }
    if !from_entry[skel.exit] {
        shape.push("exit-unreachable-from-entry");
    }
    let cyclic = g.cyclic();
    if cyclic {
        shape.push("cycle");
    }
    if !g.fpred[g.start].is_empty() && g.fpred[g.start].iter().any(|p| g.reach[*p]) {
        shape.push("start-on-cycle");
    }
    if g.reach.iter().filter(|r| **r).count() == 1 {
        shape.push("single-location");
    }
    for s in &shape {
        obs.class(s);
    }
    obs.class(if case.backward { "dir-backward" } else { "dir-forward" });
    obs.class(if case.force { "force-on" } else { "force-off" });
    obs.class(if case.monotone { "monotone" } else { "non-monotone" });
    obs.class(match case.kind {
        Kind::GenKill => "kind-genkill",
        Kind::ConstMap => "kind-constmap",
        Kind::Counter => "kind-counter",
        Kind::Seen => "kind-seen",
    });
    obs.class(match case.budget {
        Budget::Default => "budget-default",
        Budget::Zero => "budget-0",
        Budget::One => "budget-1",
        Budget::NeedMinus2 => "budget-need-2",
        Budget::NeedMinus1 => "budget-need-1",
        Budget::Need => "budget-need",
        Budget::Max => "budget-usize-max",
    });

    // ---- oracle (monotone analyses only: otherwise there need not be a least solution)
    let lfp = if case.monotone {
        let a = least_solution(&an, &g, true)?;
        let b = least_solution(&an, &g, false)?;
        if a != b {
            fv::fail!("C09|harness|oracle-orders-disagree", "the two visiting orders of the reference iteration disagree");
        }
        Some(a)
    } else {
        None
    };
    let once = single_pass(&an, &g);

    // ---- base run: default budget
    let (out0, need) = run_solver(&function, &an, case, None, tag)?;
    obs.count("solver-steps", need);
    let mut iterated = false;
    match &out0 {
        Out::Ok(m) => {
            let what = if case.monotone { "monotone" } else { "non-monotone-ok" };
            check_equations(&an, &g, m, tag, what)?;
            if let Some(lfp) = &lfp {
                check_least(&g, m, lfp, tag, what)?;
            }
            iterated = (0..g.locs.len()).any(|i| g.reach[i] && m.get(&g.locs[i]) != once[i].as_ref());
            obs.class(if case.monotone { "result-ok-monotone" } else { "result-ok-non-monotone" });
        }
        Out::Ordering(e) => {
            if case.monotone {
                fv::fail!(format!("C09|{}|monotone|ordering-error", tag), "monotone analysis, yet the solver reported an ordering violation: {}", e);
            }
            iterated = true;
            obs.class("result-err-ordering");
        }
        Out::MaxSteps => {
            if case.backward {
                fv::fail!(format!("C09|{}|err-other", tag), "backward solver returned FixedPointMaxSteps but has no budget");
            }
            if case.monotone {
                fv::fail!(
                    format!("C09|{}|monotone|maxsteps-at-default-budget", tag),
                    "{} steps were not enough for {} reachable locations over a lattice of height <= {}",
                    DEFAULT_STEPS, g.reach.iter().filter(|r| **r).count(), g.locs.len().max(16)
                );
            }
            obs.class("result-err-maxsteps-non-monotone");
        }
        Out::Cap => {
            fv::fail!(format!("C09|{}|termination|no-fixed-point-within-step-bound", tag), "the solver applied the transfer function more than {} times without finishing", TRANS_CAP);
        }
        Out::Other(e) => {
            fv::fail!(format!("C09|{}|err-other", tag), "unexpected error from the solver: {}", e);
        }
    }

    // ---- second run with a chosen step budget (forward only: the backward solver has none)
    if !case.backward && case.budget != Budget::Default {
        let b = match case.budget {
            Budget::Zero => 0u64,
            Budget::One => 1,
            Budget::NeedMinus2 => need.saturating_sub(2),
            Budget::NeedMinus1 => need.saturating_sub(1),
            Budget::Max => u64::MAX,
            _ => need,
        };
        let base_ok = matches!(out0, Out::Ok(_));
        let (out1, steps1) = run_solver(&function, &an, case, Some(b as usize), tag)?;
        match &out1 {
            Out::Ok(m) => {
                let what = if b >= need {
                    "budget-sufficient"
                } else {
                    "budget-exhausted-ok"
                };
                check_equations(&an, &g, m, tag, what)?;
                if let Some(lfp) = &lfp {
                    check_least(&g, m, lfp, tag, what)?;
                }
                if b < need {
                    // the solver took more steps than allowed and still answered: tolerated (the
                    // answer was just checked), but counted
                    obs.class("budget-below-need-answered-ok");
                    obs.count("steps-beyond-budget", steps1.saturating_sub(b));
                } else {
                    obs.class("budget-sufficient-ok");
                }
            }
            Out::MaxSteps => {
                if b >= need && base_ok {
                    fv::fail!(
                        format!("C09|{}|budget|maxsteps-although-budget-sufficient", tag),
                        "the solve takes {} steps (measured with the default budget); with max_analysis_steps = {} it returned FixedPointMaxSteps",
                        need, b
                    );
                }
                obs.class("budget-exhausted-err");
            }
            Out::Ordering(e) => {
                if case.monotone {
                    fv::fail!(format!("C09|{}|monotone|ordering-error", tag), "monotone analysis, yet the solver reported an ordering violation: {}", e);
                }
                obs.class("budget-run-err-ordering");
            }
            Out::Cap => {
                fv::fail!(format!("C09|{}|termination|no-fixed-point-within-step-bound", tag), "more than {} transfer applications with max_analysis_steps = {}", TRANS_CAP, b);
            }
            Out::Other(e) => {
                fv::fail!(format!("C09|{}|err-other", tag), "unexpected error from the solver: {}", e);
            }
        }
    }

    if cyclic && iterated {
        shape.retain(|s| *s != "cycle");
        obs.nontrivial(&(shape.clone(), case.kind, case.monotone, case.backward, case.force, case.budget));
        obs.class("nontrivial");
    }
    if obs.want_sample() {
        obs.sample(render(case));
    }
    Ok(())
}

fn render(c: &Case) -> String {
    let mut s = format!(
        "{} {}{} analysis {:?}(size {}, seed 0x{:x}) budget {:?}; cfg entry={} exit={} blocks[#nops]=",
        if c.backward { "backward" } else { "forward" },
        if c.force { "force " } else { "" },
        if c.monotone { "monotone" } else { "NON-monotone" },
        c.kind, c.size, c.seed, c.budget, c.skel.entry, c.skel.exit
    );
    s.push_str(&format!("{:?} edges=", c.skel.blocks));
    for (h, t) in &c.skel.edges {
        s.push_str(&format!("{}->{} ", h, t));
    }
    s
}

fn simplify(c: &Case) -> Vec<Case> {
    let mut v = Vec::new();
    let n = c.skel.blocks.len();
    // drop the last block (if it is neither entry nor exit)
    if n > 1 && c.skel.entry != n - 1 && c.skel.exit != n - 1 {
        let mut d = c.clone();
        d.skel.blocks.pop();
        d.skel.edges.retain(|e| e.0 != n - 1 && e.1 != n - 1);
        v.push(d);
    }
    for i in 0..c.skel.edges.len() {
        let mut d = c.clone();
        d.skel.edges.remove(i);
        v.push(d);
    }
    for i in 0..n {
        if c.skel.blocks[i] > 0 {
            let mut d = c.clone();
            d.skel.blocks[i] -= 1;
            v.push(d);
        }
    }
    if c.force {
        let mut d = c.clone();
        d.force = false;
        v.push(d);
    }
    if c.budget != Budget::Default {
        let mut d = c.clone();
        d.budget = Budget::Default;
        v.push(d);
    }
    if c.size > 1 {
        let mut d = c.clone();
        d.size -= 1;
        v.push(d);
    }
    if c.seed > 0xffff {
        let mut d = c.clone();
        d.seed &= 0xffff;
        v.push(d);
    }
    v
}

/// libFuzzer entry: the input bytes are the entropy tape (little-endian u32 words); same
/// generator, same oracle as the proptest tiers.
#[allow(dead_code)]
pub fn fuzz_bytes(data: &[u8]) {
    let tape = fv::tape::words_from_bytes(data, 800);
    let case = decode(&mut Tape::new(&tape));
    engine::fuzz_one("C09", &case, &render, &check);
}

#[allow(dead_code)]
fn main() -> std::process::ExitCode {
    let mut spec = Spec::new(
        "C09",
        "CFG skeletons from gen_fn (1-12 blocks of 0-4 nops, 0-3 out-edges, optional unreachable blocks, entry/exit sometimes moved) x {gen/kill bit-set, constant map, saturating counter, locations-seen} with per-location parameters hashed from a seed, monotone or non-monotone x forward/backward x force x step budget {default,0,1,need-2,need-1,need}; falcon's result is compared with a reference chaotic iteration over an independently built location graph (two visiting orders) and the equations are re-checked on the returned map; non-trivial = the reachable location graph has a cycle and the answer differs from one breadth-first pass (or the ordering error was raised); distinct = (set of skeleton classes, analysis kind, monotone, direction, force, budget class)",
        Box::new(|_t: Tier| from_tape(800, decode)),
        |t| t.pick(2_000_000, 40_000_000),
        check,
    );
    spec.render = render;
    spec.simplify = Some(simplify);
    spec.case_timeout_s = 60;
    spec.hang_is_violation = true;
    spec.crash_sig = |c: &Case| {
        format!(
            "C09|{}{}|no-termination-or-crash",
            if c.backward { "bwd" } else { "fwd" },
            if c.force { "-force" } else { "" }
        )
    };
    spec.assumptions = vec![
        "None is bottom: every generated analysis has trans(l, None) == trans(l, Some(bottom)) and join(bottom, x) == x (the convention of reaching_definitions and constants); analyses that give None a boundary value different from bottom (stack_pointer_offsets) are not generated".into(),
        "transfer functions are pure functions of (location, input) and never return Err; join is commutative, associative and idempotent and never returns Err".into(),
        "force = true is only combined with monotone analyses: with force the documentation says the order is forced by joining, i.e. no error is promised for a non-monotone analysis".into(),
        "a step is one application of the transfer function; 'need' is the number of steps the solver itself takes with the default budget (the solver is deterministic); a budget >= need must not produce FixedPointMaxSteps; with a smaller budget both Err and a checked-correct Ok are accepted".into(),
        "functions without an entry (forward) or exit (backward) are not generated; the solvers document an error for them".into(),
    ];
    spec.floors = vec![
        ("loop-through-entry", 0.05),
        ("self-loop", 0.05),
        ("empty-block", 0.05),
        ("multiple-exits", 0.05),
        ("unreachable-feeds-live", 0.03),
        ("index-gap-inside-block", 0.03),
        ("block-ending-in-branch-with-out-edges", 0.10),
        ("nontrivial", 0.20),
        ("result-err-ordering", 0.03),
        ("budget-exhausted-err", 0.05),
        ("budget-sufficient-ok", 0.03),
    ];
    engine::main(spec)
}
