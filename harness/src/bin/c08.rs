//! C08 — paged memory is a byte-addressed array layered over its optional backing, with
//! independent clones, reflexive equality and page-wise permissions.
//!
//! Domain: histories of 1-60 operations (store / load / clone / set_permissions / permissions /
//! == / invalid widths) over up to 4 live memories that all descend from one fresh memory by
//! `clone`, for V = il::Constant and V = il::Expression, both endiannesses, with and without a
//! backing::Memory of 1-3 sections.  Addresses are drawn from clusters around 1024-byte page
//! boundaries, 0, the edges of backing sections and earlier stores, 2^32, 2^63 and the top of the
//! address space (never wrapping).  Widths: 8..128 bits in byte steps and 256 bits.
//!
//! Oracle (independent of falcon): per memory a `BTreeMap<u64,u8>` overlay (last store wins), the
//! backing's byte map (last set_memory wins, as established by C16), and two permission models —
//! the ranges that were set, and the pages they touch.  Stored Expression values are evaluated
//! with `fv::bv::Bv` / `fv::refil::eval` under a fixed scalar valuation, and so are the expressions
//! a load returns.

use falcon::architecture::Endian;
use falcon::il;
use falcon::memory::backing;
use falcon::memory::paged::Memory;
use falcon::memory::{MemoryPermissions, Value};
use falcon::RC;
use fv::bv::Bv;
use fv::engine::{self, guard, Failure, Obs, Spec, Tier};
use fv::refil;
use fv::tape::{from_tape, Tape};
use num_bigint::BigUint;
use serde::{Deserialize, Serialize};
use std::collections::{BTreeMap, BTreeSet};

const PAGE: u64 = 1024;
const MAX_LIVE: usize = 4;
const TOP: u64 = u64::MAX;

// ---------------------------------------------------------------------------------------------
// the case

/// A value to store.  `le` is the little-endian byte string of a constant; its length is the
/// width in bytes.  Scalars are named `s<id>_<bits>` and have a fixed valuation (`scalar_bv`).
#[derive(Clone, Debug, Serialize, Deserialize, PartialEq)]
enum Val {
    Const { le: Vec<u8> },
    Scalar { bytes: usize, id: u8 },
    Xor { id: u8, le: Vec<u8> },
    Add { id: u8, le: Vec<u8> },
    Zext { bytes: usize, from_bits: usize, id: u8 },
}

#[derive(Clone, Debug, Serialize, Deserialize)]
enum Op {
    Store { m: usize, addr: u64, val: Val },
    Load { m: usize, addr: u64, bits: usize },
    /// clone memory `src`; appended while fewer than 4 are live, otherwise replaces slot `dst`
    Clone { src: usize, dst: usize },
    SetPerm { m: usize, addr: u64, len: u64, perms: u32 },
    Perm { m: usize, addr: u64 },
    Eq { a: usize, b: usize },
    /// m == m.clone()
    EqClone { m: usize },
    /// store of a value whose width is not a positive multiple of 8
    BadStore { m: usize, addr: u64, bits: usize },
    BadLoad { m: usize, addr: u64, bits: usize },
}

#[derive(Clone, Debug, Serialize, Deserialize)]
struct Section {
    addr: u64,
    data: Vec<u8>,
    perms: u32,
}

#[derive(Clone, Debug, Serialize, Deserialize)]
struct Case {
    /// V = il::Expression (else il::Constant)
    expr: bool,
    big_endian: bool,
    /// None: Memory::new; Some: Memory::new_with_backing over these set_memory calls (in order)
    backing: Option<Vec<Section>>,
    ops: Vec<Op>,
}

// ---------------------------------------------------------------------------------------------
// generator

/// page boundaries first (the simplest anchor is one page boundary), then 0, 2^32, 2^63, top
const ANCHORS: [u64; 9] = [
    0x400,
    0,
    0x800,
    0x1_0000_0000,
    0x8000_0000_0000_0000,
    0xc00,
    0xffff_fc00,
    0x7fff_ffff_ffff_fc00,
    TOP,
];
const ANCHOR_W: [u32; 9] = [30, 14, 12, 10, 10, 8, 5, 5, 6];

fn near(t: &mut Tape, anchors: &[u64]) -> u64 {
    let a = anchors[t.below(anchors.len())];
    let d = t.below(49) as u64;
    if d.is_multiple_of(2) {
        a.saturating_add(d / 2)
    } else {
        a.saturating_sub(d.div_ceil(2))
    }
}

fn aim(t: &mut Tape, anchors: &[u64], regions: &[(u64, u64)]) -> u64 {
    let rel = t.chance(1, 2);
    if rel && !regions.is_empty() {
        let (a, l) = regions[t.below(regions.len())];
        let e = a.saturating_add(l);
        let c = [
            a,
            e,
            e.saturating_sub(1),
            a.saturating_sub(1),
            a.saturating_add(l / 2),
            a.saturating_add(1),
            e.saturating_sub(3),
            a.saturating_sub(3),
        ];
        c[t.below(c.len())]
    } else {
        near(t, anchors)
    }
}

fn width_bytes(t: &mut Tape) -> usize {
    match t.weighted(&[14, 12, 14, 12, 14, 10, 14, 10]) {
        0 => 1,
        1 => 2,
        2 => 4,
        3 => 8,
        4 => *t.pick(&[3usize, 5, 6, 7]),
        5 => t.range(9, 15),
        6 => 16,
        _ => 32,
    }
}

fn mix(a: u64, b: u64) -> u64 {
    let mut z = a.wrapping_mul(0x9E37_79B9_7F4A_7C15) ^ b.wrapping_add(0x632B_E59B_D9B4_E019).wrapping_mul(0xBF58_476D_1CE4_E5B9);
    z = (z ^ (z >> 30)).wrapping_mul(0xBF58_476D_1CE4_E5B9);
    z = (z ^ (z >> 27)).wrapping_mul(0x94D0_49BB_1331_11EB);
    z ^ (z >> 31)
}

fn fill_bytes(fill: u32, n: usize) -> Vec<u8> {
    (0..n)
        .map(|i| if fill == 0 { (i + 1) as u8 } else { mix(fill as u64, i as u64) as u8 })
        .collect()
}

fn gen_val(t: &mut Tape, expr: bool) -> Val {
    let bytes = width_bytes(t);
    let kind = if expr { t.weighted(&[40, 25, 15, 10, 10]) } else { 0 };
    match kind {
        0 => Val::Const { le: fill_bytes(t.raw(), bytes) },
        1 => Val::Scalar { bytes, id: t.below(4) as u8 },
        2 => Val::Xor { id: t.below(4) as u8, le: fill_bytes(t.raw(), bytes) },
        3 => Val::Add { id: t.below(4) as u8, le: fill_bytes(t.raw(), bytes) },
        _ => {
            let id = t.below(4) as u8;
            let cands: Vec<usize> = [1usize, 8, 16, 32, 64].iter().copied().filter(|f| *f < bytes * 8).collect();
            if cands.is_empty() {
                Val::Scalar { bytes, id }
            } else {
                Val::Zext { bytes, from_bits: cands[t.below(cands.len())], id }
            }
        }
    }
}

fn decode(t: &mut Tape) -> Case {
    let expr = t.chance(1, 2);
    let big_endian = t.chance(1, 2);
    let na = 1 + t.weighted(&[60, 30, 10]);
    let anchors: Vec<u64> = (0..na).map(|_| ANCHORS[t.weighted(&ANCHOR_W)]).collect();
    let mut regions: Vec<(u64, u64)> = Vec::new();

    let backing = if t.chance(1, 2) {
        let n = t.range(1, 3);
        let mut v = Vec::new();
        for _ in 0..n {
            let len = match t.below(4) {
                0 => t.range(1, 4),
                1 => t.range(40, 64),
                _ => t.range(4, 24),
            };
            let addr = aim(t, &anchors, &regions).min(TOP - len as u64);
            let perms = t.below(8) as u32;
            let data = fill_bytes(t.raw() | 1, len).iter().map(|b| b ^ 0xa5).collect();
            regions.push((addr, len as u64));
            v.push(Section { addr, data, perms });
        }
        Some(v)
    } else {
        None
    };

    let n = t.range(1, 60);
    let mut ops = Vec::new();
    while ops.len() < n {
        let m = t.below(MAX_LIVE);
        match t.weighted(&[30, 30, 7, 7, 10, 6, 3, 2, 2, 4]) {
            0 => {
                let val = gen_val(t, expr);
                let k = val_bytes(&val) as u64;
                // the access may end with the very last byte of the address space (no wrap)
                let addr = aim(t, &anchors, &regions).min(TOP - (k - 1));
                regions.push((addr, k));
                ops.push(Op::Store { m, addr, val });
            }
            1 => {
                let k = width_bytes(t) as u64;
                let addr = aim(t, &anchors, &regions).min(TOP - (k - 1));
                ops.push(Op::Load { m, addr, bits: (k * 8) as usize });
            }
            2 => ops.push(Op::Clone { src: m, dst: t.below(MAX_LIVE) }),
            3 => {
                let (addr, len) = if t.chance(1, 2) {
                    // unaligned range
                    let addr = aim(t, &anchors, &regions);
                    let len = match t.below(3) {
                        0 => t.range(1, 64),
                        1 => t.range(1000, 1100),
                        _ => t.range(1, 2200),
                    } as u64;
                    (addr, len)
                } else {
                    // whole pages, as a loader would set them
                    let addr = aim(t, &anchors, &regions) & !(PAGE - 1);
                    (addr, PAGE * t.range(1, 3) as u64)
                };
                let addr = addr.min(TOP - 1);
                let len = len.min(TOP - addr);
                regions.push((addr, len));
                ops.push(Op::SetPerm { m, addr, len, perms: t.below(8) as u32 });
            }
            4 => ops.push(Op::Perm { m, addr: aim(t, &anchors, &regions) }),
            5 => ops.push(Op::Eq { a: m, b: t.below(MAX_LIVE) }),
            6 => ops.push(Op::EqClone { m }),
            7 => {
                let bits = *t.pick(&[0usize, 12, 1, 7, 9, 100]);
                ops.push(Op::BadStore { m, addr: aim(t, &anchors, &regions).min(TOP - 40), bits });
            }
            8 => {
                let bits = *t.pick(&[0usize, 12, 1, 7, 9, 100]);
                ops.push(Op::BadLoad { m, addr: aim(t, &anchors, &regions).min(TOP - 40), bits });
            }
            _ => {
                // the same store through two memories (keeps them equal if they were)
                let val = gen_val(t, expr);
                let k = val_bytes(&val) as u64;
                let addr = aim(t, &anchors, &regions).min(TOP - k);
                let m2 = t.below(MAX_LIVE);
                regions.push((addr, k));
                ops.push(Op::Store { m, addr, val: val.clone() });
                ops.push(Op::Store { m: m2, addr, val });
            }
        }
    }
    Case { expr, big_endian, backing, ops }
}

// ---------------------------------------------------------------------------------------------
// reference values

fn val_bytes(v: &Val) -> usize {
    match v {
        Val::Const { le } | Val::Xor { le, .. } | Val::Add { le, .. } => le.len(),
        Val::Scalar { bytes, .. } | Val::Zext { bytes, .. } => *bytes,
    }
}

fn scalar_name(id: u8, bits: usize) -> String {
    format!("s{}_{}", id, bits)
}

/// the fixed valuation of scalar `s<id>_<bits>`
fn scalar_bv(id: u8, bits: usize) -> Bv {
    let n = bits / 8 + 1;
    let b: Vec<u8> = (0..n).map(|i| (mix(0x5ca1a8 + id as u64 * 977 + bits as u64, i as u64) >> 8) as u8 | 1).collect();
    Bv::new(BigUint::from_bytes_le(&b), bits)
}

fn const_bv(le: &[u8]) -> Bv {
    Bv::new(BigUint::from_bytes_le(le), le.len() * 8)
}

/// what the value denotes (Bv algebra only)
fn val_bv(v: &Val) -> Bv {
    match v {
        Val::Const { le } => const_bv(le),
        Val::Scalar { bytes, id } => scalar_bv(*id, bytes * 8),
        Val::Xor { id, le } => scalar_bv(*id, le.len() * 8).xor(&const_bv(le)).unwrap(),
        Val::Add { id, le } => scalar_bv(*id, le.len() * 8).add(&const_bv(le)).unwrap(),
        Val::Zext { bytes, from_bits, id } => scalar_bv(*id, *from_bits).zext(bytes * 8).unwrap(),
    }
}

fn valuation() -> refil::Scalars {
    let mut s = refil::Scalars::new();
    let mut widths: Vec<usize> = (1..=16).map(|k| k * 8).collect();
    widths.extend([1usize, 256]);
    for id in 0..4u8 {
        for w in &widths {
            s.insert(scalar_name(id, *w), scalar_bv(id, *w));
        }
    }
    s
}

thread_local! {
    static VALUATION: refil::Scalars = valuation();
}

/// the two instantiations of `memory::Value` under test
trait Tv: Value + Sized {
    const KIND: &'static str;
    fn make(v: &Val) -> Self;
    /// a constant of an arbitrary (possibly invalid) width
    fn of_bits(bits: usize) -> Self;
    fn bv(&self) -> Result<Bv, String>;
    fn show(&self) -> String;
}

impl Tv for il::Constant {
    const KIND: &'static str = "const";
    fn make(v: &Val) -> Self {
        let b = val_bv(v);
        il::Constant::new_big(b.v.clone(), b.w)
    }
    fn of_bits(bits: usize) -> Self {
        il::Constant::new(0x5a5, bits)
    }
    fn bv(&self) -> Result<Bv, String> {
        Ok(Bv { v: self.value().clone(), w: self.bits() })
    }
    fn show(&self) -> String {
        format!("{}", self)
    }
}

impl Tv for il::Expression {
    const KIND: &'static str = "expr";
    fn make(v: &Val) -> Self {
        let c = |le: &[u8]| il::Expression::constant(il::Constant::new_big(BigUint::from_bytes_le(le), le.len() * 8));
        match v {
            Val::Const { le } => c(le),
            Val::Scalar { bytes, id } => il::expr_scalar(scalar_name(*id, bytes * 8), bytes * 8),
            Val::Xor { id, le } => il::Expression::xor(il::expr_scalar(scalar_name(*id, le.len() * 8), le.len() * 8), c(le)).unwrap(),
            Val::Add { id, le } => il::Expression::add(il::expr_scalar(scalar_name(*id, le.len() * 8), le.len() * 8), c(le)).unwrap(),
            Val::Zext { bytes, from_bits, id } => il::Expression::zext(bytes * 8, il::expr_scalar(scalar_name(*id, *from_bits), *from_bits)).unwrap(),
        }
    }
    fn of_bits(bits: usize) -> Self {
        il::expr_const(0x5a5, bits)
    }
    fn bv(&self) -> Result<Bv, String> {
        VALUATION.with(|s| refil::eval(self, s)).map_err(|f| format!("{:?}", f))
    }
    fn show(&self) -> String {
        let s = format!("{}", self);
        if s.len() > 300 {
            format!("{} … ({} chars)", &s[..300], s.len())
        } else {
            s
        }
    }
}

// ---------------------------------------------------------------------------------------------
// the model

type BackModel = BTreeMap<u64, (u8, u32)>;

#[derive(Clone, Default)]
struct MM {
    /// bytes stored through this memory (or through an ancestor before the clone)
    bytes: BTreeMap<u64, u8>,
    /// which store wrote each byte (classification only)
    writer: BTreeMap<u64, u32>,
    /// page -> permissions, for the pages touched by a set_permissions range
    page_perm: BTreeMap<u64, u32>,
    /// the ranges set, in order (a later one wins)
    ranges: Vec<(u64, u64, u32)>,
    /// bytes stored through another live memory since the two diverged (classification only)
    diverged: BTreeSet<u64>,
    /// seam address -> 1: a store crossed a page boundary here, 2: a store cut an older value here
    seams: BTreeMap<u64, u8>,
}

fn byte_at(mm: &MM, back: &BackModel, a: u64) -> Option<u8> {
    mm.bytes.get(&a).copied().or_else(|| back.get(&a).map(|b| b.0))
}

fn expected(mm: &MM, back: &BackModel, addr: u64, n: u64) -> Option<Vec<u8>> {
    (0..n).map(|i| byte_at(mm, back, addr + i)).collect()
}

fn assemble(bytes: &[u8], big: bool) -> Bv {
    if big {
        Bv::from_be_bytes(bytes)
    } else {
        Bv::from_le_bytes(bytes)
    }
}

/// where the bytes of a range come from: store ids, 'B'acking, or nothing
#[derive(Clone, Copy, PartialEq, Eq, PartialOrd, Ord, Debug)]
enum Src {
    Store(u32),
    Backing,
    Absent,
}

fn src_at(mm: &MM, back: &BackModel, a: u64) -> Src {
    match mm.writer.get(&a) {
        Some(w) => Src::Store(*w),
        None if back.contains_key(&a) => Src::Backing,
        None => Src::Absent,
    }
}

fn load_shape(mm: &MM, back: &BackModel, addr: u64, n: u64) -> (&'static str, usize) {
    let srcs: Vec<Src> = (0..n).map(|i| src_at(mm, back, addr + i)).collect();
    let stores: BTreeSet<u32> = srcs.iter().filter_map(|s| if let Src::Store(w) = s { Some(*w) } else { None }).collect();
    let any_b = srcs.contains(&Src::Backing);
    let any_a = srcs.contains(&Src::Absent);
    let shape = if any_a {
        if srcs[0] == Src::Absent {
            "first-byte-absent"
        } else {
            "later-byte-absent"
        }
    } else if any_b && stores.is_empty() {
        "backing-only"
    } else if any_b {
        "stores-and-backing"
    } else if stores.len() == 1 {
        "one-store"
    } else {
        "several-stores"
    };
    (shape, stores.len())
}

struct Ctx {
    big: bool,
    back: BackModel,
    has_backing: bool,
    /// the first failure whose signature is a recorded known finding (the case goes on)
    deferred: Vec<String>,
    loads: u64,
    perm_queries: u64,
}

impl Ctx {
    /// A violation: stop unless it is a recorded known finding, in which case the rest of the
    /// history is still checked (a shallow known defect must not hide a deeper one).
    fn report(&mut self, obs: &mut Obs, f: Failure) -> Result<(), Failure> {
        if obs.known(&f.sig) {
            if !self.deferred.contains(&f.sig) {
                self.deferred.push(f.sig);
            }
            Ok(())
        } else {
            Err(f)
        }
    }
}

/// One load compared with the model.  `others` are the models of the other live memories: if
/// the value returned is what one of *them* holds, the signature says that clones alias.
fn check_load<V: Tv>(mem: &Memory<V>, mm: &MM, others: &[&MM], cx: &mut Ctx, addr: u64, bits: usize, step: i64) -> Result<(), Failure> {
    let n = (bits / 8) as u64;
    let want = expected(mm, &cx.back, addr, n);
    let (shape, _) = load_shape(mm, &cx.back, addr, n);
    cx.loads += 1;
    let got = match guard(|| mem.load(addr, bits)) {
        Ok(Ok(g)) => g,
        Ok(Err(e)) => fv::fail!(format!("C08|load|error|{}", shape), "step {}: load(0x{:x}, {}) returned Err({}); model bytes {:02x?}", step, addr, bits, e, want),
        Err(pi) => fv::fail!(format!("C08|load|panic|{}", shape), "step {}: load(0x{:x}, {}) panicked at {}:{}: {}", step, addr, bits, pi.file, pi.line, pi.msg),
    };
    let end = if cx.big { "big" } else { "little" };
    match (got, want) {
        (None, None) => Ok(()),
        (Some(g), None) => fv::fail!(format!("C08|load|value-for-absent|{}", shape), "step {}: load(0x{:x}, {}) = {} but a byte of the range was never stored nor backed", step, addr, bits, g.show()),
        (None, Some(b)) => fv::fail!(format!("C08|load|absent-for-present|{}", shape), "step {}: load(0x{:x}, {}) = None but every byte is stored or backed: {:02x?}", step, addr, bits, b),
        (Some(g), Some(b)) => {
            let w = assemble(&b, cx.big);
            if g.bits() != bits {
                fv::fail!(format!("C08|load|wrong-width|{}", shape), "step {}: load(0x{:x}, {}) returned a {}-bit value {}", step, addr, bits, g.bits(), g.show());
            }
            let gv = match guard(|| g.bv()) {
                Ok(Ok(v)) => v,
                Ok(Err(e)) => fv::fail!(format!("C08|load|ill-formed-value|{}", shape), "step {}: load(0x{:x}, {}) returned {} which does not evaluate: {}", step, addr, bits, g.show(), e),
                Err(pi) => fv::fail!(format!("C08|load|ill-formed-value|{}", shape), "step {}: evaluating the value loaded from 0x{:x} panicked: {}", step, addr, pi.msg),
            };
            if gv != w {
                for o in others {
                    if let Some(ob) = expected(o, &cx.back, addr, n) {
                        if ob != b && assemble(&ob, cx.big) == gv {
                            fv::fail!("C08|clone|store-visible-through-another-memory", "step {}: load(0x{:x}, {}) = {} which is what another live memory holds ({:02x?}); this one holds {:02x?} ({} endian)", step, addr, bits, gv, ob, b, end);
                        }
                    }
                }
                fv::fail!(format!("C08|load|wrong-value|{}", shape), "step {}: load(0x{:x}, {}) = {} = {}, model bytes {:02x?} ({} endian) = {}", step, addr, bits, g.show(), gv, b, end, w);
            }
            Ok(())
        }
    }
}

fn back_perm(back: &BackModel, a: u64) -> Option<u32> {
    back.get(&a).map(|b| b.1)
}

/// One permissions query.  Two readings of "set on a range": byte-granular (the property text
/// read literally) and page-granular (falcon documents set_permissions as acting on pages).  An
/// answer is accepted if either reading gives it; where they agree the check is exact.
fn check_perm<V: Tv>(mem: &Memory<V>, mm: &MM, cx: &mut Ctx, a: u64, step: i64) -> Result<(), Failure> {
    cx.perm_queries += 1;
    let got = match guard(|| mem.permissions(a)) {
        Ok(g) => g.map(|p| p.bits()),
        Err(pi) => fv::fail!("C08|permissions|panic", "step {}: permissions(0x{:x}) panicked at {}:{}: {}", step, a, pi.file, pi.line, pi.msg),
    };
    let backing = back_perm(&cx.back, a);
    let range = mm.ranges.iter().rev().find(|(s, l, _)| *s <= a && a - *s < *l);
    let by_range = range.map(|r| Some(r.2)).unwrap_or(backing);
    let by_page = mm.page_perm.get(&(a & !(PAGE - 1))).map(|p| Some(*p)).unwrap_or(backing);
    if got == by_range || got == by_page {
        return Ok(());
    }
    let show = |p: Option<u32>| p.map(|b| format!("{:03b}", b)).unwrap_or_else(|| "None".into());
    let pg = a & !(PAGE - 1);
    // the set_permissions call that touched this page last; it is named by where its range
    // starts (a range is handled differently when it starts in the first page)
    let last_on_page = mm.ranges.iter().rev().find(|(s, l, _)| (*s & !(PAGE - 1)) <= pg && pg <= ((*s + (*l - 1)) & !(PAGE - 1)));
    match last_on_page {
        None => {
            // never set, and no set range touches the page: the backing's answer is due
            let page_has_store = mm.bytes.range(pg..=(pg | (PAGE - 1))).next().is_some();
            let what = if page_has_store { "page-has-store" } else { "page-untouched" };
            fv::fail!(format!("C08|permissions|never-set|{}", what), "step {}: permissions(0x{:x}) = {} but no permissions were ever set there and the backing reports {}{}", step, a, show(got), show(backing), if page_has_store { " (a store went to that page earlier)" } else { "" })
        }
        Some((s, l, p)) => {
            let from = if *s < PAGE { "last-call-on-page-starts-in-page-0" } else { "last-call-on-page-starts-above-page-0" };
            let due = if by_range == by_page { show(by_range) } else { format!("{} (ranges) or {} (pages)", show(by_range), show(by_page)) };
            fv::fail!(format!("C08|permissions|after-set_permissions|{}", from), "step {}: permissions(0x{:x}) = {}, due {}; the last call touching that page was set_permissions(0x{:x}, {}, {:03b}){}", step, a, show(got), due, s, l, p, match range { Some(r) => format!(", the address is covered by set_permissions(0x{:x}, {}, {:03b})", r.0, r.1, r.2), None => String::new() })
        }
    }
}

// ---------------------------------------------------------------------------------------------
// the check

fn check(case: &Case, obs: &mut Obs) -> Result<(), Failure> {
    if case.expr {
        run::<il::Expression>(case, obs)
    } else {
        run::<il::Constant>(case, obs)
    }
}

fn kind_key(kind: &'static str, class: &'static str, bits: usize) -> (&'static str, &'static str, usize) {
    (kind, class, bits)
}

fn run<V: Tv>(case: &Case, obs: &mut Obs) -> Result<(), Failure> {
    let endian = if case.big_endian { Endian::Big } else { Endian::Little };
    let mut back: BackModel = BTreeMap::new();
    let mut shared_backing = None;
    let mem0: Memory<V> = match &case.backing {
        Some(sections) => {
            let mut b = backing::Memory::new(endian.clone());
            for s in sections {
                if s.data.is_empty() || s.addr.checked_add(s.data.len() as u64).is_none() {
                    continue; // not a section (only a hand-edited replay can contain one)
                }
                let p = MemoryPermissions::from_bits_truncate(s.perms);
                if let Err(pi) = guard(|| b.set_memory(s.addr, s.data.clone(), p)) {
                    // C16's ground; nothing of C08 can be decided on this case
                    obs.exclude(&format!("backing-set_memory-panicked:{}", pi.sig()));
                    return Ok(());
                }
                for (i, d) in s.data.iter().enumerate() {
                    back.insert(s.addr + i as u64, (*d, p.bits()));
                }
            }
            let rc = RC::new(b);
            shared_backing = Some(rc.clone());
            Memory::new_with_backing(endian, rc)
        }
        None => Memory::new(endian),
    };
    let mut mems: Vec<Memory<V>> = vec![mem0];
    let mut models: Vec<MM> = vec![MM::default()];
    let mut cx = Ctx { big: case.big_endian, back, has_backing: case.backing.is_some(), deferred: Vec::new(), loads: 0, perm_queries: 0 };

    // equality implies identical loads - also between memories of opposite byte order: a twin
    // over the same (shared) backing but of the other endianness may only compare equal to memory 0 if
    // no load tells them apart (two adjacent backing bytes that differ do)
    if let Some(rc) = shared_backing {
        let other = if case.big_endian { Endian::Little } else { Endian::Big };
        {
            let twin: Memory<V> = Memory::new_with_backing(other, rc);
            match guard(|| mems[0] == twin) {
                Ok(true) => {
                    obs.class("eq-true-across-byte-orders");
                    let pair = cx.back.iter().find(|(a, d)| a.checked_add(1).and_then(|n| cx.back.get(&n)).map(|d2| d2.0 != d.0).unwrap_or(false)).map(|(a, _)| *a);
                    if let Some(a) = pair {
                        let l0 = guard(|| mems[0].load(a, 16)).ok().and_then(|x| x.ok()).flatten().map(|v| v.show());
                        let l1 = guard(|| twin.load(a, 16)).ok().and_then(|x| x.ok()).flatten().map(|v| v.show());
                        if l0.is_some() && l1.is_some() && l0 != l1 {
                            fv::fail!("C08|eq|equal-but-loads-differ|opposite-byte-order", "a {} memory and a {} memory over the same backing compare equal, but load(0x{:x}, 16) = {:?} vs {:?}", if case.big_endian { "big-endian" } else { "little-endian" }, if case.big_endian { "little-endian" } else { "big-endian" }, a, l0, l1);
                        }
                    }
                }
                Ok(false) => obs.class("eq-false-across-byte-orders"),
                Err(pi) => fv::fail!("C08|eq|panic", "comparing memories of opposite byte order panicked: {}", pi.msg),
            }
        }
    }

    obs.class(V::KIND);
    obs.class(if case.big_endian { "big-endian" } else { "little-endian" });
    obs.class(if cx.has_backing { "with-backing" } else { "without-backing" });

    let mut touched: BTreeSet<u64> = cx.back.keys().copied().collect();
    let mut perm_points: BTreeSet<u64> = BTreeSet::new();
    let mut shape_key: BTreeMap<(&'static str, &'static str, usize), u8> = BTreeMap::new();
    let mut seam_store = false;
    let mut seam_load = false;
    let mut store_id = 0u32;

    for (step, op) in case.ops.iter().enumerate() {
        let live = mems.len();
        let stepi = step as i64;
        match op {
            Op::Store { m, addr, val } => {
                let i = m % live;
                let nbytes = val_bytes(val) as u64;
                if nbytes == 0 || addr.checked_add(nbytes).is_none() {
                    obs.exclude("store-outside-domain");
                    continue;
                }
                let bv = val_bv(val);
                let mem_bytes = if case.big_endian { bv.be_bytes() } else { bv.le_bytes() };
                // classify against the model before applying
                let mm = &models[i];
                let covered = (0..nbytes).filter(|k| mm.writer.contains_key(&(addr + k))).count() as u64;
                let w_first = mm.writer.get(addr).copied();
                let w_last = mm.writer.get(&(addr + nbytes - 1)).copied();
                let cut_l = w_first.is_some() && addr.checked_sub(1).and_then(|a| mm.writer.get(&a).copied()) == w_first;
                let cut_r = w_last.is_some() && addr.checked_add(nbytes).and_then(|a| mm.writer.get(&a).copied()) == w_last;
                let class = if covered == 0 {
                    "disjoint"
                } else if cut_l && cut_r && w_first == w_last {
                    "nested-in-a-value"
                } else if cut_l && cut_r {
                    "cuts-two-values"
                } else if cut_l {
                    "cuts-tail-of-a-value"
                } else if cut_r {
                    "cuts-head-of-a-value"
                } else if covered == nbytes {
                    "replaces-whole-values"
                } else {
                    "covers-whole-values-and-gaps"
                };
                let crosses = addr / PAGE != (addr + nbytes - 1) / PAGE;
                obs.class(&format!("store-{}", class));
                if crosses {
                    obs.class("store-crosses-page");
                }
                if nbytes >= 16 {
                    obs.class("width>=128");
                }
                if nbytes == 32 {
                    obs.class("width-256");
                }
                *shape_key.entry(kind_key("store", class, nbytes as usize * 8 + crosses as usize)).or_insert(0) += 1;
                let v = V::make(val);
                match guard(|| mems[i].store(*addr, v)) {
                    Ok(Ok(())) => {}
                    Ok(Err(e)) => fv::fail!(format!("C08|store|error|{}", class), "step {}: store(0x{:x}, {} bits) into memory {} returned Err({})", step, addr, nbytes * 8, i, e),
                    Err(pi) => fv::fail!(format!("C08|store|panic|{}", class), "step {}: store(0x{:x}, {} bits) into memory {} panicked at {}:{}: {}", step, addr, nbytes * 8, i, pi.file, pi.line, pi.msg),
                }
                store_id += 1;
                let mm = &mut models[i];
                for (k, b) in mem_bytes.iter().enumerate() {
                    mm.bytes.insert(addr + k as u64, *b);
                    mm.writer.insert(addr + k as u64, store_id);
                    touched.insert(addr + k as u64);
                }
                if cut_l {
                    *mm.seams.entry(*addr).or_insert(0) |= 2;
                }
                if cut_r {
                    if let Some(a) = addr.checked_add(nbytes) {
                        *mm.seams.entry(a).or_insert(0) |= 2;
                    }
                }
                if crosses {
                    *mm.seams.entry((addr + nbytes - 1) & !(PAGE - 1)).or_insert(0) |= 1;
                }
                if cut_l || cut_r || crosses {
                    seam_store = true;
                }
                for (j, o) in models.iter_mut().enumerate() {
                    if j != i {
                        o.diverged.extend((0..nbytes).map(|k| addr + k));
                    }
                }
                perm_points.insert(*addr);
            }
            Op::Load { m, addr, bits } => {
                let i = m % live;
                let n = (*bits / 8) as u64;
                if *bits == 0 || bits % 8 != 0 || addr.checked_add(n).is_none() {
                    obs.exclude("load-outside-domain");
                    continue;
                }
                let mm = &models[i];
                let (shape, nstores) = load_shape(mm, &cx.back, *addr, n);
                obs.class(&format!("load-{}", shape));
                let mut kinds = 0u8;
                if n > 1 {
                    for (s, k) in mm.seams.range(addr + 1..=addr + (n - 1)) {
                        let _ = s;
                        kinds |= *k;
                    }
                }
                if kinds & 1 != 0 {
                    obs.class("load-over-page-crossing-store");
                }
                if kinds & 2 != 0 {
                    obs.class("load-over-cut-value");
                }
                if kinds != 0 {
                    seam_load = true;
                }
                if nstores >= 3 {
                    obs.class("load-three-way-overlap");
                }
                if (0..n).any(|k| mm.diverged.contains(&(addr + k))) {
                    obs.class("load-after-clone-diverged");
                }
                if n >= 16 {
                    obs.class("width>=128");
                }
                if n == 32 {
                    obs.class("width-256");
                }
                *shape_key.entry(kind_key("load", shape, *bits + ((kinds as usize) << 12))).or_insert(0) += 1;
                for k in 0..n {
                    touched.insert(addr + k);
                }
                let others: Vec<&MM> = models.iter().enumerate().filter(|(j, _)| *j != i).map(|(_, o)| o).collect();
                if let Err(f) = check_load(&mems[i], &models[i], &others, &mut cx, *addr, *bits, stepi) {
                    cx.report(obs, f)?;
                }
            }
            Op::Clone { src, dst } => {
                let s = src % live;
                let c = match guard(|| mems[s].clone()) {
                    Ok(c) => c,
                    Err(pi) => fv::fail!("C08|clone|panic", "step {}: clone of memory {} panicked: {}", step, s, pi.msg),
                };
                let cm = models[s].clone();
                if live < MAX_LIVE {
                    mems.push(c);
                    models.push(cm);
                } else {
                    let d = dst % MAX_LIVE;
                    mems[d] = c;
                    models[d] = cm;
                    obs.class("clone-replaces-a-memory");
                }
                obs.class("clone");
                *shape_key.entry(kind_key("clone", "", 0)).or_insert(0) += 1;
            }
            Op::SetPerm { m, addr, len, perms } => {
                let i = m % live;
                if *len == 0 || addr.checked_add(*len).is_none() {
                    obs.exclude("set_permissions-outside-domain");
                    continue;
                }
                let p = MemoryPermissions::from_bits_truncate(*perms);
                let aligned = addr % PAGE == 0 && len % PAGE == 0;
                obs.class(if *addr < PAGE { "set_permissions-from-page-0" } else { "set_permissions-above-page-0" });
                obs.class(if aligned { "set_permissions-whole-pages" } else { "set_permissions-unaligned" });
                *shape_key.entry(kind_key("setperm", if aligned { "pages" } else { "unaligned" }, ((*len).div_ceil(PAGE)) as usize)).or_insert(0) += 1;
                if let Err(pi) = guard(|| mems[i].set_permissions(*addr, *len, p)) {
                    let f = Failure::new("C08|set_permissions|panic", format!("step {}: set_permissions(0x{:x}, {}, {:03b}) panicked at {}:{}: {}", step, addr, len, perms, pi.file, pi.line, pi.msg));
                    cx.report(obs, f)?;
                }
                let mm = &mut models[i];
                mm.ranges.push((*addr, *len, p.bits()));
                let mut pg = addr & !(PAGE - 1);
                let last = (addr + (len - 1)) & !(PAGE - 1);
                loop {
                    mm.page_perm.insert(pg, p.bits());
                    if pg == last {
                        break;
                    }
                    pg += PAGE;
                }
                for a in [*addr, addr + (len - 1), addr + (len - 1) / 2, last, addr.saturating_sub(1), addr + len] {
                    perm_points.insert(a);
                }
                // the new permissions are reported for the whole range, right away
                for a in [*addr, addr + (len - 1), addr + (len - 1) / 2, last.max(*addr)] {
                    if let Err(f) = check_perm(&mems[i], &models[i], &mut cx, a, stepi) {
                        cx.report(obs, f)?;
                    }
                }
            }
            Op::Perm { m, addr } => {
                let i = m % live;
                let mm = &models[i];
                let page = addr & !(PAGE - 1);
                let set = mm.page_perm.contains_key(&page);
                let stored = mm.bytes.range(page..=(page | (PAGE - 1))).next().is_some();
                obs.class(match (set, stored) {
                    (true, true) => "permissions-of-set-page-with-store",
                    (true, false) => "permissions-of-set-page",
                    (false, true) => "permissions-of-unset-page-with-store",
                    (false, false) => "permissions-of-untouched-page",
                });
                if !set && back_perm(&cx.back, *addr).is_some() {
                    obs.class("permissions-from-backing");
                }
                perm_points.insert(*addr);
                if let Err(f) = check_perm(&mems[i], &models[i], &mut cx, *addr, stepi) {
                    cx.report(obs, f)?;
                }
            }
            Op::Eq { a, b } if a % live != b % live => {
                let (i, j) = (a % live, b % live);
                let r = match guard(|| mems[i] == mems[j]) {
                    Ok(r) => r,
                    Err(pi) => fv::fail!("C08|eq|panic", "step {}: memory {} == memory {} panicked: {}", step, i, j, pi.msg),
                };
                let keys: BTreeSet<u64> = models[i].bytes.keys().chain(models[j].bytes.keys()).copied().collect();
                let diff = keys.iter().copied().find(|k| byte_at(&models[i], &cx.back, *k) != byte_at(&models[j], &cx.back, *k));
                *shape_key.entry(kind_key("eq", if r { "true" } else { "false" }, 0)).or_insert(0) += 1;
                if r {
                    obs.class("eq-true-two-memories");
                    if !models[i].bytes.is_empty() {
                        obs.class("eq-true-two-nonempty-memories");
                    }
                    if let Some(k) = diff {
                        let li = guard(|| mems[i].load(k, 8)).ok().and_then(|x| x.ok()).flatten().map(|v| v.show());
                        let lj = guard(|| mems[j].load(k, 8)).ok().and_then(|x| x.ok()).flatten().map(|v| v.show());
                        fv::fail!("C08|eq|equal-but-loads-differ", "step {}: memory {} == memory {} is true but byte 0x{:x} differs: model {:02x?} vs {:02x?}; load(0x{:x}, 8) = {:?} vs {:?}", step, i, j, k, byte_at(&models[i], &cx.back, k), byte_at(&models[j], &cx.back, k), k, li, lj);
                    }
                } else {
                    obs.class(if diff.is_some() { "eq-false-differing" } else { "eq-false-same-bytes" });
                }
            }
            Op::Eq { a, .. } | Op::EqClone { m: a } => {
                let i = a % live;
                obs.class("eq-unmodified-clone");
                if !models[i].bytes.is_empty() {
                    obs.class("eq-unmodified-clone-nonempty");
                }
                *shape_key.entry(kind_key("eqclone", "", 0)).or_insert(0) += 1;
                let r = guard(|| {
                    let c = mems[i].clone();
                    #[allow(clippy::eq_op)]
                    let same = mems[i] == mems[i];
                    (same, mems[i] == c, c == mems[i])
                });
                let bk = if cx.has_backing { "with-backing" } else { "without-backing" };
                match r {
                    Ok((true, true, true)) => {}
                    Ok(r) => {
                        let f = Failure::new(format!("C08|eq|unmodified-clone-unequal|{}", bk), format!("step {}: for memory {} ({}): m == m is {}, m == m.clone() is {}, m.clone() == m is {}", step, i, bk, r.0, r.1, r.2));
                        cx.report(obs, f)?;
                    }
                    Err(pi) => fv::fail!("C08|eq|panic", "step {}: comparing memory {} with its clone panicked: {}", step, i, pi.msg),
                }
            }
            Op::BadStore { m, addr, bits } => {
                let i = m % live;
                if *bits != 0 && bits % 8 == 0 {
                    obs.exclude("bad-store-with-valid-width");
                    continue;
                }
                obs.class("invalid-width");
                let v = V::of_bits(*bits);
                match guard(|| mems[i].store(*addr, v)) {
                    Ok(Err(_)) => {}
                    Ok(Ok(())) => fv::fail!("C08|store|invalid-width-accepted", "step {}: store(0x{:x}, value of {} bits) returned Ok", step, addr, bits),
                    Err(pi) => fv::fail!("C08|store|invalid-width-panic", "step {}: store(0x{:x}, value of {} bits) panicked at {}:{}: {}", step, addr, bits, pi.file, pi.line, pi.msg),
                }
                // rejected: nothing was stored, the model is unchanged
                for k in 0..(*bits as u64 / 8 + 2) {
                    touched.insert(addr + k);
                }
            }
            Op::BadLoad { m, addr, bits } => {
                let i = m % live;
                if *bits != 0 && bits % 8 == 0 {
                    obs.exclude("bad-load-with-valid-width");
                    continue;
                }
                obs.class("invalid-width");
                match guard(|| mems[i].load(*addr, *bits)) {
                    Ok(Err(_)) => {}
                    Ok(Ok(r)) => fv::fail!("C08|load|invalid-width-accepted", "step {}: load(0x{:x}, {}) returned Ok({:?})", step, addr, bits, r.map(|v| v.show())),
                    Err(pi) => fv::fail!("C08|load|invalid-width-panic", "step {}: load(0x{:x}, {}) panicked at {}:{}: {}", step, addr, bits, pi.file, pi.line, pi.msg),
                }
            }
        }
    }

    // ----- final sweep: every touched byte +-2 from every live memory -----
    let mut sweep: BTreeSet<u64> = BTreeSet::new();
    for a in &touched {
        for d in 0..=2u64 {
            sweep.insert(a.saturating_sub(d));
            if let Some(x) = a.checked_add(d) {
                sweep.insert(x);
            }
        }
    }
    let sweep: Vec<u64> = sweep.into_iter().collect();
    for i in 0..mems.len() {
        let others: Vec<&MM> = models.iter().enumerate().filter(|(j, _)| *j != i).map(|(_, o)| o).collect();
        for a in &sweep {
            if let Err(f) = check_load(&mems[i], &models[i], &others, &mut cx, *a, 8, -1) {
                cx.report(obs, f)?;
            }
        }
        // wider loads at every seam (change of source between neighbouring bytes, page boundaries)
        let mut seams: Vec<u64> = Vec::new();
        let mut prev: Option<(u64, Src)> = None;
        for a in &sweep {
            let s = src_at(&models[i], &cx.back, *a);
            match prev {
                Some((pa, ps)) if pa + 1 == *a && ps == s && a % PAGE != 0 => {}
                _ => seams.push(*a),
            }
            prev = Some((*a, s));
        }
        // at most 20 seams per memory, spread over the list
        let stride = seams.len().div_ceil(20).max(1);
        for s in seams.iter().step_by(stride) {
            for d in [3u64, 1, 0] {
                let a = s.saturating_sub(d);
                for bits in [16usize, 32, 64] {
                    if a.checked_add(bits as u64 / 8 - 1).is_some() {
                        if let Err(f) = check_load(&mems[i], &models[i], &others, &mut cx, a, bits, -1) {
                            cx.report(obs, f)?;
                        }
                    }
                }
            }
        }
        for a in &perm_points {
            if let Err(f) = check_perm(&mems[i], &models[i], &mut cx, *a, -1) {
                cx.report(obs, f)?;
            }
        }
    }
    obs.count("loads-compared", cx.loads);
    obs.count("permission-queries-compared", cx.perm_queries);
    obs.count("memories-live-at-end", mems.len() as u64);

    if seam_store && seam_load {
        let key: Vec<_> = shape_key.iter().map(|(k, c)| (*k, (*c).min(3))).collect();
        obs.nontrivial(&(case.expr, case.big_endian, cx.has_backing, key));
        obs.class("nontrivial");
    }
    if obs.want_sample() {
        obs.sample(render(case));
    }
    for sig in &cx.deferred {
        obs.exclude(&format!("known_finding:{}", sig));
    }
    if !cx.deferred.is_empty() {
        obs.class("hit-a-known-finding");
    }
    Ok(())
}

// ---------------------------------------------------------------------------------------------

fn render_val(v: &Val) -> String {
    let hex = |le: &[u8]| {
        let mut s = String::from("0x");
        for b in le.iter().rev() {
            s.push_str(&format!("{:02x}", b));
        }
        format!("{}:{}", s, le.len() * 8)
    };
    match v {
        Val::Const { le } => hex(le),
        Val::Scalar { bytes, id } => scalar_name(*id, bytes * 8),
        Val::Xor { id, le } => format!("({} ^ {})", scalar_name(*id, le.len() * 8), hex(le)),
        Val::Add { id, le } => format!("({} + {})", scalar_name(*id, le.len() * 8), hex(le)),
        Val::Zext { bytes, from_bits, id } => format!("zext.{}({})", bytes * 8, scalar_name(*id, *from_bits)),
    }
}

fn render(c: &Case) -> String {
    let mut s = format!(
        "Memory<{}>, {} endian, {}:",
        if c.expr { "il::Expression" } else { "il::Constant" },
        if c.big_endian { "big" } else { "little" },
        match &c.backing {
            None => "no backing".to_string(),
            Some(v) => format!(
                "backing [{}]",
                v.iter().map(|x| format!("set_memory(0x{:x}, {} bytes, {:03b})", x.addr, x.data.len(), x.perms)).collect::<Vec<_>>().join(", ")
            ),
        }
    );
    for op in &c.ops {
        s.push_str(&match op {
            Op::Store { m, addr, val } => format!(" m{}.store(0x{:x}, {})", m, addr, render_val(val)),
            Op::Load { m, addr, bits } => format!(" m{}.load(0x{:x}, {})", m, addr, bits),
            Op::Clone { src, dst } => format!(" clone(m{} -> new or slot {})", src, dst),
            Op::SetPerm { m, addr, len, perms } => format!(" m{}.set_permissions(0x{:x}, {}, {:03b})", m, addr, len, perms),
            Op::Perm { m, addr } => format!(" m{}.permissions(0x{:x})", m, addr),
            Op::Eq { a, b } => format!(" m{} == m{}", a, b),
            Op::EqClone { m } => format!(" m{} == m{}.clone()", m, m),
            Op::BadStore { m, addr, bits } => format!(" m{}.store(0x{:x}, <{} bits>)", m, addr, bits),
            Op::BadLoad { m, addr, bits } => format!(" m{}.load(0x{:x}, {})", m, addr, bits),
        });
    }
    s.push_str("   [memory indices are taken modulo the number of live memories]");
    s
}

fn simplify(c: &Case) -> Vec<Case> {
    let mut v = Vec::new();
    // drop the backing, or one of its sections
    if let Some(secs) = &c.backing {
        let mut d = c.clone();
        d.backing = None;
        v.push(d);
        if secs.len() > 1 {
            for i in 0..secs.len() {
                let mut d = c.clone();
                d.backing.as_mut().unwrap().remove(i);
                v.push(d);
            }
        }
    }
    // drop one operation
    for i in 0..c.ops.len() {
        let mut d = c.clone();
        d.ops.remove(i);
        v.push(d);
    }
    // constants instead of expressions
    if c.expr {
        let mut d = c.clone();
        d.expr = false;
        for op in d.ops.iter_mut() {
            if let Op::Store { val, .. } = op {
                let b = val_bv(val);
                *val = Val::Const { le: b.le_bytes() };
            }
        }
        v.push(d);
    }
    // memory indices to 0
    for i in 0..c.ops.len() {
        let mut d = c.clone();
        let changed = match &mut d.ops[i] {
            Op::Store { m, .. } | Op::Load { m, .. } | Op::SetPerm { m, .. } | Op::Perm { m, .. } | Op::EqClone { m } | Op::BadStore { m, .. } | Op::BadLoad { m, .. } if *m != 0 => {
                *m = 0;
                true
            }
            _ => false,
        };
        if changed {
            v.push(d);
        }
    }
    v
}

/// libFuzzer entry: the input bytes are the entropy tape (little-endian u32 words); same
/// generator, same oracle as the proptest tiers.
#[allow(dead_code)]
pub fn fuzz_bytes(data: &[u8]) {
    let tape = fv::tape::words_from_bytes(data, 900);
    let case = decode(&mut Tape::new(&tape));
    engine::fuzz_one("C08", &case, &render, &check);
}

#[allow(dead_code)]
fn main() -> std::process::ExitCode {
    // every case allocates and frees a few 30-60 KB pages: keep the allocator from returning
    // them to the kernel each time (pure speed, no effect on results)
    unsafe {
        libc::mallopt(libc::M_TRIM_THRESHOLD, 1 << 30);
        libc::mallopt(libc::M_MMAP_THRESHOLD, 1 << 30);
    }
    let mut spec = Spec::new(
        "C08",
        "histories of 1-60 store/load/clone/set_permissions/permissions/==/invalid-width operations over up to 4 live paged memories (V = il::Constant or il::Expression, both endiannesses, with or without a 1-3 section backing), addresses clustered +-24 around page boundaries, 0, backing and store edges, 2^32, 2^63 and the top of the address space, widths 8..128 and 256 bits; every load, permissions and == result is compared with a per-memory byte-map overlay over the backing's byte map, plus a final sweep of every touched byte +-2 (8 bits everywhere, 16/32/64 bits at seams) through every live memory; non-trivial = some store cut an earlier value or crossed a 1024-byte page boundary and a later load operation covered that seam; distinct = (V, endianness, backing, multiset capped at 3 of (operation, overlap class or load shape, width))",
        Box::new(|_t: Tier| from_tape(900, decode)),
        |t| t.pick(150_000, 4_000_000),
        check,
    );
    spec.render = render;
    spec.simplify = Some(simplify);
    spec.assumptions = vec![
        "no operation wraps the address space: address + length <= 2^64 - 1".into(),
        "all live memories descend from one memory by clone and share its backing (set_backing is not exercised)".into(),
        "set_permissions is issued with len >= 1; where the byte-granular and the page-granular reading of 'permissions set on a range' disagree (an address outside every set range but in a page one of them touches, or covered by an older range and in the page of a newer one) either answer is accepted".into(),
        "widths that are not a positive multiple of 8 are outside the property's domain; the documented rejection (Err, nothing stored) is required of them".into(),
        "the backing is built with set_memory and modelled last-writer-wins (C16)".into(),
    ];
    // measured at bring-up (quick, seed 1, 150 000 cases), floors frozen at roughly half of it
    spec.floors = vec![
        ("eq-false-across-byte-orders", 0.20),   // 0.500: every case with a backing
        ("load-over-page-crossing-store", 0.10), // measured 0.233
        ("load-over-cut-value", 0.25),           // 0.528
        ("load-three-way-overlap", 0.15),        // 0.300
        ("load-after-clone-diverged", 0.25),     // 0.556
        ("width>=128", 0.40),                    // 0.904
        ("width-256", 0.35),                     // 0.751
        ("store-crosses-page", 0.25),            // 0.558
        ("store-cuts-two-values", 0.15),         // 0.323
        ("store-nested-in-a-value", 0.25),       // 0.576
        ("load-stores-and-backing", 0.09),       // 0.194
        ("load-later-byte-absent", 0.25),        // 0.588
        ("clone-replaces-a-memory", 0.09),       // 0.198
        ("eq-unmodified-clone-nonempty", 0.30),  // 0.705
        ("eq-false-differing", 0.15),            // 0.339
        ("eq-true-two-nonempty-memories", 0.02), // 0.041 (doubles once == works without a backing)
        ("set_permissions-above-page-0", 0.30),  // 0.634
        ("set_permissions-from-page-0", 0.14),   // 0.288
        ("permissions-from-backing", 0.10),      // 0.213
        ("permissions-of-unset-page-with-store", 0.25), // 0.540
        ("invalid-width", 0.30),                 // 0.619
        ("expr", 0.40),
        ("const", 0.40),
        ("big-endian", 0.40),
        ("little-endian", 0.40),
        ("with-backing", 0.40),
        ("without-backing", 0.40),
        ("nontrivial", 0.30),                    // 0.571
    ];
    spec.crash_sig = |c: &Case| format!("C08|{}|{}", if c.expr { "expr" } else { "const" }, if c.backing.is_some() { "with-backing" } else { "without-backing" });
    engine::main(spec)
}
