//! C20 — architecture descriptors agree with the lifters and the platform ABI.
//!
//! The quantifier is finite (7 architectures x their calling-convention tables).  Every case
//! evaluates ALL descriptor relations of one architecture against (a) the *scalar universe* of
//! its translator — collected from complete register sweeps (every architectural register index
//! in every operand position of a few templates) plus the random words of the case — and (b) ABI
//! tables transcribed from the psABI documents.  The generated part is the extra random words.

use falcon::architecture::{self, Architecture, Endian};
use falcon::il;
use falcon::translator::Options;
use fv::engine::{self, guard, Failure, Obs, Spec, Tier};
use fv::tape::{from_tape, Tape};
use serde::{Deserialize, Serialize};
use std::collections::{BTreeMap, BTreeSet};

#[derive(Clone, Debug, Serialize, Deserialize)]
struct Case {
    arch: usize,
    /// extra random instruction words / byte strings lifted into the universe
    extra: Vec<Vec<u8>>,
}

const ARCHS: [&str; 7] = ["x86", "amd64", "mips", "mipsel", "ppc", "aarch64", "aarch64eb"];

fn arch_of(i: usize) -> Box<dyn Architecture> {
    match ARCHS[i] {
        "x86" => Box::new(architecture::X86::new()),
        "amd64" => Box::new(architecture::Amd64::new()),
        "mips" => Box::new(architecture::Mips::new()),
        "mipsel" => Box::new(architecture::Mipsel::new()),
        "ppc" => Box::new(architecture::Ppc::new()),
        "aarch64" => Box::new(architecture::AArch64::new()),
        _ => Box::new(architecture::AArch64Eb::new()),
    }
}

fn decode(t: &mut Tape) -> Case {
    let arch = t.below(7);
    let n = t.range(0, 12);
    let mut extra = Vec::new();
    for _ in 0..n {
        let len = if arch < 2 { t.range(1, 12) } else { 4 };
        extra.push((0..len).map(|_| t.raw() as u8).collect());
    }
    Case { arch, extra }
}

/// instruction words in the architecture's instruction byte order
fn word(arch: usize, w: u32) -> Vec<u8> {
    match ARCHS[arch] {
        "mips" | "ppc" => w.to_be_bytes().to_vec(),
        _ => w.to_le_bytes().to_vec(),
    }
}

/// Complete register sweeps per architecture.
fn sweeps(arch: usize) -> Vec<Vec<u8>> {
    let mut v: Vec<Vec<u8>> = Vec::new();
    match ARCHS[arch] {
        "x86" => {
            for m in 0xC0u16..=0xFF {
                v.push(vec![0x89, m as u8]); // mov r32, r32
                v.push(vec![0x88, m as u8]); // mov r8, r8
                v.push(vec![0x66, 0x89, m as u8]); // mov r16, r16
                v.push(vec![0x0F, 0x28, m as u8]); // movaps xmm, xmm
            }
            for r in 0..8u8 {
                v.push(vec![0x50 + r]);
                v.push(vec![0x58 + r]);
                v.push(vec![0x8B, r << 3]); // mov r32, [eax]
                v.push(vec![0x89, 0x40 + r, 0x10]); // mov [r+0x10], eax
            }
            v.push(vec![0xC3]);
            v.push(vec![0xE8, 0, 0, 0, 0]);
        }
        "amd64" => {
            for rex in 0x48u8..=0x4F {
                for m in 0xC0u16..=0xFF {
                    v.push(vec![rex, 0x89, m as u8]); // mov r64, r64 with REX.R/X/B
                }
            }
            for rex in [0x40u8, 0x41, 0x44, 0x45] {
                for m in 0xC0u16..=0xFF {
                    v.push(vec![rex, 0x89, m as u8]); // 32-bit forms
                    v.push(vec![rex, 0x88, m as u8]); // 8-bit forms incl. spl/bpl/sil/dil
                    v.push(vec![rex, 0x0F, 0x28, m as u8]); // movaps xmm0-15
                }
            }
            for m in 0xC0u16..=0xFF {
                v.push(vec![0x88, m as u8]); // ah/bh/ch/dh
                v.push(vec![0x66, 0x89, m as u8]);
            }
            for r in 0..8u8 {
                v.push(vec![0x50 + r]);
                v.push(vec![0x41, 0x50 + r]);
                v.push(vec![0x58 + r]);
                v.push(vec![0x41, 0x58 + r]);
                v.push(vec![0x48, 0x8B, r << 3]); // mov r64, [rax]
                v.push(vec![0x48, 0x89, 0x40 + r, 0x10]); // mov [r+0x10], rax
            }
            v.push(vec![0xC3]);
            v.push(vec![0xE8, 0, 0, 0, 0]);
        }
        "mips" | "mipsel" => {
            for a in 0..32u32 {
                v.push(word(arch, 0x0000_0021 | a << 21 | 2 << 16 | 3 << 11)); // addu $3,$a,$2
                v.push(word(arch, 0x0000_0021 | 2 << 21 | a << 16 | 3 << 11));
                v.push(word(arch, 0x0000_0021 | 2 << 21 | 3 << 16 | a << 11));
                v.push(word(arch, 0x0000_0010 | a << 11)); // mfhi
                v.push(word(arch, 0x0000_0012 | a << 11)); // mflo
                v.push(word(arch, 0x8C00_0010 | a << 21 | 2 << 16)); // lw $2,16($a)
                v.push(word(arch, 0xAC00_0010 | 4 << 21 | a << 16)); // sw $a,16($4)
            }
            v.push(word(arch, 0x0000_0018 | 4 << 21 | 5 << 16)); // mult
            v.push(word(arch, 0x0320_F809)); // jalr $t9
            v.push(word(arch, 0x03E0_0008)); // jr $ra
            v.push(word(arch, 0x0C00_0400)); // jal
        }
        "ppc" => {
            for a in 0..32u32 {
                v.push(word(arch, 0x7C00_0214 | a << 21 | 4 << 16 | 5 << 11)); // add
                v.push(word(arch, 0x7C00_0214 | 3 << 21 | a << 16 | 5 << 11));
                v.push(word(arch, 0x7C00_0214 | 3 << 21 | 4 << 16 | a << 11));
                v.push(word(arch, 0x7C08_02A6 | a << 21)); // mflr
                v.push(word(arch, 0x7C08_03A6 | a << 21)); // mtlr
                v.push(word(arch, 0x7C09_02A6 | a << 21)); // mfctr
                v.push(word(arch, 0x7C09_03A6 | a << 21)); // mtctr
                v.push(word(arch, 0x8000_0010 | 3 << 21 | a << 16)); // lwz r3,16(ra)
                v.push(word(arch, 0x9000_0010 | a << 21 | 4 << 16)); // stw ra,16(r4)
                v.push(word(arch, 0x3800_0001 | a << 21 | a << 16)); // addi
            }
            for cr in 0..8u32 {
                v.push(word(arch, 0x7C00_0000 | cr << 23 | 3 << 16 | 4 << 11)); // cmpw crN
                v.push(word(arch, 0x2C00_0000 | cr << 23 | 3 << 16 | 5)); // cmpwi crN
            }
            v.push(word(arch, 0x4E80_0020)); // blr
            v.push(word(arch, 0x4800_0011)); // bl
            v.push(word(arch, 0x9421_FFF0)); // stwu r1,-16(r1)
        }
        _ => {
            for a in 0..32u32 {
                v.push(word(arch, 0x8B00_0000 | a << 16 | 1 << 5 | 2)); // add x2,x1,xa
                v.push(word(arch, 0x8B00_0000 | 3 << 16 | a << 5 | 2));
                v.push(word(arch, 0x8B00_0000 | 3 << 16 | 1 << 5 | a));
                v.push(word(arch, 0x0B00_0000 | 3 << 16 | a << 5 | 2)); // add w
                v.push(word(arch, 0x0B00_0000 | 3 << 16 | 1 << 5 | a));
                v.push(word(arch, 0x9100_4000 | a << 5 | 2)); // add x2, xa|sp, #16
                v.push(word(arch, 0x9100_4000 | 1 << 5 | a)); // add xa|sp, x1, #16
                v.push(word(arch, 0xF940_0800 | a << 5 | 2)); // ldr x2,[xa|sp,#16]
                v.push(word(arch, 0xF900_0800 | 1 << 5 | a)); // str xa,[x1,#16]
                v.push(word(arch, 0x3DC0_0400 | 1 << 5 | a)); // ldr qa,[x1,#16]
                v.push(word(arch, 0x3D80_0400 | 1 << 5 | a)); // str qa,[x1,#16]
                v.push(word(arch, 0xD63F_0000 | a << 5)); // blr xa
            }
            v.push(word(arch, 0xD65F_03C0)); // ret
            v.push(word(arch, 0x9400_0004)); // bl
            v.push(word(arch, 0xD100_43FF)); // sub sp,sp,#16
            v.push(word(arch, 0xA9BF_7BFD)); // stp x29,x30,[sp,#-16]!
        }
    }
    v
}

/// stack idioms of each architecture (bytes) — lifting each must write `stack_pointer()`, also
/// when the instruction names a narrower view of the stack pointer (sp/esp on amd64, wsp on A64)
fn stack_idioms(arch: usize) -> Vec<Vec<u8>> {
    match ARCHS[arch] {
        "x86" => vec![
            vec![0x50],                   // push eax
            vec![0x58],                   // pop eax
            vec![0x83, 0xEC, 0x10],       // sub esp,16
            vec![0x66, 0x83, 0xC4, 0x04], // add sp,4
            vec![0xC9],                   // leave
        ],
        "amd64" => vec![
            vec![0x50],                   // push rax
            vec![0x58],                   // pop rax
            vec![0x48, 0x83, 0xEC, 0x10], // sub rsp,16
            vec![0x83, 0xC4, 0x04],       // add esp,4
            vec![0x66, 0x83, 0xC4, 0x04], // add sp,4
            vec![0xC9],                   // leave
        ],
        "mips" | "mipsel" => vec![word(arch, 0x27BD_FFE0), word(arch, 0x03A0_E825)], // addiu $sp,$sp,-32 ; move $sp,$sp (or)
        "ppc" => vec![word(arch, 0x9421_FFF0), word(arch, 0x3821_0010)], // stwu r1,-16(r1) ; addi r1,r1,16
        _ => vec![
            word(arch, 0xD100_43FF), // sub sp,sp,#16
            word(arch, 0x9100_43FF), // add sp,sp,#16
            word(arch, 0x1100_43FF), // add wsp,wsp,#16
            word(arch, 0x5100_43FF), // sub wsp,wsp,#16
            word(arch, 0xA9BF_7BFD), // stp x29,x30,[sp,#-16]!
            word(arch, 0xA8C1_7BFD), // ldp x29,x30,[sp],#16
        ],
    }
}

/// The smallest PE image: DOS header, PE signature, COFF header without an optional header, one
/// 16-byte code section at RVA 0x1000 (layout per the PE/COFF specification).
fn one_section_pe(machine: u16) -> Vec<u8> {
    let mut v = vec![0u8; 0x40];
    v[0] = b'M';
    v[1] = b'Z';
    v[0x3c..0x40].copy_from_slice(&0x40u32.to_le_bytes());
    v.extend_from_slice(b"PE\0\0");
    v.extend_from_slice(&machine.to_le_bytes());
    v.extend_from_slice(&1u16.to_le_bytes()); // sections
    v.extend_from_slice(&[0u8; 12]); // time stamp, symbol table, number of symbols
    v.extend_from_slice(&0u16.to_le_bytes()); // size of optional header
    v.extend_from_slice(&0x0102u16.to_le_bytes()); // characteristics
    let raw = (v.len() + 40) as u32;
    v.extend_from_slice(b".text\0\0\0");
    v.extend_from_slice(&16u32.to_le_bytes()); // virtual size
    v.extend_from_slice(&0x1000u32.to_le_bytes()); // virtual address
    v.extend_from_slice(&16u32.to_le_bytes()); // size of raw data
    v.extend_from_slice(&raw.to_le_bytes()); // pointer to raw data
    v.extend_from_slice(&[0u8; 12]); // relocations, line numbers
    v.extend_from_slice(&0x6000_0020u32.to_le_bytes()); // code | execute | read
    v.extend_from_slice(&[0x11, 0x22, 0x33, 0x44, 0x55, 0x66, 0x77, 0x88, 0x99, 0xaa, 0xbb, 0xcc, 0xdd, 0xee, 0xff, 0x00]);
    v
}

/// An ELF image that consists of its file header only (no program or section headers): enough for
/// the loader to choose the architecture descriptor.
fn header_only_elf(class64: bool, big: bool, machine: u16) -> Vec<u8> {
    let mut v = vec![0x7f, b'E', b'L', b'F', if class64 { 2 } else { 1 }, if big { 2 } else { 1 }, 1, 0, 0, 0, 0, 0, 0, 0, 0, 0];
    let p16 = |v: &mut Vec<u8>, x: u16| if big { v.extend_from_slice(&x.to_be_bytes()) } else { v.extend_from_slice(&x.to_le_bytes()) };
    let p32 = |v: &mut Vec<u8>, x: u32| if big { v.extend_from_slice(&x.to_be_bytes()) } else { v.extend_from_slice(&x.to_le_bytes()) };
    let p64 = |v: &mut Vec<u8>, x: u64| if big { v.extend_from_slice(&x.to_be_bytes()) } else { v.extend_from_slice(&x.to_le_bytes()) };
    p16(&mut v, 2); // ET_EXEC
    p16(&mut v, machine);
    p32(&mut v, 1);
    if class64 {
        p64(&mut v, 0x10000); // e_entry
        p64(&mut v, 0); // e_phoff
        p64(&mut v, 0); // e_shoff
    } else {
        p32(&mut v, 0x10000);
        p32(&mut v, 0);
        p32(&mut v, 0);
    }
    p32(&mut v, 0); // e_flags
    p16(&mut v, if class64 { 64 } else { 52 }); // e_ehsize
    p16(&mut v, if class64 { 56 } else { 32 }); // e_phentsize
    p16(&mut v, 0); // e_phnum
    p16(&mut v, if class64 { 64 } else { 40 }); // e_shentsize
    p16(&mut v, 0); // e_shnum
    p16(&mut v, 0); // e_shstrndx
    v
}

#[derive(Default, Clone)]
struct Universe {
    /// name -> widths seen
    scalars: BTreeMap<String, BTreeSet<usize>>,
    /// widths of load/store address expressions
    addr_widths: BTreeSet<usize>,
    lifted: usize,
    rejected: usize,
}

fn add_expr(u: &mut Universe, e: &il::Expression) {
    for s in e.scalars() {
        u.scalars.entry(s.name().to_string()).or_default().insert(s.bits());
    }
}

fn absorb(u: &mut Universe, arch: &dyn Architecture, bytes: &[u8]) -> Result<(), Failure> {
    let tr = arch.translator();
    let r = match guard(|| tr.translate_block(bytes, 0x10000, &Options::default())) {
        Ok(r) => r,
        Err(_) => {
            // a panicking lift is C05's business; here it simply contributes nothing
            u.rejected += 1;
            return Ok(());
        }
    };
    let Ok(r) = r else {
        u.rejected += 1;
        return Ok(());
    };
    u.lifted += 1;
    for (_, cfg) in r.instructions() {
        for b in cfg.blocks() {
            for i in b.instructions() {
                let op = i.operation();
                if let Some(v) = op.scalars_read() {
                    for s in v {
                        u.scalars.entry(s.name().to_string()).or_default().insert(s.bits());
                    }
                }
                if let Some(v) = op.scalars_written() {
                    for s in v {
                        u.scalars.entry(s.name().to_string()).or_default().insert(s.bits());
                    }
                }
                match op {
                    il::Operation::Load { index, .. } | il::Operation::Store { index, .. } => {
                        u.addr_widths.insert(index.bits());
                    }
                    _ => {}
                }
            }
        }
        for e in cfg.edges() {
            if let Some(c) = e.condition() {
                add_expr(u, c);
            }
        }
    }
    for (_, c) in r.successors() {
        if let Some(c) = c {
            add_expr(u, c);
        }
    }
    Ok(())
}

thread_local! {
    static SWEEP: std::cell::RefCell<BTreeMap<usize, Universe>> = const { std::cell::RefCell::new(BTreeMap::new()) };
}

fn sweep_universe(arch_i: usize, arch: &dyn Architecture) -> Result<Universe, Failure> {
    if let Some(u) = SWEEP.with(|s| s.borrow().get(&arch_i).cloned()) {
        return Ok(u);
    }
    let mut u = Universe::default();
    for b in sweeps(arch_i) {
        absorb(&mut u, arch, &b)?;
    }
    SWEEP.with(|s| s.borrow_mut().insert(arch_i, u.clone()));
    Ok(u)
}

/// ABI facts transcribed from the psABI documents (only what the property lists).
struct Abi {
    /// integer argument registers in order
    int_args: &'static [&'static str],
    ret: &'static str,
    /// Some(register) or None = on the stack at offset 0
    ret_addr_reg: Option<&'static str>,
    endian: Endian,
    bits: usize,
    sp: &'static str,
}

fn abi(arch: usize) -> Abi {
    match ARCHS[arch] {
        // System V i386 psABI: all arguments on the stack, result in %eax, return address at (%esp)
        "x86" => Abi { int_args: &[], ret: "eax", ret_addr_reg: None, endian: Endian::Little, bits: 32, sp: "esp" },
        // System V x86-64 psABI 3.2.3
        "amd64" => Abi { int_args: &["rdi", "rsi", "rdx", "rcx", "r8", "r9"], ret: "rax", ret_addr_reg: None, endian: Endian::Little, bits: 64, sp: "rsp" },
        // MIPS o32 (System V MIPS psABI): $4-$7, result $2, return address $31
        "mips" => Abi { int_args: &["$a0", "$a1", "$a2", "$a3"], ret: "$v0", ret_addr_reg: Some("$ra"), endian: Endian::Big, bits: 32, sp: "$sp" },
        "mipsel" => Abi { int_args: &["$a0", "$a1", "$a2", "$a3"], ret: "$v0", ret_addr_reg: Some("$ra"), endian: Endian::Little, bits: 32, sp: "$sp" },
        // PowerPC SVR4 psABI: r3-r10, result r3, return address in LR
        "ppc" => Abi { int_args: &["r3", "r4", "r5", "r6", "r7", "r8", "r9", "r10"], ret: "r3", ret_addr_reg: Some("lr"), endian: Endian::Big, bits: 32, sp: "r1" },
        // AAPCS64: x0-x7, result x0, return address x30
        "aarch64" => Abi { int_args: &["x0", "x1", "x2", "x3", "x4", "x5", "x6", "x7"], ret: "x0", ret_addr_reg: Some("x30"), endian: Endian::Little, bits: 64, sp: "sp" },
        _ => Abi { int_args: &["x0", "x1", "x2", "x3", "x4", "x5", "x6", "x7"], ret: "x0", ret_addr_reg: Some("x30"), endian: Endian::Big, bits: 64, sp: "sp" },
    }
}

fn family(arch: usize) -> &'static str {
    match ARCHS[arch] {
        "mips" | "mipsel" => "mips",
        "aarch64" | "aarch64eb" => "aarch64",
        x => x,
    }
}

fn check(case: &Case, obs: &mut Obs) -> Result<(), Failure> {
    let arch = arch_of(case.arch);
    let a = arch.as_ref();
    let fam = family(case.arch);
    let name = ARCHS[case.arch];
    let mut fails: Vec<Failure> = Vec::new();
    let mut bad = |sig: String, msg: String| fails.push(Failure::new(sig, msg));

    let mut u = sweep_universe(case.arch, a)?;
    // address widths are judged on the canonical sweep forms only: random strings may carry an
    // address-size override (x86 67h), which legitimately lifts to a narrower address
    let sweep_addr_widths = u.addr_widths.clone();
    for b in &case.extra {
        absorb(&mut u, a, b)?;
    }
    obs.class(name);
    obs.count("lifted", u.lifted as u64);
    let ab = abi(case.arch);

    // --- a copy of the descriptor is the same descriptor -----------------------------------------
    {
        let copy = a.box_clone();
        let c = copy.as_ref();
        let cc0 = a.calling_convention();
        let cc1 = c.calling_convention();
        let same_cc = cc0.argument_registers() == cc1.argument_registers()
            && cc0.preserved_registers() == cc1.preserved_registers()
            && cc0.trashed_registers() == cc1.trashed_registers()
            && cc0.return_register() == cc1.return_register();
        let probe = stack_idioms(case.arch).remove(0);
        let lift = |x: &dyn Architecture| -> String {
            match guard(|| x.translator().translate_block(&probe, 0x10000, &Options::default())) {
                Ok(Ok(r)) => r.instructions().iter().map(|(a, g)| format!("{:x}:{}", a, g)).collect::<Vec<_>>().join("|"),
                Ok(Err(e)) => format!("Err({})", e),
                Err(_) => "panic".into(),
            }
        };
        if c.name() != a.name() || c.endian() != a.endian() || c.word_size() != a.word_size() || c.stack_pointer() != a.stack_pointer() || !same_cc || lift(c) != lift(a) {
            bad(
                format!("C20|{}|box_clone|differs", name),
                format!("box_clone() of the {} descriptor is another descriptor: name {} endian {:?} word size {} stack pointer {} (original: {} {:?} {} {}), same calling convention: {}", name, c.name(), c.endian(), c.word_size(), c.stack_pointer(), a.name(), a.endian(), a.word_size(), a.stack_pointer(), same_cc),
            );
        }
    }

    // --- the descriptor the ELF loader publishes for this machine / byte order -------------------
    {
        let (class64, machine): (bool, u16) = match name {
            "x86" => (false, 3),
            "amd64" => (true, 62),
            "mips" | "mipsel" => (false, 8),
            "ppc" => (false, 20),
            _ => (true, 183),
        };
        let big = ab.endian == Endian::Big;
        let bytes = header_only_elf(class64, big, machine);
        match guard(|| falcon::loader::Elf::new(bytes.clone(), 0)) {
            Ok(Ok(elf)) => {
                use falcon::loader::Loader;
                let la = elf.architecture();
                if la.name() != name || la.endian() != ab.endian {
                    bad(
                        format!("C20|{}|elf-loader|descriptor", name),
                        format!("an ELF header with e_machine {} and {} byte order is given the descriptor {} / {:?}, expected {} / {:?}", machine, if big { "MSB" } else { "LSB" }, la.name(), la.endian(), name, ab.endian),
                    );
                }
                obs.class("elf-loader-descriptor-compared");
            }
            _ => obs.exclude("elf-loader:header-only-image-rejected"),
        }
        // the PE loader knows three COFF machines
        let coff: Option<u16> = match name {
            "x86" => Some(0x14c),
            "amd64" => Some(0x8664),
            "mips" => Some(0x166),
            _ => None,
        };
        if let Some(machine) = coff {
            let image = one_section_pe(machine);
            match guard(|| falcon::loader::Pe::new(image.clone())) {
                Ok(Ok(pe)) => {
                    use falcon::loader::Loader;
                    let la = pe.architecture();
                    if la.name() != name || la.endian() != ab.endian {
                        bad(format!("C20|{}|pe-loader|descriptor", name), format!("a PE image of COFF machine 0x{:x} is given the descriptor {} / {:?}, expected {} / {:?}", machine, la.name(), la.endian(), name, ab.endian));
                    }
                    // the memory model the loader builds reads words in the descriptor's byte order
                    // (the section holds the bytes 0x11 0x22 0x33 0x44 ... at RVA 0x1000)
                    if let Ok(m) = pe.memory() {
                        let want = if la.endian() == Endian::Big { 0x1122_3344u32 } else { 0x4433_2211u32 };
                        match m.get32(0x1000) {
                            Some(w) if w == want => {}
                            got => bad(format!("C20|{}|pe-loader|memory-endian", name), format!("the PE loader publishes {} / {:?}, but its memory reads the bytes 11 22 33 44 as {:x?}", la.name(), la.endian(), got)),
                        }
                    }
                    obs.class("pe-loader-descriptor-compared");
                }
                _ => obs.exclude("pe-loader:minimal-image-rejected"),
            }
        }
    }

    // --- stack-pointer arithmetic has the width of stack_pointer() ---------------------------------
    // Idioms whose effect on the stack pointer is a plain +-delta, lifted and run from a stack
    // pointer in the upper part of the address space (above 4 GiB on the 64-bit machines): the
    // full-width stack pointer must move by exactly that delta.
    {
        let sp = a.stack_pointer();
        let w = (a.word_size() / 8) as i64;
        let idioms: Vec<(Vec<u8>, i64, &str)> = match name {
            "x86" => vec![(vec![0x50], -w, "push eax"), (vec![0x58], w, "pop eax"), (vec![0x83, 0xEC, 0x10], -16, "sub esp,16"), (vec![0xC2, 0x10, 0x00], w + 16, "ret 16")],
            "amd64" => vec![(vec![0x50], -w, "push rax"), (vec![0x58], w, "pop rax"), (vec![0x48, 0x83, 0xEC, 0x10], -16, "sub rsp,16"), (vec![0xC2, 0x10, 0x00], w + 16, "ret 16"), (vec![0xC3], w, "ret")],
            "mips" | "mipsel" => vec![(word(case.arch, 0x27BD_FFE0), -32, "addiu $sp,$sp,-32")],
            "ppc" => vec![(word(case.arch, 0x9421_FFF0), -16, "stwu r1,-16(r1)"), (word(case.arch, 0x3821_0010), 16, "addi r1,r1,16")],
            _ => vec![(word(case.arch, 0xD100_43FF), -16, "sub sp,sp,#16"), (word(case.arch, 0x9100_43FF), 16, "add sp,sp,#16"), (word(case.arch, 0xA9BF_7BFD), -16, "stp x29,x30,[sp,#-16]!"), (word(case.arch, 0xA8C1_7BFD), 16, "ldp x29,x30,[sp],#16")],
        };
        let bits = sp.bits();
        let sp0: u64 = if bits == 64 { 0x0000_7ffd_1234_5000 } else { 0x7ffd_5000 };
        let big = a.endian() == Endian::Big;
        for (code, delta, text) in idioms {
            let r = match guard(|| a.translator().translate_block(&code, 0x10000, &Options::default())) {
                Ok(Ok(r)) => r,
                _ => continue,
            };
            let mut st = fv::refil::RefState { scalars: BTreeMap::new(), mem: fv::refil::RefMem::new(big) };
            // every scalar the idiom mentions gets a value; the stack pointer the high one
            for (_, cfg) in r.instructions() {
                for b in cfg.blocks() {
                    for i in b.instructions() {
                        for sc in i.operation().scalars_read().unwrap_or_default().into_iter().chain(i.operation().scalars_written().unwrap_or_default()) {
                            st.scalars.entry(sc.name().to_string()).or_insert_with(|| fv::bv::Bv::from_u64(0x40, sc.bits()));
                        }
                    }
                }
            }
            st.scalars.insert(sp.name().to_string(), fv::bv::Bv::from_u64(sp0, bits));
            for i in 0..256u64 {
                st.mem.bytes.insert(sp0 - 128 + i, 0);
            }
            let mut ok = true;
            'graphs: for (_, cfg) in r.instructions() {
                let view = fv::refil::FnView::of_cfg(cfg);
                let mut m = match fv::refil::Machine::new(&view, st.clone()) {
                    Ok(m) => m,
                    Err(_) => {
                        ok = false;
                        break;
                    }
                };
                for _ in 0..200 {
                    match m.step() {
                        Ok(fv::refil::Effect::Branch { .. }) => break,
                        Ok(_) => {}
                        Err(fv::refil::Fault::NoEdge) => break,
                        Err(_) => {
                            ok = false;
                            break 'graphs;
                        }
                    }
                }
                st = m.state;
            }
            if !ok {
                obs.exclude("sp-arithmetic:idiom-not-executable-in-isolation");
                continue;
            }
            let want = (sp0 as i128 + delta as i128) as u64 & if bits == 64 { u64::MAX } else { 0xffff_ffff };
            let got = st.scalars.get(sp.name()).and_then(|v| v.to_u64());
            if got != Some(want) {
                bad(format!("C20|{}|sp|arithmetic-width", name), format!("`{}` from {} = 0x{:x}: the lifted code leaves {:x?}, expected 0x{:x}", text, sp.name(), sp0, got, want));
            }
            obs.count("sp-arithmetic-idioms-run", 1);
        }
    }

    // --- MIPS: the byte order of the descriptor is the one the lifted unaligned accesses use ---------
    // The canonical unaligned word store / load of the MIPS32 manual (swl+swr, lwl+lwr with the
    // offsets of the descriptor's byte order), lifted and run on a memory of that byte order, must
    // move the word 0xA1B2C3D4 to / from the four bytes at every alignment.
    if fam == "mips" {
        let big = a.endian() == Endian::Big;
        let (hi_off, lo_off) = if big { (0u32, 3u32) } else { (3u32, 0u32) };
        let enc = |op: u32, imm: u32| -> Vec<u8> { word(case.arch, op << 26 | 4 << 21 | 8 << 16 | imm) };
        let run = |codes: &[Vec<u8>], st: fv::refil::RefState| -> Result<fv::refil::RefState, String> {
            let mut st = st;
            for code in codes {
                let r = guard(|| a.translator().translate_block(code, 0x10000, &Options::default())).map_err(|p| p.msg)?.map_err(|e| e.to_string())?;
                for (_, cfg) in r.instructions() {
                    let view = fv::refil::FnView::of_cfg(cfg);
                    let mut m = fv::refil::Machine::new(&view, st).map_err(|f| format!("{:?}", f))?;
                    for _ in 0..200 {
                        match m.step() {
                            Ok(_) => {}
                            Err(fv::refil::Fault::NoEdge) => break,
                            Err(f) => return Err(format!("{:?}", f)),
                        }
                    }
                    st = m.state;
                }
            }
            Ok(st)
        };
        let bytes_of = |v: u32| -> [u8; 4] { if big { v.to_be_bytes() } else { v.to_le_bytes() } };
        for k in 0..4u64 {
            let addr = 0x2000 + k;
            let mut st = fv::refil::RefState { scalars: BTreeMap::new(), mem: fv::refil::RefMem::new(big) };
            st.scalars.insert("$a0".into(), fv::bv::Bv::from_u64(addr, 32));
            st.scalars.insert("$t0".into(), fv::bv::Bv::from_u64(0xA1B2_C3D4, 32));
            for i in 0..16u64 {
                st.mem.bytes.insert(0x1ff8 + i, 0);
            }
            // store
            match run(&[enc(0x2a, hi_off), enc(0x2e, lo_off)], st.clone()) {
                Ok(after) => {
                    let got: Vec<u8> = (0..4).map(|i| after.mem.bytes.get(&(addr + i)).copied().unwrap_or(0)).collect();
                    let others_zero = after.mem.bytes.iter().all(|(a, b)| (*a >= addr && *a < addr + 4) || *b == 0);
                    if got != bytes_of(0xA1B2_C3D4) || !others_zero {
                        bad(format!("C20|{}|endian|unaligned-store", name), format!("swl/swr of 0xA1B2C3D4 at 0x{:x} with the offsets of a {:?} machine leaves {:02x?} there (other bytes untouched: {}); endian() is {:?}", addr, a.endian(), got, others_zero, a.endian()));
                    }
                }
                Err(e) => bad(format!("C20|{}|endian|unaligned-store|il-fault", name), format!("running the lifted swl/swr pair at 0x{:x}: {}", addr, e)),
            }
            // load
            let mut st2 = st.clone();
            for (i, b) in bytes_of(0x5566_7788).iter().enumerate() {
                st2.mem.bytes.insert(addr + i as u64, *b);
            }
            match run(&[enc(0x22, hi_off), enc(0x26, lo_off)], st2) {
                Ok(after) => {
                    let got = after.scalars.get("$t0").and_then(|v| v.to_u64());
                    if got != Some(0x5566_7788) {
                        bad(format!("C20|{}|endian|unaligned-load", name), format!("lwl/lwr at 0x{:x} with the offsets of a {:?} machine loads {:x?}, the memory holds 0x55667788 in that byte order", addr, a.endian(), got));
                    }
                }
                Err(e) => bad(format!("C20|{}|endian|unaligned-load|il-fault", name), format!("running the lifted lwl/lwr pair at 0x{:x}: {}", addr, e)),
            }
        }
        obs.class("mips-unaligned-byte-order-compared");
    }

    // --- descriptors vs lifter ---------------------------------------------------------------
    if a.name() != name {
        bad(format!("C20|{}|name", name), format!("architecture object for {} calls itself {}", name, a.name()));
    }
    let sp = a.stack_pointer();
    match u.scalars.get(sp.name()) {
        None => bad(format!("C20|{}|sp|not-produced", fam), format!("stack_pointer() = {} is never produced by the {} translator", sp, name)),
        Some(ws) if !ws.contains(&sp.bits()) => bad(format!("C20|{}|sp|width", fam), format!("stack_pointer() = {} but the translator produces {} with widths {:?}", sp, sp.name(), ws)),
        _ => {}
    }
    if sp.name() != ab.sp {
        bad(format!("C20|{}|sp|abi", fam), format!("stack_pointer() = {}, the ABI's stack pointer is {}", sp, ab.sp));
    }
    if a.word_size() != sp.bits() || a.word_size() != ab.bits {
        bad(format!("C20|{}|word-size", fam), format!("word_size() = {}, stack pointer has {} bits, machine word is {}", a.word_size(), sp.bits(), ab.bits));
    }
    let other_widths: Vec<usize> = sweep_addr_widths.iter().copied().filter(|w| *w != a.word_size()).collect();
    if !other_widths.is_empty() {
        bad(format!("C20|{}|address-width", fam), format!("lifted loads/stores use address widths {:?}, word_size() is {}", sweep_addr_widths, a.word_size()));
    }
    if sweep_addr_widths.is_empty() {
        return Err(Failure::new("harness|no-memory-sweep", format!("the sweep for {} lifted no load/store", name)));
    }
    if a.endian() != ab.endian {
        bad(format!("C20|{}|endian", name), format!("endian() = {:?}, {} is {:?}", a.endian(), name, ab.endian));
    }
    // every stack idiom, given in the architecture's instruction byte order, lifts and writes SP
    for bytes in stack_idioms(case.arch) {
        let tr = a.translator();
        let mut wrote = BTreeSet::new();
        if let Ok(Ok(r)) = guard(|| tr.translate_block(&bytes, 0x10000, &Options::default())) {
            for (_, cfg) in r.instructions() {
                for b in cfg.blocks() {
                    for i in b.instructions() {
                        if let Some(v) = i.operation().scalars_written() {
                            for s in v {
                                wrote.insert((s.name().to_string(), s.bits()));
                            }
                        }
                    }
                }
            }
        }
        if !wrote.contains(&(sp.name().to_string(), sp.bits())) {
            bad(format!("C20|{}|sp|idiom", fam), format!("lifting the stack idiom {:02x?} of {} writes {:?}, not stack_pointer() = {}", bytes, name, wrote, sp));
        }
    }

    // --- calling convention vs universe --------------------------------------------------------
    let cc = a.calling_convention();
    let in_universe = |s: &il::Scalar| -> Result<(), &'static str> {
        match u.scalars.get(s.name()) {
            None => Err("not-produced"),
            Some(ws) if !ws.contains(&s.bits()) => Err("width-mismatch"),
            _ => Ok(()),
        }
    };
    let report_set = |set: &str, regs: Vec<il::Scalar>, fails: &mut Vec<Failure>| {
        let mut by_kind: BTreeMap<&'static str, Vec<String>> = BTreeMap::new();
        for r in regs {
            if let Err(k) = in_universe(&r) {
                by_kind.entry(k).or_default().push(r.identifier());
            }
        }
        for (k, mut v) in by_kind {
            v.sort();
            fails.push(Failure::new(
                format!("C20|{}|cc|{}|{}", fam, set, k),
                format!("{} calling convention: {} register(s) {:?} {} by the {} translator", name, set, v, if k == "not-produced" { "are never produced" } else { "are produced with another width" }, name),
            ));
        }
    };
    let mut cc_fails: Vec<Failure> = Vec::new();
    report_set("argument", cc.argument_registers().to_vec(), &mut cc_fails);
    report_set("preserved", cc.preserved_registers().iter().cloned().collect(), &mut cc_fails);
    report_set("trashed", cc.trashed_registers().iter().cloned().collect(), &mut cc_fails);
    report_set("return", vec![cc.return_register().clone()], &mut cc_fails);
    if let Some(r) = cc.return_address_type().register() {
        report_set("return-address", vec![r.clone()], &mut cc_fails);
    }
    fails.append(&mut cc_fails);
    let mut bad = |sig: String, msg: String| fails.push(Failure::new(sig, msg));

    // --- calling convention vs ABI -----------------------------------------------------------
    let args: Vec<String> = cc.argument_registers().iter().map(|s| s.name().to_string()).collect();
    let int_args: Vec<String> = ab.int_args.iter().map(|s| s.to_string()).collect();
    if args.len() < int_args.len() || args[..int_args.len()] != int_args[..] {
        bad(format!("C20|{}|cc|argument|order", fam), format!("argument registers {:?}, the ABI passes integers in {:?}", args, int_args));
    }
    if cc.return_register().name() != ab.ret || cc.return_register().bits() != ab.bits {
        bad(format!("C20|{}|cc|return|abi", fam), format!("return register {}, the ABI returns in {}:{}", cc.return_register(), ab.ret, ab.bits));
    }
    match (cc.return_address_type().register(), cc.return_address_type().stack(), ab.ret_addr_reg) {
        (Some(r), _, Some(want)) if r.name() == want && r.bits() == ab.bits => {}
        (None, Some(0), None) => {}
        (r, s, want) => bad(format!("C20|{}|cc|return-address|abi", fam), format!("return address in {:?}/{:?}, the ABI keeps it in {:?} (None = stack offset 0)", r.map(|x| x.identifier()), s, want)),
    }
    let nreg = cc.argument_registers().len();
    let mut prev: Option<usize> = None;
    for n in nreg..nreg + 6 {
        match cc.argument_type(n).stack() {
            Some(off) => {
                if let Some(p) = prev {
                    if off != p + a.word_size() / 8 {
                        bad(format!("C20|{}|cc|stack-stride", fam), format!("stack argument {} at offset {}, the previous one at {}: stride is not the word size {} bytes", n, off, p, a.word_size() / 8));
                        break;
                    }
                }
                prev = Some(off);
            }
            None => {
                bad(format!("C20|{}|cc|argument-type", fam), format!("argument {} beyond the {} argument registers is not a stack argument", n, nreg));
                break;
            }
        }
    }
    // the first stack argument sits where the descriptor says stack arguments start, and where
    // the platform ABI puts it: above the return address on x86 (4) and amd64 (8), above the
    // 16-byte home area on MIPS o32, at the stack pointer itself on AArch64 (AAPCS64 6.8.2 C.14-16;
    // the return address is in x30); PowerPC: consistency only
    if let Some(first) = cc.argument_type(nreg).stack() {
        if first != cc.stack_argument_offset() {
            bad(format!("C20|{}|cc|first-stack-argument|descriptor", fam), format!("argument_type({}) = Stack({}) but stack_argument_offset() = {}", nreg, first, cc.stack_argument_offset()));
        }
        let abi_first = match name {
            "x86" => Some(4),
            "amd64" => Some(8),
            "mips" | "mipsel" => Some(16),
            "aarch64" | "aarch64eb" => Some(0),
            _ => None,
        };
        if let Some(want) = abi_first {
            if first != want {
                bad(format!("C20|{}|cc|first-stack-argument|abi", fam), format!("the first stack argument is at offset {}, the ABI puts it at {}", first, want));
            }
        }
    }
    for (n, r) in cc.argument_registers().iter().enumerate() {
        if cc.argument_type(n).register() != Some(r) {
            bad(format!("C20|{}|cc|argument-type", fam), format!("argument_type({}) is not the register {}", n, r));
        }
    }
    // no register both preserved and trashed (a register is its name: x19:64 and x19:128 are one)
    let pres: BTreeSet<String> = cc.preserved_registers().iter().map(|s| s.name().to_string()).collect();
    let tras: BTreeSet<String> = cc.trashed_registers().iter().map(|s| s.name().to_string()).collect();
    let both: Vec<&String> = pres.intersection(&tras).collect();
    if !both.is_empty() {
        bad(format!("C20|{}|cc|preserved-and-trashed", fam), format!("registers both preserved and trashed: {:?}", both));
    }
    if !cc.preserved_registers().contains(&sp) {
        bad(format!("C20|{}|cc|sp-not-preserved", fam), format!("the stack pointer {} is not among the preserved registers", sp));
    }
    for s in cc.preserved_registers() {
        if cc.is_preserved(s) != Some(true) || (cc.is_trashed(s) != Some(false) && !cc.trashed_registers().contains(s)) {
            bad(format!("C20|{}|cc|is-preserved", fam), format!("is_preserved/is_trashed disagree with the preserved set for {}", s));
        }
    }
    for s in cc.trashed_registers() {
        if cc.is_trashed(s) != Some(true) {
            bad(format!("C20|{}|cc|is-trashed", fam), format!("is_trashed disagrees with the trashed set for {}", s));
        }
    }

    // every relation was evaluated; report an unknown failure first, else a known one
    let total = fails.len();
    if let Some(f) = fails.iter().find(|f| !obs.known(&f.sig)) {
        return Err(f.clone());
    }
    if let Some(f) = fails.into_iter().next() {
        return Err(f);
    }
    let _ = total;
    let names: Vec<&String> = u.scalars.keys().collect();
    obs.nontrivial(&(name, names.len(), case.extra.len().min(3)));
    if obs.want_sample() {
        obs.sample(format!(
            "{}: universe of {} scalar names from {} lifted sweep/extra strings (e.g. {:?}); sp={} word={} endian={:?}; cc args={:?} ret={} retaddr={:?}",
            name, names.len(), u.lifted, names.iter().take(12).collect::<Vec<_>>(), sp, a.word_size(), a.endian(), args, cc.return_register(), cc.return_address_type()
        ));
    }
    Ok(())
}

fn render(c: &Case) -> String {
    format!("{} + {} extra byte strings {:02x?}", ARCHS[c.arch], c.extra.len(), c.extra)
}

fn main() -> std::process::ExitCode {
    let mut spec = Spec::new(
        "C20",
        "each case picks one of the 7 architectures and 0-12 random instruction strings; ALL descriptor relations of that architecture are evaluated against the scalar universe (complete register sweeps: every register index in every operand position of mov/add/load/store/push/pop/SIMD templates, plus the case's random strings) and against psABI tables; the descriptor space itself is finite and fully enumerated in every run; non-trivial = every relation evaluated with a non-empty universe; distinct = (architecture, universe size, extras bucket)",
        Box::new(|_t: Tier| from_tape(80, decode)),
        |t| t.pick(70_000, 1_000_000),
        check,
    );
    spec.render = render;
    spec.workers = |t| t.pick(7, 16);
    spec.floors = ARCHS.iter().map(|a| (*a, 0.08)).collect();
    spec.assumptions = vec![
        "ABI facts transcribed from the SysV i386 / x86-64 psABI, MIPS o32, PowerPC SVR4 and AAPCS64 documents; only the facts the property lists are asserted (the complete preserved/trashed sets are not compared with the ABI)".into(),
        "endianness of aarch64/aarch64eb cannot be observed from lifting (A64 instructions are little-endian in both); it is compared with the architecture name".into(),
        "a register is identified by its name: the same name in the preserved and the trashed set with different widths counts as both".into(),
    ];
    engine::main(spec)
}
