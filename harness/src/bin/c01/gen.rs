//! Case generation for C01: an instruction encoding (encoder table / mutation / random bytes) and
//! an initial machine state biased so that the instruction has a defined outcome (memory operands
//! land in the scratch area, counts are small, branch targets stay inside the code area ...).
//!
//! The biasing uses capstone's operand list (`dec.rs`) - for *where to aim*, never for meaning.

#![allow(dead_code)]

use crate::cpu::{AREA_SIZE, CODE_BASE, F_AF, F_CF, F_DF, F_OF, F_PF, F_SF, F_ZF, SCRATCH_BASE};
use crate::dec::{self, Dec, Op, RegClass};
use crate::x86_asm;
use fv::tape::Tape;
use serde::{Deserialize, Serialize};

pub const SLOT: u64 = CODE_BASE + 0x8000;

#[derive(Clone, Debug, Serialize, Deserialize)]
pub struct Case {
    /// 64: Mode::Amd64, 32: Mode::X86 (mode-invariant encodings, run in long mode)
    pub mode: u8,
    /// 0 encoder table, 1 mutation of an encoding, 2 random bytes
    pub source: u8,
    /// encoder label (informational)
    pub label: String,
    pub bytes: Vec<u8>,
    pub gpr: [u64; 16],
    /// RFLAGS bits (subset of CF PF AF ZF SF DF OF)
    pub flags: u64,
    /// (low, high) halves
    pub xmm: Vec<(u64, u64)>,
    /// (address, little-endian value, byte count 1..=8) written over the pristine scratch image
    pub pokes: Vec<(u64, u64, u8)>,
}

const BOUNDARY: [u64; 18] = [
    0,
    1,
    u64::MAX,
    0x7f,
    0x80,
    0xff,
    0x7fff,
    0x8000,
    0xffff,
    0x7fff_ffff,
    0x8000_0000,
    0xffff_ffff,
    0x1_0000_0000,
    0x7fff_ffff_ffff_ffff,
    0x8000_0000_0000_0000,
    0xffff_ffff_0000_0000,
    0xffff_ffff_8000_0000,
    2,
];

/// An offset into the scratch area for an access of `n` bytes.
fn scratch_off(t: &mut Tape, n: u64) -> u64 {
    let n = n.max(1);
    let align = n.next_power_of_two().min(64);
    match t.weighted(&[8, 4, 2, 2, 1, 1]) {
        0 => (0x1000 + t.below(0xE000) as u64) & !(align - 1),
        1 => 0x1000 + t.below(0xE000) as u64,
        2 => (t.below(32) as u64) & !(align - 1),
        3 => AREA_SIZE - n - ((t.below(32) as u64) & !(align - 1)).min(AREA_SIZE - n),
        4 => AREA_SIZE - n,
        _ => AREA_SIZE - n + 1 + t.below(4) as u64, // crosses the end: faults natively
    }
}

fn gpr_value(t: &mut Tape) -> u64 {
    match t.weighted(&[6, 3, 4, 1, 4, 2]) {
        0 => *t.pick(&BOUNDARY),
        1 => t.below(72) as u64,
        2 => SCRATCH_BASE + scratch_off(t, 8),
        3 => CODE_BASE + 0x100 + t.below(0xFE00) as u64,
        4 => t.u64(),
        _ => t.biased(64) as u64,
    }
}

fn xmm_value(t: &mut Tape) -> (u64, u64) {
    match t.below(6) {
        0 => {
            let b = t.raw() as u8 as u64;
            let w = b * 0x0101_0101_0101_0101;
            (w, w)
        }
        1 => {
            // 0x00 / 0xFF byte lanes
            let m = t.u64();
            let mut lo = 0u64;
            let mut hi = 0u64;
            for i in 0..8 {
                if m >> i & 1 == 1 {
                    lo |= 0xff << (8 * i);
                }
                if m >> (8 + i) & 1 == 1 {
                    hi |= 0xff << (8 * i);
                }
            }
            (lo, hi)
        }
        2 => {
            // sign bits / boundaries per lane
            let pats = [0x80u64, 0x7f, 0xff, 0x00, 0x01, 0xfe];
            let mut lo = 0u64;
            let mut hi = 0u64;
            for i in 0..8 {
                lo |= *t.pick(&pats) << (8 * i);
                hi |= *t.pick(&pats) << (8 * i);
            }
            (lo, hi)
        }
        3 => (t.biased(64) as u64, t.biased(64) as u64),
        _ => (t.u64(), t.u64()),
    }
}

fn code_target(t: &mut Tape) -> u64 {
    match t.below(4) {
        0 => CODE_BASE + 0x100 + t.below(0x7E00) as u64,
        1 => SLOT + 0x40 + t.below(0x7000) as u64,
        2 => SLOT - 0x40 - t.below(0x7000) as u64,
        _ => SLOT + 16 + t.below(64) as u64,
    }
}

fn patch(bytes: &mut [u8], off: usize, n: usize, v: u64) {
    for i in 0..n {
        if off + i < bytes.len() {
            bytes[off + i] = (v >> (8 * i)) as u8;
        }
    }
}

fn reg_get(gpr: &[u64; 16], r: &dec::Reg) -> u64 {
    let v = gpr[r.num as usize & 15];
    match (r.bits, r.high) {
        (8, true) => (v >> 8) & 0xff,
        (8, false) => v & 0xff,
        (16, _) => v & 0xffff,
        (32, _) => v & 0xffff_ffff,
        _ => v,
    }
}

/// write a sub-register the way the harness wants the *initial* state to look (other bits kept)
fn reg_set(gpr: &mut [u64; 16], r: &dec::Reg, val: u64) {
    let i = r.num as usize & 15;
    let v = gpr[i];
    gpr[i] = match (r.bits, r.high) {
        (8, true) => (v & !0xff00) | ((val & 0xff) << 8),
        (8, false) => (v & !0xff) | (val & 0xff),
        (16, _) => (v & !0xffff) | (val & 0xffff),
        (32, _) => (v & !0xffff_ffff) | (val & 0xffff_ffff),
        _ => val,
    };
}

fn mask_bits(bits: usize) -> u64 {
    if bits >= 64 {
        u64::MAX
    } else {
        (1u64 << bits) - 1
    }
}

fn is_str(m: &str) -> bool {
    ["movs", "cmps", "stos", "lods", "scas"].iter().any(|p| m.starts_with(p)) && m.len() == 5
}

/// Bias the state (and patch displacement / immediate fields of the encoding) using the operand
/// list.  Returns nothing; everything it changes is part of the case.
fn aim(t: &mut Tape, mode64: bool, bytes: &mut Vec<u8>, d: &Dec, gpr: &mut [u64; 16], pokes: &mut Vec<(u64, u64, u8)>) {
    let mn = crate::cmp::base_mnemonic(d.mnemonic.as_str());
    let len = d.len as u64;
    let addr32 = d.addr_size == 4 && mode64;
    let amask: u64 = if addr32 || !mode64 { 0xffff_ffff } else { u64::MAX };
    let stackish = matches!(mn, "push" | "pop" | "call" | "ret" | "leave" | "pushfq" | "popfq");
    if stackish {
        gpr[4] = SCRATCH_BASE + ((0x1000 + t.below(0xE000) as u64) & !7);
        if t.chance(1, 8) {
            gpr[4] += 1 + t.below(7) as u64;
        }
        if t.chance(1, 24) {
            gpr[4] = SCRATCH_BASE + *t.pick(&[0u64, 8, AREA_SIZE - 8, AREA_SIZE]);
        }
        if mn == "leave" {
            gpr[5] = SCRATCH_BASE + ((0x1000 + t.below(0xE000) as u64) & !7);
        }
        if mn == "ret" {
            let tgt = if t.chance(1, 8) { SCRATCH_BASE + 0x100 } else { code_target(t) };
            pokes.push((gpr[4], tgt, 8));
        }
    }
    // string instructions
    if is_str(mn) {
        let n = match d.ops.iter().find_map(|o| if let Op::Mem { bits, .. } = o { Some(*bits) } else { None }) {
            Some(b) if b >= 8 => (b / 8) as u64,
            _ => 1,
        };
        let rep = d.has_prefix(0xF3) || d.has_prefix(0xF2);
        gpr[6] = SCRATCH_BASE + 0x2000 + (t.below(0x5000) as u64 & !(n - 1));
        gpr[7] = SCRATCH_BASE + 0x9000 + (t.below(0x5000) as u64 & !(n - 1));
        if t.chance(1, 6) {
            gpr[6] += 1;
            gpr[7] += 3;
        }
        if t.chance(1, 16) {
            // overlapping source / destination
            gpr[7] = gpr[6].wrapping_add(n * t.below(4) as u64).wrapping_sub(n);
        }
        let cnt = match t.weighted(&[3, 3, 6, 2]) {
            0 => 0,
            1 => 1,
            2 => 2 + t.below(12) as u64,
            _ => 14 + t.below(30) as u64,
        };
        if rep || t.chance(1, 2) {
            gpr[1] = cnt;
            if addr32 || t.chance(1, 8) {
                // garbage in the upper half: only ECX counts under 67h; without it this makes the
                // count huge (runs into the end of scratch and faults natively)
                if addr32 {
                    gpr[1] |= (t.raw() as u64) << 32;
                }
            }
        }
        if addr32 {
            gpr[6] |= (t.raw() as u64) << 32;
            gpr[7] |= (t.raw() as u64) << 32;
        }
        // make a prefix of the elements compare equal so that repe/repne run more than one round
        if (mn.starts_with("scas") || mn.starts_with("cmps")) && t.chance(2, 3) {
            let k = t.below(cnt as usize + 2) as u64;
            let df = false; // direction is chosen later; equal runs are laid out upward (DF=0)
            let _ = df;
            for i in 0..k.min(40) {
                let a = (gpr[7] & 0xffff_ffff).wrapping_add(i * n);
                if mn.starts_with("scas") {
                    pokes.push((a, gpr[0] & mask_bits((n * 8) as usize), n as u8));
                } else {
                    let s = (gpr[6] & 0xffff_ffff).wrapping_add(i * n);
                    let mut v = 0u64;
                    for j in 0..n {
                        v |= (crate::cpu::pristine_byte(s + j) as u64) << (8 * j);
                    }
                    pokes.push((a, v, n as u8));
                }
            }
        }
        return;
    }
    // relative branches: keep the target inside the code area and outside the instruction itself
    if let Some(Op::Imm { val, .. }) = d.ops.first() {
        let is_branch = mn.starts_with('j') || mn.starts_with("loop") || mn == "call";
        if is_branch && d.imm_size > 0 {
            let tgt = *val as u64;
            let inside = tgt >= CODE_BASE + 0x100 && tgt < CODE_BASE + AREA_SIZE - 0x100;
            let in_self = tgt >= SLOT && tgt < SLOT + len;
            if (!inside || in_self) && d.imm_size == 4 {
                let new = code_target(t);
                let rel = new.wrapping_sub(SLOT + len);
                patch(bytes, d.imm_off, 4, rel);
            } else if in_self && d.imm_size == 1 {
                patch(bytes, d.imm_off, 1, 0x10 + t.below(0x60) as u64);
            }
        }
    }
    if mn.starts_with("loop") || mn == "jrcxz" || mn == "jecxz" || mn == "jcxz" {
        gpr[1] = match t.below(5) {
            0 => 0,
            1 => 1,
            2 => 2,
            3 => (t.raw() as u64) << 32 | t.below(3) as u64,
            _ => t.u64(),
        };
    }
    // moffs forms: absolute address in the immediate field
    if d.ops.iter().any(|o| matches!(o, Op::Mem { base: None, index: None, .. })) && d.disp_size == 0 && d.imm_size >= 4 && mn == "mov" {
        let n = d.ops.iter().find_map(|o| if let Op::Mem { bits, .. } = o { Some((*bits / 8) as u64) } else { None }).unwrap_or(1);
        if t.chance(7, 8) {
            let a = SCRATCH_BASE + scratch_off(t, n);
            patch(bytes, d.imm_off, d.imm_size, a);
        }
    }
    // explicit memory operand
    let mut ea_for_poke: Option<(u64, usize)> = None;
    for o in &d.ops {
        if let Op::Mem { base, index, scale, disp, bits, .. } = o {
            let n = ((*bits).max(8) / 8) as u64;
            if !t.chance(15, 16) {
                break;
            }
            let mut target = SCRATCH_BASE + scratch_off(t, n);
            if n == 16 && t.chance(5, 6) {
                target &= !15;
            }
            let rip = matches!(base, Some(b) if b.class == RegClass::Ip);
            if rip {
                if d.disp_size == 4 {
                    let rel = target.wrapping_sub(SLOT + len);
                    patch(bytes, d.disp_off, 4, rel);
                    ea_for_poke = Some((target, *bits));
                }
                break;
            }
            let scale = (*scale).max(1) as u64;
            let disp = *disp as u64;
            match (base, index) {
                (None, None) => {
                    if d.disp_size == 4 {
                        patch(bytes, d.disp_off, 4, target);
                        ea_for_poke = Some((target, *bits));
                    }
                }
                (Some(b), None) if b.class == RegClass::Gpr => {
                    let v = target.wrapping_sub(disp) & amask;
                    set_addr_reg(t, gpr, b, v, mode64);
                    ea_for_poke = Some((target, *bits));
                }
                (None, Some(x)) if x.class == RegClass::Gpr => {
                    // index*scale + disp: make target reachable
                    let q = target.wrapping_sub(disp) & amask;
                    let v = q / scale;
                    set_addr_reg(t, gpr, x, v, mode64);
                    ea_for_poke = Some((v.wrapping_mul(scale).wrapping_add(disp) & amask, *bits));
                }
                (Some(b), Some(x)) if b.class == RegClass::Gpr && x.class == RegClass::Gpr => {
                    if b.num == x.num {
                        let q = target.wrapping_sub(disp) & amask;
                        let v = q / (scale + 1);
                        set_addr_reg(t, gpr, b, v, mode64);
                        ea_for_poke = Some((v.wrapping_mul(scale + 1).wrapping_add(disp) & amask, *bits));
                    } else {
                        let iv = match t.below(4) {
                            0 => 0,
                            1 => t.below(16) as u64,
                            2 => (t.below(64) as u64).wrapping_neg() & amask,
                            _ => t.below(0x400) as u64,
                        };
                        set_addr_reg(t, gpr, x, iv, mode64);
                        let ivr = reg_get(gpr, x);
                        let v = target.wrapping_sub(disp).wrapping_sub(ivr.wrapping_mul(scale)) & amask;
                        set_addr_reg(t, gpr, b, v, mode64);
                        // the stack pointer may have been used as base
                        ea_for_poke = Some((target, *bits));
                    }
                }
                _ => {}
            }
            break;
        }
    }
    // bit-test with a register offset and a memory base addresses memory beyond the operand
    if matches!(mn, "bt" | "bts" | "btr" | "btc") {
        if let (Some(Op::Mem { bits, .. }), Some(Op::Reg(r))) = (d.ops.first(), d.ops.get(1)) {
            let w = *bits as u64;
            let v = match t.below(6) {
                0 => t.below(w as usize) as u64,
                1 => w + t.below(w as usize) as u64,
                2 => (t.below(512) as u64).wrapping_neg(),
                3 => t.below(2048) as u64,
                4 => w,
                _ => t.below(8 * w as usize) as u64,
            };
            reg_set(gpr, r, v);
        } else if let (Some(Op::Reg(b)), Some(Op::Reg(r))) = (d.ops.first(), d.ops.get(1)) {
            let w = b.bits as u64;
            let v = match t.below(7) {
                0 | 1 => t.below(w as usize) as u64,
                2 => w,
                3 => w + 1 + t.below(w as usize) as u64,
                4 => 2 * w - 1,
                5 => u64::MAX,
                _ => t.u64(),
            };
            if b.num != r.num {
                reg_set(gpr, r, v);
            }
        }
    }
    // shift / rotate counts in CL
    if matches!(mn, "shl" | "shr" | "sar" | "sal" | "rol" | "ror" | "rcl" | "rcr" | "shld" | "shrd") {
        let by_cl = d.ops.iter().skip(1).any(|o| matches!(o, Op::Reg(r) if r.name == "cl"));
        if by_cl {
            let w = match d.ops.first() {
                Some(Op::Reg(r)) => r.bits as u64,
                Some(Op::Mem { bits, .. }) => *bits as u64,
                _ => 32,
            };
            let c = match t.below(12) {
                0 => 0,
                1 => 1,
                2 => 2,
                3 => w - 1,
                4 => w,
                5 => w + 1,
                6 => 31,
                7 => 32,
                8 => 33,
                9 => 63 + t.below(3) as u64,
                10 => t.below(w as usize) as u64,
                _ => t.raw() as u64 & 0xff,
            };
            // do not destroy an address register
            let cl_is_addr = d.ops.iter().any(|o| matches!(o, Op::Mem { base, index, .. } if base.as_ref().map(|b| b.num == 1).unwrap_or(false) || index.as_ref().map(|b| b.num == 1).unwrap_or(false)));
            if !cl_is_addr {
                gpr[1] = (gpr[1] & !0xff) | c;
            }
        }
    }
    // division: make a defined quotient likely
    if matches!(mn, "div" | "idiv") {
        let (bits, reg): (usize, Option<&dec::Reg>) = match d.ops.first() {
            Some(Op::Reg(r)) => (r.bits, Some(r)),
            Some(Op::Mem { bits, .. }) => (*bits, None),
            _ => (32, None),
        };
        let dv = {
            let mut v = t.biased(bits) as u64;
            if v == 0 && t.chance(7, 8) {
                v = 1 + t.below(9) as u64;
            }
            v
        };
        match reg {
            Some(r) if r.num != 0 && r.num != 2 => reg_set(gpr, r, dv),
            Some(_) => {}
            None => {
                if let Some((ea, _)) = ea_for_poke {
                    pokes.push((ea, dv, (bits / 8).min(8) as u8));
                    ea_for_poke = None;
                }
            }
        }
        if bits > 8 && t.chance(3, 4) {
            // high half: zero / sign extension / small
            let hi = match t.below(4) {
                0 => 0,
                1 => {
                    if (gpr[0] >> (bits - 1)) & 1 == 1 && mn == "idiv" {
                        mask_bits(bits)
                    } else {
                        0
                    }
                }
                2 => t.below(4) as u64,
                _ => dv.wrapping_sub(1) & mask_bits(bits) / 2,
            };
            let r = dec::parse_reg(match bits {
                16 => "dx",
                32 => "edx",
                _ => "rdx",
            });
            if bits == 32 {
                gpr[2] = hi; // keep the upper half as the CPU would (32-bit writes zero it anyway)
            } else {
                reg_set(gpr, &r, hi);
            }
        } else if bits == 8 && t.chance(3, 4) {
            gpr[0] = (gpr[0] & !0xff00) | ((t.below(4) as u64) << 8);
        }
    }
    // indirect jump / call: the operand holds the target
    if matches!(mn, "jmp" | "call") {
        let tgt = match t.below(10) {
            0 => SCRATCH_BASE + 0x40 + t.below(0x100) as u64,
            1 => t.u64(),
            _ => code_target(t),
        };
        match d.ops.first() {
            Some(Op::Reg(r)) if r.class == RegClass::Gpr => {
                if !(stackish && r.num == 4) {
                    reg_set(gpr, r, tgt)
                }
            }
            Some(Op::Mem { bits, .. }) => {
                if let Some((ea, _)) = ea_for_poke {
                    pokes.push((ea, tgt, (*bits / 8).clamp(1, 8) as u8));
                    ea_for_poke = None;
                }
            }
            _ => {}
        }
    }
    // cmpxchg: make the comparison succeed half of the time
    if mn == "cmpxchg" && t.chance(1, 2) {
        match d.ops.first() {
            Some(Op::Reg(r)) if r.num != 0 => {
                let acc = dec::Reg { name: String::new(), class: RegClass::Gpr, num: 0, bits: r.bits, high: false };
                let v = reg_get(gpr, &acc);
                reg_set(gpr, r, v);
            }
            Some(Op::Mem { bits, .. }) => {
                if let Some((ea, _)) = ea_for_poke {
                    pokes.push((ea, gpr[0] & mask_bits(*bits), (*bits / 8).clamp(1, 8) as u8));
                    ea_for_poke = None;
                }
            }
            _ => {}
        }
    }
    // pop / leave / ret read the stack: sometimes plant a boundary value
    if matches!(mn, "pop") && t.chance(1, 2) {
        pokes.push((gpr[4], t.biased(64) as u64, 8));
    }
    // memory operand content: boundary-biased half of the time
    if let Some((ea, bits)) = ea_for_poke {
        if t.chance(1, 2) {
            if bits <= 64 {
                pokes.push((ea, t.biased(bits.max(8)) as u64, (bits.max(8) / 8) as u8));
            } else {
                let (lo, hi) = xmm_value(t);
                pokes.push((ea, lo, 8));
                pokes.push((ea + 8, hi, 8));
            }
        }
    }
}

fn set_addr_reg(t: &mut Tape, gpr: &mut [u64; 16], r: &dec::Reg, v: u64, mode64: bool) {
    let i = r.num as usize & 15;
    if r.bits == 32 && mode64 {
        // 67h addressing: only the low half matters, the upper half is garbage on purpose
        gpr[i] = (v & 0xffff_ffff) | if t.chance(3, 4) { (t.raw() as u64) << 32 } else { 0 };
    } else if r.bits == 16 {
        gpr[i] = (gpr[i] & !0xffff) | (v & 0xffff);
    } else {
        gpr[i] = v;
    }
}

/// The generator: a plain function of the tape.
pub fn decode_case(t: &mut Tape) -> Case {
    // mode: 0 = amd64 (simplest), 1 = x86-32
    let mode64 = !t.chance(1, 4);
    let source = t.weighted(&[70, 20, 10]) as u8;
    let (mut bytes, label) = match (source, mode64) {
        (0, _) => {
            let a = x86_asm::gen_encoded(t, !mode64);
            (a.bytes, a.label.to_string())
        }
        (1, _) | (2, false) => {
            let a = x86_asm::gen_encoded(t, !mode64);
            (x86_asm::mutate(t, &a.bytes), format!("mut:{}", a.label))
        }
        _ => (x86_asm::random_bytes(t), "random".to_string()),
    };
    let source = if !mode64 && source == 2 { 1 } else { source };
    let mut gpr = [0u64; 16];
    for g in gpr.iter_mut() {
        *g = gpr_value(t);
    }
    let mut flags = 0u64;
    for f in [F_CF, F_PF, F_AF, F_ZF, F_SF, F_DF, F_OF] {
        if t.chance(1, 2) {
            flags |= f;
        }
    }
    let mut xmm = Vec::with_capacity(16);
    for _ in 0..16 {
        xmm.push(xmm_value(t));
    }
    let mut pokes = Vec::new();
    if let Some(d) = dec::decode(mode64, &bytes, SLOT) {
        aim(t, mode64, &mut bytes, &d, &mut gpr, &mut pokes);
    }
    if !mode64 {
        for g in gpr.iter_mut() {
            *g &= 0xffff_ffff;
        }
    }
    // this sandbox's kernel cannot return to user mode with a non-canonical stack pointer
    if !crate::cmp::canonical(gpr[4]) {
        gpr[4] = SCRATCH_BASE + 0x8000 + (gpr[4] & 0xff8);
    }
    Case { mode: if mode64 { 64 } else { 32 }, source, label, bytes, gpr, flags, xmm, pokes }
}
