//! A small reference model of 32-bit protected-mode x86 for the instruction forms whose meaning
//! differs between 32-bit and 64-bit mode (so that the host CPU, which cannot run 32-bit code in
//! this sandbox, cannot be asked): PUSH r32/imm/r/m32, POP r32/r/m32, CALL rel32 / r/m32, RET,
//! RET imm16, LEAVE, JMP r/m32, INC/DEC r32 (40h-4Fh), LOOP/LOOPE/LOOPNE/JECXZ, MOV with a moffs32
//! operand.  Written from the Intel SDM instruction descriptions; flat segments, 32-bit stack.
//!
//! Operand *identification* comes from capstone's 32-bit decoding (`dec.rs`); everything else is
//! here.  Anything outside the listed forms returns `None` (the case is then not compared).

#![allow(dead_code)]

use crate::cpu::{self, CpuOut, Stop, F_CF, F_OF, F_SF, F_ZF};
use crate::dec::{Dec, Op, RegClass};
use std::collections::BTreeMap;

pub struct M32<'a> {
    pub reg: [u32; 8],
    pub flags: u64,
    init: &'a dyn Fn(u64) -> Option<u8>,
    writes: BTreeMap<u64, u8>,
}

#[derive(Debug)]
pub enum Stop32 {
    /// access outside the two areas (the real machine would fault): excluded
    Fault,
    /// form not covered by the model
    Unmodelled,
}

impl<'a> M32<'a> {
    fn rd8(&self, a: u32) -> Result<u8, Stop32> {
        if let Some(b) = self.writes.get(&(a as u64)) {
            return Ok(*b);
        }
        (self.init)(a as u64).ok_or(Stop32::Fault)
    }
    fn rd(&self, a: u32, n: u32) -> Result<u32, Stop32> {
        let mut v = 0u32;
        for i in 0..n {
            v |= (self.rd8(a.wrapping_add(i))? as u32) << (8 * i);
        }
        Ok(v)
    }
    fn wr(&mut self, a: u32, n: u32, v: u32) -> Result<(), Stop32> {
        for i in 0..n {
            let x = a.wrapping_add(i) as u64;
            if !cpu::in_scratch(x) {
                // the code area is not writable, everything else is unmapped
                return Err(Stop32::Fault);
            }
        }
        for i in 0..n {
            self.writes.insert(a.wrapping_add(i) as u64, (v >> (8 * i)) as u8);
        }
        Ok(())
    }
    fn ea(&self, o: &Op) -> Result<u32, Stop32> {
        match o {
            Op::Mem { base, index, scale, disp, seg, .. } => {
                if matches!(seg, Some(s) if s.name == "fs" || s.name == "gs") {
                    return Err(Stop32::Unmodelled);
                }
                let r = |x: &Option<crate::dec::Reg>| -> Result<u32, Stop32> {
                    match x {
                        None => Ok(0),
                        Some(r) if r.class == RegClass::Gpr && r.bits == 32 && r.num < 8 => Ok(self.reg[r.num as usize]),
                        _ => Err(Stop32::Unmodelled),
                    }
                };
                Ok(r(base)?.wrapping_add(r(index)?.wrapping_mul(*scale as u32)).wrapping_add(*disp as u32))
            }
            _ => Err(Stop32::Unmodelled),
        }
    }
    fn read_op32(&self, o: &Op) -> Result<u32, Stop32> {
        match o {
            Op::Reg(r) if r.class == RegClass::Gpr && r.bits == 32 && r.num < 8 => Ok(self.reg[r.num as usize]),
            Op::Imm { val, .. } => Ok(*val as u32),
            Op::Mem { bits: 32, .. } => self.rd(self.ea(o)?, 4),
            _ => Err(Stop32::Unmodelled),
        }
    }
    fn push(&mut self, v: u32) -> Result<(), Stop32> {
        let sp = self.reg[4].wrapping_sub(4);
        self.wr(sp, 4, v)?;
        self.reg[4] = sp;
        Ok(())
    }
    fn pop(&mut self) -> Result<u32, Stop32> {
        let v = self.rd(self.reg[4], 4)?;
        self.reg[4] = self.reg[4].wrapping_add(4);
        Ok(v)
    }
    fn set_flag(&mut self, f: u64, on: bool) {
        if on {
            self.flags |= f;
        } else {
            self.flags &= !f;
        }
    }
}

/// Execute one instruction of the modelled set.  `next_seq` = address of the following instruction.
pub fn run(d: &Dec, mn: &str, gpr: &[u64; 16], flags: u64, init: &dyn Fn(u64) -> Option<u8>, next_seq: u64) -> Result<CpuOut, Stop32> {
    // no operand-size / address-size / rep prefixes in the modelled forms
    if d.has_prefix(0x66) || d.has_prefix(0x67) || d.has_prefix(0xF2) || d.has_prefix(0xF3) || d.has_prefix(0xF0) {
        return Err(Stop32::Unmodelled);
    }
    let mut m = M32 { reg: [0; 8], flags, init, writes: BTreeMap::new() };
    for i in 0..8 {
        m.reg[i] = gpr[i] as u32;
    }
    let next_seq = next_seq as u32;
    let mut next = next_seq;
    let op0 = d.ops.first();
    match mn {
        "push" => {
            let v = m.read_op32(op0.ok_or(Stop32::Unmodelled)?)?;
            m.push(v)?;
        }
        "pop" => match op0 {
            Some(Op::Reg(r)) if r.class == RegClass::Gpr && r.bits == 32 && r.num < 8 => {
                let v = m.pop()?;
                m.reg[r.num as usize] = v;
            }
            Some(o @ Op::Mem { bits: 32, .. }) => {
                // the address is computed after ESP was incremented
                let v = m.pop()?;
                let a = m.ea(o)?;
                m.wr(a, 4, v)?;
            }
            _ => return Err(Stop32::Unmodelled),
        },
        "call" => {
            let t = m.read_op32(op0.ok_or(Stop32::Unmodelled)?)?;
            m.push(next_seq)?;
            next = t;
        }
        "ret" => {
            let t = m.pop()?;
            if let Some(Op::Imm { val, .. }) = op0 {
                m.reg[4] = m.reg[4].wrapping_add(*val as u32 & 0xffff);
            }
            next = t;
        }
        "leave" => {
            m.reg[4] = m.reg[5];
            let v = m.pop()?;
            m.reg[5] = v;
        }
        "jmp" => match op0 {
            Some(Op::Imm { .. }) | None => return Err(Stop32::Unmodelled),
            Some(o) => next = m.read_op32(o)?,
        },
        "inc" | "dec" => match op0 {
            Some(Op::Reg(r)) if r.class == RegClass::Gpr && r.bits == 32 && r.num < 8 && d.len == 1 => {
                let a = m.reg[r.num as usize];
                let res = if mn == "inc" { a.wrapping_add(1) } else { a.wrapping_sub(1) };
                m.reg[r.num as usize] = res;
                m.set_flag(F_ZF, res == 0);
                m.set_flag(F_SF, res >> 31 == 1);
                m.set_flag(F_OF, if mn == "inc" { a == 0x7fff_ffff } else { a == 0x8000_0000 });
            }
            _ => return Err(Stop32::Unmodelled),
        },
        "loop" | "loope" | "loopne" => {
            let t = match op0 {
                Some(Op::Imm { val, .. }) => *val as u32,
                _ => return Err(Stop32::Unmodelled),
            };
            m.reg[1] = m.reg[1].wrapping_sub(1);
            let zf = m.flags & F_ZF != 0;
            let taken = m.reg[1] != 0
                && match mn {
                    "loope" => zf,
                    "loopne" => !zf,
                    _ => true,
                };
            if taken {
                next = t;
            }
        }
        "jecxz" => {
            let t = match op0 {
                Some(Op::Imm { val, .. }) => *val as u32,
                _ => return Err(Stop32::Unmodelled),
            };
            if m.reg[1] == 0 {
                next = t;
            }
        }
        "mov" => {
            // only the moffs forms A0-A3: one operand is the accumulator, the other an absolute address
            let is_moffs = |o: &Op| matches!(o, Op::Mem { base: None, index: None, .. });
            if d.opcode[0] < 0xA0 || d.opcode[0] > 0xA3 {
                return Err(Stop32::Unmodelled);
            }
            match (d.ops.first(), d.ops.get(1)) {
                (Some(Op::Reg(r)), Some(o)) if is_moffs(o) && r.num == 0 => {
                    let a = m.ea(o)?;
                    match r.bits {
                        8 => m.reg[0] = (m.reg[0] & !0xff) | m.rd(a, 1)?,
                        32 => m.reg[0] = m.rd(a, 4)?,
                        _ => return Err(Stop32::Unmodelled),
                    }
                }
                (Some(o), Some(Op::Reg(r))) if is_moffs(o) && r.num == 0 => {
                    let a = m.ea(o)?;
                    match r.bits {
                        8 => m.wr(a, 1, m.reg[0] & 0xff)?,
                        32 => m.wr(a, 4, m.reg[0])?,
                        _ => return Err(Stop32::Unmodelled),
                    }
                }
                _ => return Err(Stop32::Unmodelled),
            }
        }
        _ => return Err(Stop32::Unmodelled),
    }
    let mut out_gpr = [0u64; 16];
    for i in 0..8 {
        out_gpr[i] = m.reg[i] as u64;
    }
    let mut mem_diff: Vec<(u64, u8)> = Vec::new();
    for (a, v) in &m.writes {
        if init(*a) != Some(*v) {
            mem_diff.push((*a, *v));
        }
    }
    let _ = F_CF;
    Ok(CpuOut { stop: Stop::Trap, gpr: out_gpr, rflags: m.flags, next: next as u64, xmm: [[0; 16]; 16], mem_diff })
}
