//! Table-driven x86 / x86-64 encoder: emits raw instruction bytes from structured fields so that
//! every register / immediate / addressing field is varied.  It covers every form the dispatcher
//! in `lib/translator/x86/translator.rs` accepts (plus a few neighbours that it rejects), with
//! operand sizes 8/16/32/64/128 via 66h and REX.W, REX.R/X/B, high-byte registers, every ModRM
//! mod, SIB scale/index/base, disp8/disp32, RIP-relative and absolute forms, boundary-biased
//! immediates, segment, address-size, LOCK, REP and useless repeated prefixes.
//!
//! The encoder knows nothing about semantics; whether a candidate is a *case* is decided by
//! falcon (`translate_block` returns Ok).  Also: byte-level mutations and random byte strings.

#![allow(dead_code)]

use fv::tape::Tape;
use std::sync::OnceLock;

// rm kinds
const RM_NONE: u8 = 0;
const RM_ANY: u8 = 1;
const RM_MEM: u8 = 2;
const RM_REG: u8 = 3;
// size classes
const SZ_FIXED: u8 = 0; // no operand-size variation
const SZ_BYTE: u8 = 1; // byte opcode
const SZ_WIDE: u8 = 2; // 16 / 32 / 64 via 66h, REX.W
const SZ_D64: u8 = 3; // default 64-bit operand size in long mode: 64 (or 16 with 66h)
const SZ_W: u8 = 4; // 32 or 64 (REX.W) only
// immediates
const IMM_NONE: u8 = 0;
const IMM_B: u8 = 1;
const IMM_Z: u8 = 2; // 16 or 32
const IMM_V: u8 = 3; // 16, 32 or 64
const IMM_W: u8 = 4; // 16
const REL8: u8 = 5;
const REL32: u8 = 6;
const MOFFS: u8 = 7;
// flags
const NO32: u8 = 1; // not in the mode-invariant subset used for Mode::X86
const STR: u8 = 2; // string instruction (REP prefixes are meaningful)
const LOCK: u8 = 4; // LOCK-able with a memory destination
const SSE: u8 = 8;
const RARE: u8 = 16; // forms the lifter rejects or that fault natively: generated seldom
const M32: u8 = 32; // mode-variant form covered by the 32-bit reference model (model32.rs)
const ONLY32: u8 = 64; // exists only in 32-bit mode (inc/dec r32 short forms)

#[derive(Clone, Copy, Debug)]
pub struct Row {
    pub mn: &'static str,
    pfx: u8,
    esc: u8,
    op: u8,
    plus_r: bool,
    /// >= 0: ModRM.reg = opcode extension; -1: ModRM.reg is a register operand
    ext: i8,
    rm: u8,
    sz: u8,
    imm: u8,
    fl: u8,
}

const fn row(mn: &'static str, pfx: u8, esc: u8, op: u8, ext: i8, rm: u8, sz: u8, imm: u8, fl: u8) -> Row {
    Row { mn, pfx, esc, op, plus_r: false, ext, rm, sz, imm, fl }
}

const CC: [&str; 16] = ["o", "no", "b", "ae", "e", "ne", "be", "a", "s", "ns", "p", "np", "l", "ge", "le", "g"];

fn leak(s: String) -> &'static str {
    Box::leak(s.into_boxed_str())
}

fn build_rows() -> Vec<Row> {
    let mut v = Vec::new();
    // ALU 00-3B, 80/81/83
    for (n, mn) in ["add", "or", "adc", "sbb", "and", "sub", "xor", "cmp"].iter().enumerate() {
        let b = (n as u8) * 8;
        let lk = if *mn == "cmp" { 0 } else { LOCK };
        v.push(row(mn, 0, 0, b, -1, RM_ANY, SZ_BYTE, IMM_NONE, lk));
        v.push(row(mn, 0, 0, b + 1, -1, RM_ANY, SZ_WIDE, IMM_NONE, lk));
        v.push(row(mn, 0, 0, b + 2, -1, RM_ANY, SZ_BYTE, IMM_NONE, 0));
        v.push(row(mn, 0, 0, b + 3, -1, RM_ANY, SZ_WIDE, IMM_NONE, 0));
        v.push(row(mn, 0, 0, b + 4, 0, RM_NONE, SZ_BYTE, IMM_B, 0));
        v.push(row(mn, 0, 0, b + 5, 0, RM_NONE, SZ_WIDE, IMM_Z, 0));
        v.push(row(mn, 0, 0, 0x80, n as i8, RM_ANY, SZ_BYTE, IMM_B, lk));
        v.push(row(mn, 0, 0, 0x81, n as i8, RM_ANY, SZ_WIDE, IMM_Z, lk));
        v.push(row(mn, 0, 0, 0x83, n as i8, RM_ANY, SZ_WIDE, IMM_B, lk));
    }
    // shift / rotate groups
    for (n, mn) in ["rol", "ror", "rcl", "rcr", "shl", "shr", "sal", "sar"].iter().enumerate() {
        let fl = if *mn == "rcl" || *mn == "rcr" || *mn == "sal" { RARE } else { 0 };
        v.push(row(mn, 0, 0, 0xC0, n as i8, RM_ANY, SZ_BYTE, IMM_B, fl));
        v.push(row(mn, 0, 0, 0xC1, n as i8, RM_ANY, SZ_WIDE, IMM_B, fl));
        v.push(row(mn, 0, 0, 0xD0, n as i8, RM_ANY, SZ_BYTE, IMM_NONE, fl));
        v.push(row(mn, 0, 0, 0xD1, n as i8, RM_ANY, SZ_WIDE, IMM_NONE, fl));
        v.push(row(mn, 0, 0, 0xD2, n as i8, RM_ANY, SZ_BYTE, IMM_NONE, fl));
        v.push(row(mn, 0, 0, 0xD3, n as i8, RM_ANY, SZ_WIDE, IMM_NONE, fl));
    }
    // F6 / F7
    v.push(row("test", 0, 0, 0xF6, 0, RM_ANY, SZ_BYTE, IMM_B, 0));
    v.push(row("test", 0, 0, 0xF7, 0, RM_ANY, SZ_WIDE, IMM_Z, 0));
    v.push(row("test", 0, 0, 0xF6, 1, RM_ANY, SZ_BYTE, IMM_B, RARE));
    for (n, mn) in [(2, "not"), (3, "neg"), (4, "mul"), (5, "imul"), (6, "div"), (7, "idiv")] {
        let lk = if n < 4 { LOCK } else { 0 };
        v.push(row(mn, 0, 0, 0xF6, n, RM_ANY, SZ_BYTE, IMM_NONE, lk));
        v.push(row(mn, 0, 0, 0xF7, n, RM_ANY, SZ_WIDE, IMM_NONE, lk));
    }
    // FE / FF
    for (n, mn) in [(0, "inc"), (1, "dec")] {
        v.push(row(mn, 0, 0, 0xFE, n, RM_ANY, SZ_BYTE, IMM_NONE, LOCK));
        v.push(row(mn, 0, 0, 0xFF, n, RM_ANY, SZ_WIDE, IMM_NONE, LOCK));
    }
    v.push(row("call", 0, 0, 0xFF, 2, RM_ANY, SZ_D64, IMM_NONE, NO32 | M32));
    v.push(row("jmp", 0, 0, 0xFF, 4, RM_ANY, SZ_D64, IMM_NONE, NO32 | M32));
    v.push(row("push", 0, 0, 0xFF, 6, RM_ANY, SZ_D64, IMM_NONE, NO32 | M32));
    v.push(row("pop", 0, 0, 0x8F, 0, RM_ANY, SZ_D64, IMM_NONE, NO32 | M32));
    // MOV
    v.push(row("mov", 0, 0, 0x88, -1, RM_ANY, SZ_BYTE, IMM_NONE, 0));
    v.push(row("mov", 0, 0, 0x89, -1, RM_ANY, SZ_WIDE, IMM_NONE, 0));
    v.push(row("mov", 0, 0, 0x8A, -1, RM_ANY, SZ_BYTE, IMM_NONE, 0));
    v.push(row("mov", 0, 0, 0x8B, -1, RM_ANY, SZ_WIDE, IMM_NONE, 0));
    v.push(row("mov", 0, 0, 0xC6, 0, RM_ANY, SZ_BYTE, IMM_B, 0));
    v.push(row("mov", 0, 0, 0xC7, 0, RM_ANY, SZ_WIDE, IMM_Z, 0));
    v.push(Row { plus_r: true, ..row("mov", 0, 0, 0xB0, 0, RM_NONE, SZ_BYTE, IMM_B, 0) });
    v.push(Row { plus_r: true, ..row("mov", 0, 0, 0xB8, 0, RM_NONE, SZ_WIDE, IMM_V, 0) });
    v.push(row("mov.moffs", 0, 0, 0xA0, 0, RM_NONE, SZ_BYTE, MOFFS, NO32 | M32));
    v.push(row("mov.moffs", 0, 0, 0xA1, 0, RM_NONE, SZ_WIDE, MOFFS, NO32 | M32));
    v.push(row("mov.moffs", 0, 0, 0xA2, 0, RM_NONE, SZ_BYTE, MOFFS, NO32 | M32));
    v.push(row("mov.moffs", 0, 0, 0xA3, 0, RM_NONE, SZ_WIDE, MOFFS, NO32 | M32));
    v.push(row("mov.sreg", 0, 0, 0x8C, -1, RM_ANY, SZ_WIDE, IMM_NONE, RARE));
    v.push(row("mov.sreg", 0, 0, 0x8E, -1, RM_ANY, SZ_WIDE, IMM_NONE, RARE));
    v.push(row("lea", 0, 0, 0x8D, -1, RM_MEM, SZ_WIDE, IMM_NONE, 0));
    v.push(row("xchg", 0, 0, 0x86, -1, RM_ANY, SZ_BYTE, IMM_NONE, 0));
    v.push(row("xchg", 0, 0, 0x87, -1, RM_ANY, SZ_WIDE, IMM_NONE, 0));
    v.push(Row { plus_r: true, ..row("xchg", 0, 0, 0x90, 0, RM_NONE, SZ_WIDE, IMM_NONE, 0) });
    v.push(row("test", 0, 0, 0x84, -1, RM_ANY, SZ_BYTE, IMM_NONE, 0));
    v.push(row("test", 0, 0, 0x85, -1, RM_ANY, SZ_WIDE, IMM_NONE, 0));
    v.push(row("test", 0, 0, 0xA8, 0, RM_NONE, SZ_BYTE, IMM_B, 0));
    v.push(row("test", 0, 0, 0xA9, 0, RM_NONE, SZ_WIDE, IMM_Z, 0));
    v.push(row("imul", 0, 0, 0x69, -1, RM_ANY, SZ_WIDE, IMM_Z, 0));
    v.push(row("imul", 0, 0, 0x6B, -1, RM_ANY, SZ_WIDE, IMM_B, 0));
    v.push(row("imul", 0, 1, 0xAF, -1, RM_ANY, SZ_WIDE, IMM_NONE, 0));
    v.push(row("movsxd", 0, 0, 0x63, -1, RM_ANY, SZ_WIDE, IMM_NONE, NO32));
    // 0F map
    for (n, cc) in CC.iter().enumerate() {
        v.push(row(leak(format!("set{}", cc)), 0, 1, 0x90 + n as u8, 0, RM_ANY, SZ_BYTE, IMM_NONE, 0));
        v.push(row(leak(format!("cmov{}", cc)), 0, 1, 0x40 + n as u8, -1, RM_ANY, SZ_WIDE, IMM_NONE, 0));
        v.push(row(leak(format!("j{}", cc)), 0, 0, 0x70 + n as u8, 0, RM_NONE, SZ_FIXED, REL8, 0));
        v.push(row(leak(format!("j{}", cc)), 0, 1, 0x80 + n as u8, 0, RM_NONE, SZ_FIXED, REL32, 0));
    }
    v.push(row("movzx", 0, 1, 0xB6, -1, RM_ANY, SZ_WIDE, IMM_NONE, 0));
    v.push(row("movzx", 0, 1, 0xB7, -1, RM_ANY, SZ_WIDE, IMM_NONE, 0));
    v.push(row("movsx", 0, 1, 0xBE, -1, RM_ANY, SZ_WIDE, IMM_NONE, 0));
    v.push(row("movsx", 0, 1, 0xBF, -1, RM_ANY, SZ_WIDE, IMM_NONE, 0));
    for (op, n, mn) in [(0xA3u8, 4i8, "bt"), (0xAB, 5, "bts"), (0xB3, 6, "btr"), (0xBB, 7, "btc")] {
        let lk = if mn == "bt" { 0 } else { LOCK };
        v.push(row(mn, 0, 1, op, -1, RM_ANY, SZ_WIDE, IMM_NONE, lk));
        v.push(row(mn, 0, 1, 0xBA, n, RM_ANY, SZ_WIDE, IMM_B, lk));
    }
    v.push(row("bsf", 0, 1, 0xBC, -1, RM_ANY, SZ_WIDE, IMM_NONE, 0));
    v.push(row("bsr", 0, 1, 0xBD, -1, RM_ANY, SZ_WIDE, IMM_NONE, 0));
    v.push(row("shld", 0, 1, 0xA4, -1, RM_ANY, SZ_WIDE, IMM_B, 0));
    v.push(row("shld", 0, 1, 0xA5, -1, RM_ANY, SZ_WIDE, IMM_NONE, 0));
    v.push(row("shrd", 0, 1, 0xAC, -1, RM_ANY, SZ_WIDE, IMM_B, 0));
    v.push(row("shrd", 0, 1, 0xAD, -1, RM_ANY, SZ_WIDE, IMM_NONE, 0));
    v.push(row("cmpxchg", 0, 1, 0xB0, -1, RM_ANY, SZ_BYTE, IMM_NONE, LOCK));
    v.push(row("cmpxchg", 0, 1, 0xB1, -1, RM_ANY, SZ_WIDE, IMM_NONE, LOCK));
    v.push(row("xadd", 0, 1, 0xC0, -1, RM_ANY, SZ_BYTE, IMM_NONE, LOCK));
    v.push(row("xadd", 0, 1, 0xC1, -1, RM_ANY, SZ_WIDE, IMM_NONE, LOCK));
    v.push(Row { plus_r: true, ..row("bswap", 0, 1, 0xC8, 0, RM_NONE, SZ_WIDE, IMM_NONE, 0) });
    v.push(row("nop", 0, 1, 0x1F, 0, RM_ANY, SZ_WIDE, IMM_NONE, 0));
    for n in 0..4 {
        v.push(row("prefetch", 0, 1, 0x18, n, RM_MEM, SZ_FIXED, IMM_NONE, 0));
    }
    v.push(row("movnti", 0, 1, 0xC3, -1, RM_MEM, SZ_W, IMM_NONE, 0));
    v.push(row("ud2", 0, 1, 0x0B, 0, RM_NONE, SZ_FIXED, IMM_NONE, RARE));
    v.push(row("syscall", 0, 1, 0x05, 0, RM_NONE, SZ_FIXED, IMM_NONE, RARE | NO32));
    v.push(row("sysenter", 0, 1, 0x34, 0, RM_NONE, SZ_FIXED, IMM_NONE, RARE));
    // string instructions
    for (op, mn) in [(0xA4u8, "movs"), (0xA6, "cmps"), (0xAA, "stos"), (0xAC, "lods"), (0xAE, "scas")] {
        v.push(row(mn, 0, 0, op, 0, RM_NONE, SZ_BYTE, IMM_NONE, STR));
        v.push(row(mn, 0, 0, op + 1, 0, RM_NONE, SZ_WIDE, IMM_NONE, STR));
    }
    // no-operand
    v.push(row("cbw", 0, 0, 0x98, 0, RM_NONE, SZ_WIDE, IMM_NONE, 0));
    v.push(row("cwd", 0, 0, 0x99, 0, RM_NONE, SZ_WIDE, IMM_NONE, 0));
    for (op, mn) in [(0xF8u8, "clc"), (0xF9, "stc"), (0xF5, "cmc"), (0xFC, "cld"), (0xFD, "std"), (0x9E, "sahf"), (0x90, "nop"), (0x9B, "wait")] {
        v.push(row(mn, 0, 0, op, 0, RM_NONE, SZ_FIXED, IMM_NONE, 0));
    }
    v.push(row("pause", 0xF3, 0, 0x90, 0, RM_NONE, SZ_FIXED, IMM_NONE, 0));
    for (op, mn) in [(0xF4u8, "hlt"), (0xFA, "cli"), (0xFB, "sti"), (0xCC, "int3")] {
        v.push(row(mn, 0, 0, op, 0, RM_NONE, SZ_FIXED, IMM_NONE, RARE));
    }
    v.push(row("int", 0, 0, 0xCD, 0, RM_NONE, SZ_FIXED, IMM_B, RARE));
    v.push(row("leave", 0, 0, 0xC9, 0, RM_NONE, SZ_FIXED, IMM_NONE, NO32 | M32));
    v.push(row("ret", 0, 0, 0xC3, 0, RM_NONE, SZ_FIXED, IMM_NONE, NO32 | M32));
    v.push(row("ret", 0, 0, 0xC2, 0, RM_NONE, SZ_FIXED, IMM_W, NO32 | M32));
    v.push(Row { plus_r: true, ..row("push", 0, 0, 0x50, 0, RM_NONE, SZ_D64, IMM_NONE, NO32 | M32) });
    v.push(Row { plus_r: true, ..row("pop", 0, 0, 0x58, 0, RM_NONE, SZ_D64, IMM_NONE, NO32 | M32) });
    v.push(row("push", 0, 0, 0x6A, 0, RM_NONE, SZ_D64, IMM_B, NO32 | M32));
    v.push(row("push", 0, 0, 0x68, 0, RM_NONE, SZ_D64, IMM_Z, NO32 | M32));
    for op in [0xA0u8, 0xA8] {
        v.push(row("push.sreg", 0, 1, op, 0, RM_NONE, SZ_D64, IMM_NONE, NO32 | RARE));
        v.push(row("pop.sreg", 0, 1, op + 1, 0, RM_NONE, SZ_D64, IMM_NONE, NO32 | RARE));
    }
    v.push(row("call", 0, 0, 0xE8, 0, RM_NONE, SZ_FIXED, REL32, NO32 | M32));
    v.push(row("jmp", 0, 0, 0xE9, 0, RM_NONE, SZ_FIXED, REL32, 0));
    v.push(row("jmp", 0, 0, 0xEB, 0, RM_NONE, SZ_FIXED, REL8, 0));
    for (op, mn) in [(0xE0u8, "loopne"), (0xE1, "loope"), (0xE2, "loop"), (0xE3, "jrcxz")] {
        v.push(row(mn, 0, 0, op, 0, RM_NONE, SZ_FIXED, REL8, NO32 | M32));
    }
    // 32-bit mode only: inc/dec r32 short forms (REX prefixes in 64-bit mode)
    v.push(Row { plus_r: true, ..row("inc.short", 0, 0, 0x40, 0, RM_NONE, SZ_D64, IMM_NONE, NO32 | M32 | ONLY32) });
    v.push(Row { plus_r: true, ..row("dec.short", 0, 0, 0x48, 0, RM_NONE, SZ_D64, IMM_NONE, NO32 | M32 | ONLY32) });
    // SSE subset
    let s = SSE | NO32;
    for (pfx, op, mn) in [
        (0u8, 0x28u8, "movaps"), (0, 0x29, "movaps"), (0x66, 0x28, "movapd"), (0x66, 0x29, "movapd"), (0, 0x10, "movups"), (0, 0x11, "movups"),
        (0x66, 0x6F, "movdqa"), (0x66, 0x7F, "movdqa"), (0xF3, 0x6F, "movdqu"), (0xF3, 0x7F, "movdqu"), (0xF3, 0x7E, "movq"), (0x66, 0xD6, "movq"),
        (0x66, 0xEF, "pxor"), (0x66, 0xEB, "por"), (0x66, 0xD4, "paddq"), (0x66, 0xF8, "psubb"), (0x66, 0xFB, "psubq"), (0x66, 0x74, "pcmpeqb"),
        (0x66, 0x76, "pcmpeqd"), (0x66, 0xDA, "pminub"), (0x66, 0x60, "punpcklbw"), (0x66, 0x61, "punpcklwd"),
    ] {
        v.push(row(mn, pfx, 1, op, -1, RM_ANY, SZ_FIXED, IMM_NONE, s));
    }
    // SSE2 scalar move: capstone names it like the string instruction MOVSD
    v.push(row("movsd.sse", 0xF2, 1, 0x10, -1, RM_ANY, SZ_FIXED, IMM_NONE, s));
    v.push(row("movsd.sse", 0xF2, 1, 0x11, -1, RM_ANY, SZ_FIXED, IMM_NONE, s));
    v.push(row("movd", 0x66, 1, 0x6E, -1, RM_ANY, SZ_W, IMM_NONE, s));
    v.push(row("movd", 0x66, 1, 0x7E, -1, RM_ANY, SZ_W, IMM_NONE, s));
    for (op, mn) in [(0x16u8, "movhpd"), (0x17, "movhpd"), (0x12, "movlpd"), (0x13, "movlpd")] {
        v.push(row(mn, 0x66, 1, op, -1, RM_MEM, SZ_FIXED, IMM_NONE, s));
    }
    v.push(row("pmovmskb", 0x66, 1, 0xD7, -1, RM_REG, SZ_FIXED, IMM_NONE, s));
    v.push(row("pshufd", 0x66, 1, 0x70, -1, RM_ANY, SZ_FIXED, IMM_B, s));
    v.push(row("pslldq", 0x66, 1, 0x73, 7, RM_REG, SZ_FIXED, IMM_B, s));
    v.push(row("psrldq", 0x66, 1, 0x73, 3, RM_REG, SZ_FIXED, IMM_B, s));
    // MMX forms of the same opcodes (the lifter has no mm registers: expected "not accepted")
    v.push(row("paddq.mmx", 0, 1, 0xD4, -1, RM_ANY, SZ_FIXED, IMM_NONE, s | RARE));
    v.push(row("pxor.mmx", 0, 1, 0xEF, -1, RM_ANY, SZ_FIXED, IMM_NONE, s | RARE));
    v
}

struct Tables {
    rows: Vec<Row>,
    /// distinct labels with the indices of their rows, for amd64 and for the 32-bit subset
    groups64: Vec<Vec<usize>>,
    groups32: Vec<Vec<usize>>,
    groups32m: Vec<Vec<usize>>,
}

fn tables() -> &'static Tables {
    static T: OnceLock<Tables> = OnceLock::new();
    T.get_or_init(|| {
        let rows = build_rows();
        let mk = |pred: &dyn Fn(&Row) -> bool| {
            let mut names: Vec<&'static str> = Vec::new();
            let mut groups: Vec<Vec<usize>> = Vec::new();
            for (i, r) in rows.iter().enumerate() {
                if !pred(r) {
                    continue;
                }
                match names.iter().position(|n| *n == r.mn) {
                    Some(p) => groups[p].push(i),
                    None => {
                        names.push(r.mn);
                        groups.push(vec![i]);
                    }
                }
            }
            groups
        };
        let groups64 = mk(&|r| r.fl & ONLY32 == 0);
        let groups32 = mk(&|r| r.fl & NO32 == 0);
        let groups32m = mk(&|r| r.fl & M32 != 0);
        Tables { rows, groups64, groups32, groups32m }
    })
}

pub fn labels(m32: bool) -> Vec<&'static str> {
    let t = tables();
    let g = if m32 { &t.groups32 } else { &t.groups64 };
    g.iter().map(|v| t.rows[v[0]].mn).collect()
}

#[derive(Clone, Debug)]
pub struct Asm {
    pub bytes: Vec<u8>,
    pub label: &'static str,
}

fn le(v: u128, n: usize) -> Vec<u8> {
    (0..n).map(|i| (v >> (8 * i)) as u8).collect()
}

struct ModRm {
    bytes: Vec<u8>,
    rex_x: bool,
    rex_b: bool,
    /// byte offset (inside `bytes`) of a 4-byte RIP-relative displacement, if any
    rip_disp: Option<usize>,
}

/// ModRM (+SIB +disp) with reg field `reg3`; `want`: RM_ANY / RM_MEM / RM_REG.
fn gen_modrm(t: &mut Tape, reg3: u8, want: u8, m32: bool) -> ModRm {
    let nregs = if m32 { 8 } else { 16 };
    let reg_form = match want {
        RM_REG => true,
        RM_MEM => false,
        _ => t.chance(2, 5),
    };
    if reg_form {
        let r = t.below(nregs) as u8;
        return ModRm { bytes: vec![0xC0 | (reg3 << 3) | (r & 7)], rex_x: false, rex_b: r >= 8, rip_disp: None };
    }
    let md = t.weighted(&[5, 3, 3]) as u8; // 0: no disp, 1: disp8, 2: disp32
    let disp = |t: &mut Tape, md: u8| -> Vec<u8> {
        match md {
            1 => le(t.biased(8), 1),
            2 => {
                if t.chance(1, 2) {
                    le(t.biased(32), 4)
                } else {
                    // small signed displacement
                    le((t.below(4096) as i64 - 2048) as u128, 4)
                }
            }
            _ => vec![],
        }
    };
    // shape: 0 plain base, 1 SIB, 2 RIP-relative / absolute disp32 (mod=00 rm=101)
    let shape = t.weighted(&[5, 5, if m32 { 0 } else { 2 }]);
    match shape {
        0 => {
            let mut r = t.below(nregs) as u8;
            while r & 7 == 4 || (md == 0 && r & 7 == 5) {
                r = (r + 1) % nregs as u8;
            }
            let mut bytes = vec![(md << 6) | (reg3 << 3) | (r & 7)];
            bytes.extend(disp(t, md));
            ModRm { bytes, rex_x: false, rex_b: r >= 8, rip_disp: None }
        }
        1 => {
            let scale = t.below(4) as u8;
            let index = t.below(nregs) as u8; // 4 without REX.X = none
            let base = t.below(nregs) as u8;
            let mut bytes = vec![(md << 6) | (reg3 << 3) | 4, (scale << 6) | ((index & 7) << 3) | (base & 7)];
            if md == 0 && base & 7 == 5 {
                // no base, disp32 follows
                bytes.extend(disp(t, 2));
            } else {
                bytes.extend(disp(t, md));
            }
            ModRm { bytes, rex_x: index >= 8, rex_b: base >= 8, rip_disp: None }
        }
        _ => {
            let mut bytes = vec![(reg3 << 3) | 5];
            bytes.extend(le(t.biased(32), 4));
            ModRm { bytes, rex_x: false, rex_b: false, rip_disp: Some(1) }
        }
    }
}

const SEG_PREFIXES: [u8; 6] = [0x26, 0x2E, 0x36, 0x3E, 0x64, 0x65];

/// One instruction from the table.  `m32`: restrict to the mode-invariant subset (no REX, no 67h,
/// no mod=00 rm=101, no opcode whose meaning differs between the modes).
pub fn gen_encoded(t: &mut Tape, m32: bool) -> Asm {
    let tb = tables();
    let groups = if m32 {
        if t.chance(1, 3) {
            &tb.groups32m
        } else {
            &tb.groups32
        }
    } else {
        &tb.groups64
    };
    let mut r;
    loop {
        let g = &groups[t.below(groups.len())];
        r = tb.rows[g[t.below(g.len())]];
        if r.fl & RARE != 0 && !t.chance(1, 6) {
            continue;
        }
        if m32 && r.fl & SSE != 0 {
            continue;
        }
        break;
    }
    encode_row(t, &r, m32)
}

pub fn encode_row(t: &mut Tape, r: &Row, m32: bool) -> Asm {
    let nregs = if m32 { 8 } else { 16 };
    let mut legacy: Vec<u8> = Vec::new();
    let mut rex_w = false;
    let mut rex_r = false;
    let mut rex_x = false;
    let mut rex_b = false;
    // operand size
    let osz: usize = match r.sz {
        SZ_BYTE => 8,
        SZ_WIDE => *t.pick(if m32 { &[32usize, 16, 32, 16][..] } else { &[32usize, 64, 16, 64, 32][..] }),
        SZ_D64 => {
            if t.chance(1, if m32 { 16 } else { 6 }) {
                16
            } else {
                64
            }
        }
        SZ_W => {
            if !m32 && t.chance(1, 2) {
                64
            } else {
                32
            }
        }
        _ => 0,
    };
    match (r.sz, osz) {
        (SZ_WIDE, 16) | (SZ_D64, 16) => legacy.push(0x66),
        (SZ_WIDE, 64) | (SZ_W, 64) => rex_w = true,
        _ => {}
    }
    // a REX.W that means nothing (D64 instructions, fixed-size ones), seldom
    if !m32 && (r.sz == SZ_D64 || r.sz == SZ_FIXED) && t.chance(1, 24) {
        rex_w = true;
    }
    let mut opcode: Vec<u8> = Vec::new();
    if r.esc == 1 {
        opcode.push(0x0F);
    }
    let mut op = r.op;
    if r.plus_r {
        let reg = t.below(nregs) as u8;
        op |= reg & 7;
        rex_b = reg >= 8;
    }
    opcode.push(op);
    // ModRM
    let mut modrm: Vec<u8> = Vec::new();
    let mut rip_disp: Option<usize> = None;
    let mut is_mem = false;
    if r.rm != RM_NONE {
        let reg = if r.ext >= 0 {
            r.ext as u8
        } else {
            let x = t.below(if r.mn == "mov.sreg" { 6 } else { nregs }) as u8;
            rex_r = x >= 8;
            x & 7
        };
        let m = gen_modrm(t, reg, r.rm, m32);
        is_mem = m.bytes[0] >> 6 != 3;
        rex_x = m.rex_x;
        rex_b = m.rex_b;
        rip_disp = m.rip_disp;
        modrm = m.bytes;
    }
    // immediate
    let mut imm: Vec<u8> = Vec::new();
    match r.imm {
        IMM_B => imm = le(t.biased(8), 1),
        IMM_Z => imm = if osz == 16 { le(t.biased(16), 2) } else { le(t.biased(32), 4) },
        IMM_V => {
            imm = match osz {
                16 => le(t.biased(16), 2),
                64 => le(t.biased(64), 8),
                _ => le(t.biased(32), 4),
            }
        }
        IMM_W => imm = le(t.biased(16), 2),
        REL8 => imm = le(t.biased(8), 1),
        REL32 => {
            // stay inside the code area: +-0x7000 around the slot (boundary-biased within that)
            let span = 0x7000i64;
            let v = match t.below(6) {
                0 => 0,
                1 => -(t.below(16) as i64),
                2 => t.below(16) as i64,
                3 => span - t.below(4) as i64,
                4 => -span + t.below(4) as i64,
                _ => t.below((2 * span) as usize) as i64 - span,
            };
            imm = le(v as u128, 4);
        }
        MOFFS => {
            // filled with a scratch address by the state generator via `patch_moffs`
            imm = le(t.u64() as u128, 8);
        }
        _ => {}
    }
    // prefixes
    if r.fl & STR != 0 {
        match t.below(4) {
            0 => {}
            1 | 2 => legacy.push(0xF3),
            _ => legacy.push(0xF2),
        }
    } else if t.chance(1, 40) {
        legacy.push(*t.pick(&[0xF3u8, 0xF2]));
    }
    if (is_mem || r.fl & STR != 0 || r.imm == MOFFS) && t.chance(1, 10) {
        legacy.push(*t.pick(&SEG_PREFIXES));
    } else if t.chance(1, 50) {
        legacy.push(*t.pick(&SEG_PREFIXES));
    }
    let mut addr32 = false;
    if !m32 && (is_mem || r.fl & STR != 0 || r.imm == MOFFS || r.mn == "jrcxz" || r.mn.starts_with("loop")) && t.chance(1, 14) {
        legacy.push(0x67);
        addr32 = true;
    }
    if r.fl & LOCK != 0 && is_mem && t.chance(1, 16) {
        legacy.push(0xF0);
    }
    if t.chance(1, 24) {
        // a useless repeated / extra prefix
        if let Some(p) = legacy.first().copied() {
            legacy.push(p);
        } else {
            legacy.push(*t.pick(&[0x3Eu8, 0x2E, 0x26, 0x36]));
        }
    }
    // order of legacy prefixes: rotate
    if legacy.len() > 1 {
        let k = t.below(legacy.len());
        legacy.rotate_left(k);
    }
    if (addr32 || m32) && r.imm == MOFFS {
        imm.truncate(4);
    }
    let force_rex = !m32 && t.chance(1, 10);
    let mut out = legacy;
    if r.pfx != 0 {
        out.push(r.pfx);
    }
    let rex = 0x40 | ((rex_w as u8) << 3) | ((rex_r as u8) << 2) | ((rex_x as u8) << 1) | (rex_b as u8);
    if !m32 && (rex != 0x40 || force_rex) {
        out.push(rex);
    }
    out.extend(&opcode);
    let modrm_at = out.len();
    out.extend(&modrm);
    out.extend(&imm);
    let _ = (rip_disp, modrm_at);
    out.truncate(15);
    Asm { bytes: out, label: r.mn }
}

/// Byte-level mutation of an encoding: flip / replace / insert / delete bytes, splice prefixes.
pub fn mutate(t: &mut Tape, bytes: &[u8]) -> Vec<u8> {
    let mut b = bytes.to_vec();
    let n = 1 + t.below(2);
    for _ in 0..n {
        if b.is_empty() {
            b.push(t.raw() as u8);
            continue;
        }
        match t.below(7) {
            0 => {
                let i = t.below(b.len());
                b[i] ^= 1 << t.below(8);
            }
            1 => {
                let i = t.below(b.len());
                b[i] = t.raw() as u8;
            }
            2 => {
                let i = t.below(b.len() + 1);
                b.insert(i, t.raw() as u8);
            }
            3 => {
                if b.len() > 1 {
                    let i = t.below(b.len());
                    b.remove(i);
                }
            }
            4 => {
                let p = *t.pick(&[0x66u8, 0x67, 0xF2, 0xF3, 0xF0, 0x26, 0x2E, 0x36, 0x3E, 0x64, 0x65, 0x40, 0x41, 0x44, 0x48, 0x4F]);
                b.insert(0, p);
            }
            5 => {
                // REX twiddle: insert a REX before the first non-prefix byte
                let i = b.iter().position(|x| ![0x66, 0x67, 0xF2, 0xF3, 0xF0, 0x26, 0x2E, 0x36, 0x3E, 0x64, 0x65].contains(x)).unwrap_or(0);
                b.insert(i, 0x40 | t.below(16) as u8);
            }
            _ => {
                let i = t.below(b.len());
                b[i] = *t.pick(&[0x00u8, 0xFF, 0x80, 0x7F, 0x0F, 0xC0, 0x05, 0x04, 0x25, 0x24]);
            }
        }
    }
    b.truncate(15);
    if b.is_empty() {
        b.push(0x90);
    }
    b
}

/// Uniformly random 1-15 byte string.
pub fn random_bytes(t: &mut Tape) -> Vec<u8> {
    let n = 1 + t.below(15);
    (0..n).map(|_| t.raw() as u8).collect()
}
