//! Run the lifted per-instruction graph with `fv::refil::Machine` (the reference IL interpreter)
//! from the IL state that corresponds to a machine state, and report the final scalars, the
//! memory changes and the next instruction address.
//!
//! Memory is the two areas of the native runner as a little-endian byte map.  `RefMem` is a sparse
//! `BTreeMap`; copying 128 KiB into it per case would dominate the run time, so it is populated
//! lazily: the machine is run, and when it faults on an address that *is* mapped in the initial
//! image, the 256-byte chunk around it is added and the run restarts from the initial state.
//! The observable result is exactly that of running on the full image.

#![allow(dead_code)]

use falcon::il;
use fv::bv::Bv;
use fv::refil::{eval, Effect, Fault, FnView, Loc, Machine, RefMem, RefState, Scalars};
use std::collections::{BTreeMap, BTreeSet};

#[derive(Clone, Debug)]
pub enum IlFail {
    /// the IL faulted (undefined scalar, unmapped access, sort error, division by zero, no / two
    /// enabled edges, ...)
    Fault(Fault),
    /// no unique enabled successor at the end of the instruction
    Successors(String),
    StepLimit,
    TooManyRestarts,
}

#[derive(Clone, Debug)]
pub struct IlOut {
    pub scalars: Scalars,
    /// bytes whose final value differs from the initial image (or that lie outside it)
    pub mem_changes: BTreeMap<u64, u8>,
    pub next: u64,
    /// how `next` was obtained: "branch" or "successor"
    pub next_from: &'static str,
    pub steps: u64,
}

const CHUNK: u64 = 256;

pub fn has_intrinsic(cfg: &il::ControlFlowGraph) -> Option<String> {
    for b in cfg.blocks() {
        for i in b.instructions() {
            if let il::Operation::Intrinsic { intrinsic } = i.operation() {
                return Some(intrinsic.mnemonic().to_string());
            }
        }
    }
    None
}

fn block_of(l: Loc) -> usize {
    match l {
        Loc::Instr(b, _) | Loc::Empty(b) => b,
        Loc::Edge(_, t) => t,
    }
}

/// `init_byte(a)`: the initial content of address `a`, None when unmapped.
pub fn run_il(
    cfg: &il::ControlFlowGraph,
    successors: &[(u64, Option<il::Expression>)],
    init_scalars: &Scalars,
    init_byte: &dyn Fn(u64) -> Option<u8>,
    prefetch: &[u64],
) -> Result<IlOut, IlFail> {
    let view = FnView::of_cfg(cfg);
    let mut mem = RefMem::new(false);
    let mut populated: BTreeSet<u64> = BTreeSet::new();
    let populate = |mem: &mut RefMem, populated: &mut BTreeSet<u64>, a: u64| -> bool {
        let c = a / CHUNK;
        if populated.contains(&c) {
            return false;
        }
        let mut any = false;
        for x in c * CHUNK..(c + 1) * CHUNK {
            if let Some(b) = init_byte(x) {
                mem.bytes.insert(x, b);
                any = true;
            }
        }
        populated.insert(c);
        any
    };
    for a in prefetch {
        if init_byte(*a).is_some() {
            populate(&mut mem, &mut populated, *a);
            populate(&mut mem, &mut populated, a.wrapping_add(CHUNK - 1));
            populate(&mut mem, &mut populated, a.wrapping_sub(CHUNK - 1));
        }
    }
    let mut restarts = 0;
    'restart: loop {
        let state = RefState { scalars: init_scalars.clone(), mem: mem.clone() };
        let mut m = Machine::new(&view, state).map_err(IlFail::Fault)?;
        let mut branch: Option<u64> = None;
        let mut steps = 0u64;
        loop {
            steps += 1;
            if steps > 200_000 {
                return Err(IlFail::StepLimit);
            }
            let blk = block_of(m.loc);
            match m.step() {
                Ok(Effect::Branch { target }) => {
                    branch = Some(target);
                    break;
                }
                Ok(_) => {}
                Err(Fault::NoEdge) if m.last_effect.is_some() && view.out_edges(blk).is_empty() => break,
                Err(Fault::Unmapped(a)) if init_byte(a).is_some() && !populated.contains(&(a / CHUNK)) => {
                    restarts += 1;
                    if restarts > 700 {
                        return Err(IlFail::TooManyRestarts);
                    }
                    populate(&mut mem, &mut populated, a);
                    continue 'restart;
                }
                Err(f) => return Err(IlFail::Fault(f)),
            }
        }
        // next instruction address
        let (next, next_from) = match branch {
            Some(t) => (t, "branch"),
            None => {
                let mut enabled: Vec<u64> = Vec::new();
                for (addr, cond) in successors {
                    let on = match cond {
                        None => true,
                        Some(c) => {
                            let v = eval(c, &m.state.scalars).map_err(IlFail::Fault)?;
                            if v.w != 1 {
                                return Err(IlFail::Fault(Fault::Sort("successor condition is not 1 bit".into())));
                            }
                            v.is_one()
                        }
                    };
                    if on {
                        enabled.push(*addr);
                    }
                }
                if enabled.len() != 1 {
                    return Err(IlFail::Successors(format!("{} enabled successors {:x?} of {}", enabled.len(), enabled, successors.len())));
                }
                (enabled[0], "successor")
            }
        };
        let mut mem_changes = BTreeMap::new();
        for (a, v) in &m.state.mem.bytes {
            if init_byte(*a) != Some(*v) {
                mem_changes.insert(*a, *v);
            }
        }
        return Ok(IlOut { scalars: m.state.scalars.clone(), mem_changes, next, next_from, steps });
    }
}

pub fn bv64(v: u64) -> Bv {
    Bv::from_u64(v, 64)
}
