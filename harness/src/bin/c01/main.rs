//! C01 - x86/amd64 lifter agrees with the processor on every instruction and state.
//!
//! Domain: instruction encodings from a table-driven encoder, byte-level mutations of them and
//! random byte strings (decoded only by falcon/capstone) x boundary-biased machine states.
//! Oracle: the host CPU (native single-instruction runner, `cpu.rs`).  Relation: running the
//! lifted per-instruction graph with the reference IL interpreter from the corresponding IL
//! state ends with the same GPRs, XMM registers, memory, CF/ZF/SF/OF/DF and next instruction
//! address - except for results the architecture leaves undefined (DESIGN.md Appendix A).

mod cmp;
mod cpu;
mod dec;
mod gen;
mod model32;
mod run_il;
mod x86_asm;

use fv::engine::{self, Failure, Obs, Spec, Tier};
use fv::tape::from_tape;
use gen::Case;

fn selftest() -> std::process::ExitCode {
    use cpu::*;
    let slot = CODE_BASE + 0x8000;
    let mut gpr = [0u64; 16];
    for (i, g) in gpr.iter_mut().enumerate() {
        *g = 0x1111_1111_1111_1111u64.wrapping_mul(i as u64 + 1);
    }
    gpr[4] = SCRATCH_BASE + 0x8000;
    let mut xmm = [[0u8; 16]; 16];
    for (i, x) in xmm.iter_mut().enumerate() {
        for (j, b) in x.iter_mut().enumerate() {
            *b = (i * 16 + j) as u8;
        }
    }
    type Prep = Box<dyn Fn(&mut [u64; 16], &mut Vec<(u64, u64, u8)>, &mut u64)>;
    let tests: Vec<(&str, Vec<u8>, Prep)> = vec![
        ("add rax,rbx", vec![0x48, 0x01, 0xd8], Box::new(|_, _, _| {})),
        ("mov ah,bl", vec![0x88, 0xdc], Box::new(|_, _, _| {})),
        ("push rax", vec![0x50], Box::new(|_, _, _| {})),
        ("jmp +0x100", vec![0xe9, 0x00, 0x01, 0x00, 0x00], Box::new(|_, _, _| {})),
        ("ret", vec![0xc3], Box::new(|g, p, _| p.push((g[4], CODE_BASE + 0x1234, 8)))),
        ("pxor xmm1,xmm2", vec![0x66, 0x0f, 0xef, 0xca], Box::new(|_, _, _| {})),
        ("rep stosb", vec![0xf3, 0xaa], Box::new(|g, _, _| {
            g[1] = 5;
            g[7] = SCRATCH_BASE + 0x100;
        })),
        ("std", vec![0xfd], Box::new(|_, _, _| {})),
        ("div rbx (0)", vec![0x48, 0xf7, 0xf3], Box::new(|g, _, _| g[3] = 0)),
        ("mov [rip+0],eax", vec![0x89, 0x05, 0, 0, 0, 0], Box::new(|_, _, _| {})),
        ("jmp rax (scratch)", vec![0xff, 0xe0], Box::new(|g, _, _| g[0] = SCRATCH_BASE + 0x40)),
        ("syscall", vec![0x0f, 0x05], Box::new(|g, _, _| g[0] = 39)),
        ("jmp $", vec![0xeb, 0xfe], Box::new(|_, _, _| {})),
        ("sahf; flags", vec![0x9e], Box::new(|g, _, f| {
            g[0] = 0xd500;
            *f = F_DF | F_OF;
        })),
        ("add rax,rbx again", vec![0x48, 0x01, 0xd8], Box::new(|_, _, _| {})),
        ("nop, rsp unmapped", vec![0x90], Box::new(|g, _, _| g[4] = 0x7000_0000)),
        ("nop, rsp=0", vec![0x90], Box::new(|g, _, _| g[4] = 0)),
        ("nop, rsp=-1", vec![0x90], Box::new(|g, _, _| g[4] = u64::MAX)),
    ];
    for (name, code, prep) in tests {
        let mut g = gpr;
        let mut pokes = Vec::new();
        let mut flags = F_CF | F_ZF;
        prep(&mut g, &mut pokes, &mut flags);
        let t0 = std::time::Instant::now();
        let out = with_runner(|r| r.run(&CpuIn { code: &code, slot, gpr: g, flags, xmm, pokes: &pokes }));
        let dt = t0.elapsed();
        println!("{:22} {:?} next=0x{:x} rflags=0x{:x} ({:?})", name, out.stop, out.next, out.rflags, dt);
        for i in 0..16 {
            if out.gpr[i] != g[i] {
                println!("    {} 0x{:x} -> 0x{:x}", GPR_NAMES[i], g[i], out.gpr[i]);
            }
            if out.xmm[i] != xmm[i] {
                println!("    xmm{} {:02x?} -> {:02x?}", i, xmm[i], out.xmm[i]);
            }
        }
        if !out.mem_diff.is_empty() {
            println!("    mem {:x?}", &out.mem_diff[..out.mem_diff.len().min(12)]);
        }
    }
    let (s, w) = with_runner(|r| (r.seccomp, r.watchdog));
    println!("seccomp={} watchdog={}", s, w);
    let code = vec![0x48, 0x01, 0xd8];
    let t0 = std::time::Instant::now();
    for _ in 0..20000 {
        let out = with_runner(|r| r.run(&CpuIn { code: &code, slot, gpr, flags: 0, xmm, pokes: &[] }));
        assert_eq!(out.stop, Stop::Trap);
    }
    println!("20000 runs in {:?}", t0.elapsed());
    std::process::ExitCode::SUCCESS
}

/// Development aid: `C01_TRIAGE=<file>` turns every violation into a line of that file (signature,
/// tab, one-line rendering) and lets the search continue, so that all disagreements of a run can be
/// grouped.  Never set by the registered check.
fn check(case: &Case, obs: &mut Obs) -> Result<(), Failure> {
    match cmp::check_case(case, obs) {
        Ok(()) => Ok(()),
        Err(f) => {
            if let Ok(path) = std::env::var("C01_TRIAGE") {
                use std::io::Write;
                if let Ok(mut fh) = std::fs::OpenOptions::new().create(true).append(true).open(path) {
                    let first = f.msg.lines().next().unwrap_or("");
                    let line = format!("{}\t{}\t{}\n", f.sig, first, serde_json::to_string(case).unwrap_or_default());
                    let _ = fh.write_all(line.as_bytes());
                }
                obs.count("triage-failures", 1);
                return Ok(());
            }
            Err(f)
        }
    }
}

fn main() -> std::process::ExitCode {
    if std::env::args().nth(1).as_deref() == Some("selftest") {
        let h = std::thread::Builder::new().stack_size(64 << 20).spawn(selftest).unwrap();
        return h.join().unwrap();
    }
    if std::env::args().nth(1).as_deref() == Some("debug-replay") {
        // run one replay file with the default panic hook (development aid)
        let h = std::thread::Builder::new().stack_size(256 << 20).spawn(|| {
            let text = std::fs::read_to_string(std::env::args().nth(2).unwrap()).unwrap();
            let v: serde_json::Value = serde_json::from_str(&text).unwrap();
            let case: Case = serde_json::from_value(v.get("case").cloned().unwrap_or(v)).unwrap();
            println!("{}", cmp::render(&case));
            let mut obs = Obs::default();
            match cmp::check_case(&case, &mut obs) {
                Ok(()) => println!("PASS"),
                Err(f) => println!("FAIL {}\n{}", f.sig, f.msg),
            }
        }).unwrap();
        let _ = h.join();
        return std::process::ExitCode::SUCCESS;
    }
    if std::env::args().nth(1).as_deref() == Some("lift") {
        // c01 lift <64|32> <hex bytes>: show decode + lifted IL (development aid)
        let mode64 = std::env::args().nth(2).as_deref() != Some("32");
        let hex: String = std::env::args().skip(3).collect::<Vec<_>>().join("");
        let hex: String = hex.chars().filter(|c| c.is_ascii_hexdigit()).collect();
        let bytes: Vec<u8> = (0..hex.len() / 2).map(|i| u8::from_str_radix(&hex[2 * i..2 * i + 2], 16).unwrap()).collect();
        match dec::decode(mode64, &bytes, gen::SLOT) {
            None => println!("undecodable"),
            Some(d) => {
                println!("{} {}  len={} form={} prefixes={} ops={:?}", d.mnemonic, d.op_str, d.len, d.form(), d.prefix_set(), d.ops);
                match cmp::lift(mode64, &bytes[..d.len], gen::SLOT) {
                    cmp::Lifted::Ok(b) => {
                        for (a, g) in b.instructions() {
                            println!("@0x{:x}\n{}", a, g);
                        }
                        println!("successors: {:?}", b.successors().iter().map(|(a, c)| format!("0x{:x} if {}", a, c.as_ref().map(|c| c.to_string()).unwrap_or("-".into()))).collect::<Vec<_>>());
                    }
                    cmp::Lifted::SortError => println!("Err(Sort)"),
                    cmp::Lifted::NotAccepted(e) => println!("not accepted: {}", e),
                    cmp::Lifted::Panic(p) => println!("panic: {}", p),
                    cmp::Lifted::Undecodable => {}
                }
            }
        }
        return std::process::ExitCode::SUCCESS;
    }
    if std::env::args().nth(1).as_deref() == Some("labels") {
        println!("{:?}", x86_asm::labels(false));
        println!("{:?}", x86_asm::labels(true));
        return std::process::ExitCode::SUCCESS;
    }
    let mut spec = Spec::new(
        "C01",
        "instruction encodings from a table-driven encoder over every form the x86 dispatcher accepts (70%), byte-level mutations of them (20%) and random 1-15 byte strings (10%), in amd64 mode (3/4) and in the mode-invariant subset for 32-bit x86 (1/4), each with one boundary-biased machine state (GPRs, XMM, flags, scratch memory) aimed with capstone's operand list so that memory operands land in the scratch area; a candidate is a case when falcon lifts it; non-trivial = comparable (no Intrinsic, no FS/GS override, mode-invariant if 32-bit) and the CPU completed the instruction without a fault, so that all registers, flags, memory and the next address were compared; distinct = (mode, capstone mnemonic, operand-form signature, prefix set)",
        Box::new(|_t: Tier| from_tape(700, gen::decode_case)),
        |t| t.pick(600_000, 30_000_000),
        check,
    );
    spec.render = cmp::render;
    spec.assumptions = vec![
        "the host CPU (x86-64, this VM) is the reference for both modes; 32-bit cases are restricted to encodings that decode to the same operation in both modes, run in long mode with zero upper register halves and compared on the low 32 bits".into(),
        "results the Intel SDM / AMD APM leave undefined are masked per DESIGN.md Appendix A; PF and AF are never compared".into(),
        "segment bases CS/DS/ES/SS are zero (flat user-mode segments); FS/GS overrides are excluded".into(),
        "a native fault (#DE #GP #PF #UD ...) excludes the state; instructions lifted to an Intrinsic are not executed".into(),
    ];
    spec.floors = cmp::floors();
    spec.workers = |t| t.pick(8, 16);
    spec.case_timeout_s = 120;
    spec.crash_sig = |c: &Case| format!("C01|{}|{}", if c.mode == 64 { "amd64" } else { "x86" }, c.label);
    engine::main(spec)
}
