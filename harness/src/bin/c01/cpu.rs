//! Native differential runner: executes ONE x86-64 instruction on the host CPU from a fully
//! specified register / flag / XMM / memory state and reports the complete state afterwards.
//!
//! Mechanism (DESIGN.md, C01 "Engine"):
//! * a 64 KiB *code* area at `CODE_BASE` (below 2 GiB) backed by a memfd that is mapped twice: an
//!   R-X view that executes and an RW alias (kernel-chosen address, far away) the harness writes
//!   through.  The executing view is filled with `0xCC`, so whatever the tested instruction does
//!   next - fall through, jump inside the area - the next byte fetched is `int3`;
//! * a 64 KiB *scratch* data/stack area at `SCRATCH_BASE` whose pristine image is a fixed
//!   pseudo-random function of the address; both areas sit inside PROT_NONE guard reservations;
//! * a `global_asm!` trampoline saves the host context, serialises (cpuid), loads XMM0-15, RFLAGS
//!   (only CF PF AF ZF SF DF OF are ever varied), all sixteen GPRs including RSP from the case and
//!   jumps to the slot;
//! * the SIGTRAP handler (on its own `sigaltstack`) copies the user context into the result and
//!   rewrites the context so that `sigreturn` resumes at the trampoline's recovery label with the
//!   host stack; SIGSEGV/SIGBUS/SIGILL/SIGFPE/SIGSYS/SIGALRM do the same and record a fault kind.
//!   XMM0-15 are stored by the recovery label itself (sigreturn has just restored them from the
//!   frame, i.e. they are the values the tested instruction left) - this avoids depending on the
//!   XSAVE layout of `uc_mcontext.fpregs`;
//! * safety nets for the case that the CPU decodes a different length than the lifter and runs
//!   bytes nobody vetted: a seccomp filter turns any system call issued from inside the code area
//!   into SIGSYS, and a per-thread interval timer breaks endless loops (`jmp $`).
//!
//! Everything lives in the worker process; one runner (one thread) per process.

#![allow(dead_code)]

use std::cell::RefCell;
use std::sync::atomic::{AtomicBool, AtomicPtr, Ordering};

pub const CODE_BASE: u64 = 0x1000_0000;
pub const SCRATCH_BASE: u64 = 0x2000_0000;
pub const AREA_SIZE: u64 = 0x1_0000;
const GUARD: u64 = 0x1_0000;

/// RFLAGS bits the runner lets a case choose.
pub const F_CF: u64 = 1 << 0;
pub const F_PF: u64 = 1 << 2;
pub const F_AF: u64 = 1 << 4;
pub const F_ZF: u64 = 1 << 6;
pub const F_SF: u64 = 1 << 7;
pub const F_DF: u64 = 1 << 10;
pub const F_OF: u64 = 1 << 11;
pub const F_VARIED: u64 = F_CF | F_PF | F_AF | F_ZF | F_SF | F_DF | F_OF;

/// GPR order everywhere in this crate: x86 encoding order.
pub const GPR_NAMES: [&str; 16] = [
    "rax", "rcx", "rdx", "rbx", "rsp", "rbp", "rsi", "rdi", "r8", "r9", "r10", "r11", "r12", "r13", "r14", "r15",
];

#[repr(C)]
pub struct RunCtx {
    // inputs
    gpr: [u64; 16],
    rflags: u64,
    xmm: [[u8; 16]; 16],
    // host
    host_rsp: u64,
    // outputs
    out_gpr: [u64; 16],
    out_rflags: u64,
    out_rip: u64,
    out_xmm: [[u8; 16]; 16],
    signo: u64,
    si_code: i64,
    si_addr: u64,
    trapno: u64,
    err: u64,
    cr2: u64,
    in_run: u64,
    ticks: u64,
}

#[no_mangle]
static mut FV_C01_TARGET: u64 = 0;
#[no_mangle]
static FV_C01_MXCSR: u32 = 0x1f80;

extern "C" {
    fn fv_c01_enter(ctx: *mut RunCtx);
    static fv_c01_recover: u8;
}

macro_rules! off {
    ($f:ident) => {
        core::mem::offset_of!(RunCtx, $f)
    };
}

core::arch::global_asm!(
    ".text",
    ".p2align 4",
    ".global fv_c01_enter",
    ".global fv_c01_recover",
    "fv_c01_enter:",
    "push rbx",
    "push rbp",
    "push r12",
    "push r13",
    "push r14",
    "push r15",
    "sub rsp, 8",
    "stmxcsr [rsp]",
    "mov [rdi + {host_rsp}], rsp",
    // the slot was written through the RW alias: serialise before fetching from the R-X view
    "xor eax, eax",
    "cpuid",
    "ldmxcsr [rip + FV_C01_MXCSR]",
    "movdqu xmm0,  [rdi + {xmm} + 0x00]",
    "movdqu xmm1,  [rdi + {xmm} + 0x10]",
    "movdqu xmm2,  [rdi + {xmm} + 0x20]",
    "movdqu xmm3,  [rdi + {xmm} + 0x30]",
    "movdqu xmm4,  [rdi + {xmm} + 0x40]",
    "movdqu xmm5,  [rdi + {xmm} + 0x50]",
    "movdqu xmm6,  [rdi + {xmm} + 0x60]",
    "movdqu xmm7,  [rdi + {xmm} + 0x70]",
    "movdqu xmm8,  [rdi + {xmm} + 0x80]",
    "movdqu xmm9,  [rdi + {xmm} + 0x90]",
    "movdqu xmm10, [rdi + {xmm} + 0xa0]",
    "movdqu xmm11, [rdi + {xmm} + 0xb0]",
    "movdqu xmm12, [rdi + {xmm} + 0xc0]",
    "movdqu xmm13, [rdi + {xmm} + 0xd0]",
    "movdqu xmm14, [rdi + {xmm} + 0xe0]",
    "movdqu xmm15, [rdi + {xmm} + 0xf0]",
    "mov qword ptr [rdi + {in_run}], 1",
    "push qword ptr [rdi + {rflags}]",
    "popfq",
    // mov does not touch flags
    "mov rax, [rdi + {gpr} + 0x00]",
    "mov rcx, [rdi + {gpr} + 0x08]",
    "mov rdx, [rdi + {gpr} + 0x10]",
    "mov rbx, [rdi + {gpr} + 0x18]",
    "mov rbp, [rdi + {gpr} + 0x28]",
    "mov rsi, [rdi + {gpr} + 0x30]",
    "mov r8,  [rdi + {gpr} + 0x40]",
    "mov r9,  [rdi + {gpr} + 0x48]",
    "mov r10, [rdi + {gpr} + 0x50]",
    "mov r11, [rdi + {gpr} + 0x58]",
    "mov r12, [rdi + {gpr} + 0x60]",
    "mov r13, [rdi + {gpr} + 0x68]",
    "mov r14, [rdi + {gpr} + 0x70]",
    "mov r15, [rdi + {gpr} + 0x78]",
    "mov rsp, [rdi + {gpr} + 0x20]",
    "mov rdi, [rdi + {gpr} + 0x38]",
    "jmp qword ptr [rip + FV_C01_TARGET]",
    // the signal handler rewrites the context to continue here: rsp = host_rsp, rdi = ctx,
    // rflags = 0x202 (DF clear); xmm = what the tested instruction left
    "fv_c01_recover:",
    "cld",
    "movdqu [rdi + {oxmm} + 0x00], xmm0",
    "movdqu [rdi + {oxmm} + 0x10], xmm1",
    "movdqu [rdi + {oxmm} + 0x20], xmm2",
    "movdqu [rdi + {oxmm} + 0x30], xmm3",
    "movdqu [rdi + {oxmm} + 0x40], xmm4",
    "movdqu [rdi + {oxmm} + 0x50], xmm5",
    "movdqu [rdi + {oxmm} + 0x60], xmm6",
    "movdqu [rdi + {oxmm} + 0x70], xmm7",
    "movdqu [rdi + {oxmm} + 0x80], xmm8",
    "movdqu [rdi + {oxmm} + 0x90], xmm9",
    "movdqu [rdi + {oxmm} + 0xa0], xmm10",
    "movdqu [rdi + {oxmm} + 0xb0], xmm11",
    "movdqu [rdi + {oxmm} + 0xc0], xmm12",
    "movdqu [rdi + {oxmm} + 0xd0], xmm13",
    "movdqu [rdi + {oxmm} + 0xe0], xmm14",
    "movdqu [rdi + {oxmm} + 0xf0], xmm15",
    "ldmxcsr [rsp]",
    "add rsp, 8",
    "pop r15",
    "pop r14",
    "pop r13",
    "pop r12",
    "pop rbp",
    "pop rbx",
    "ret",
    host_rsp = const off!(host_rsp),
    xmm = const off!(xmm),
    oxmm = const off!(out_xmm),
    gpr = const off!(gpr),
    rflags = const off!(rflags),
    in_run = const off!(in_run),
);

static CTX: AtomicPtr<RunCtx> = AtomicPtr::new(std::ptr::null_mut());
static CLAIMED: AtomicBool = AtomicBool::new(false);

const SIGS: [libc::c_int; 7] = [
    libc::SIGTRAP,
    libc::SIGSEGV,
    libc::SIGBUS,
    libc::SIGILL,
    libc::SIGFPE,
    libc::SIGSYS,
    libc::SIGALRM,
];
static mut OLD: [Option<libc::sigaction>; 7] = [None; 7];

unsafe extern "C" fn on_signal(sig: libc::c_int, info: *mut libc::siginfo_t, ucv: *mut libc::c_void) {
    let ctx = CTX.load(Ordering::Relaxed);
    let in_run = !ctx.is_null() && std::ptr::read_volatile(&(*ctx).in_run) != 0;
    if sig == libc::SIGALRM {
        if !in_run {
            return;
        }
        (*ctx).ticks += 1;
        if (*ctx).ticks < 3 {
            return;
        }
    }
    if !in_run {
        // not ours (a genuine crash of the harness, or a Rust stack overflow): give the signal
        // back to whoever owned it and let the faulting instruction re-execute
        let idx = SIGS.iter().position(|s| *s == sig).unwrap_or(0);
        let old_ptr = std::ptr::addr_of!(OLD) as *const [Option<libc::sigaction>; 7];
        match (*old_ptr)[idx] {
            Some(ref old) => {
                libc::sigaction(sig, old, std::ptr::null_mut());
            }
            None => {
                libc::signal(sig, libc::SIG_DFL);
            }
        }
        return;
    }
    let uc = ucv as *mut libc::ucontext_t;
    let g = &mut (*uc).uc_mcontext.gregs;
    let c = &mut *ctx;
    let map: [usize; 16] = [
        libc::REG_RAX as usize,
        libc::REG_RCX as usize,
        libc::REG_RDX as usize,
        libc::REG_RBX as usize,
        libc::REG_RSP as usize,
        libc::REG_RBP as usize,
        libc::REG_RSI as usize,
        libc::REG_RDI as usize,
        libc::REG_R8 as usize,
        libc::REG_R9 as usize,
        libc::REG_R10 as usize,
        libc::REG_R11 as usize,
        libc::REG_R12 as usize,
        libc::REG_R13 as usize,
        libc::REG_R14 as usize,
        libc::REG_R15 as usize,
    ];
    for (i, r) in map.iter().enumerate() {
        c.out_gpr[i] = g[*r] as u64;
    }
    c.out_rflags = g[libc::REG_EFL as usize] as u64;
    c.out_rip = g[libc::REG_RIP as usize] as u64;
    c.signo = sig as u64;
    c.si_code = (*info).si_code as i64;
    c.si_addr = if sig == libc::SIGALRM || sig == libc::SIGSYS { 0 } else { (*info).si_addr() as u64 };
    c.trapno = g[libc::REG_TRAPNO as usize] as u64;
    c.err = g[libc::REG_ERR as usize] as u64;
    c.cr2 = g[libc::REG_CR2 as usize] as u64;
    g[libc::REG_RIP as usize] = std::ptr::addr_of!(fv_c01_recover) as i64;
    g[libc::REG_RSP as usize] = c.host_rsp as i64;
    g[libc::REG_RDI as usize] = ctx as i64;
    g[libc::REG_EFL as usize] = 0x202;
    std::ptr::write_volatile(&mut c.in_run, 0);
}

/// How the native execution ended.
#[derive(Clone, Debug, PartialEq, Eq)]
pub enum Stop {
    /// hit an `int3` landing pad; `next` is its address = the next instruction address
    Trap,
    /// the instruction completed and the *next fetch* faulted (jump/ret to a non-executable or
    /// unmapped address): the state is the completed state and `next` the branch target
    FetchFault,
    /// the instruction itself faulted (#DE #GP #PF #UD ...): state excluded
    Fault { signo: i32, code: i64, addr: u64, trapno: u64 },
    /// a system call was attempted from the code area (only possible when the CPU decodes the
    /// bytes differently from the lifter)
    Syscall,
    /// did not reach a landing pad within the watchdog period
    Timeout,
}

#[derive(Clone, Debug)]
pub struct CpuOut {
    pub stop: Stop,
    pub gpr: [u64; 16],
    pub rflags: u64,
    /// next instruction address (meaningful for Trap / FetchFault)
    pub next: u64,
    pub xmm: [[u8; 16]; 16],
    /// scratch bytes whose final value differs from the initial image (pristine + pokes), sorted
    pub mem_diff: Vec<(u64, u8)>,
}

pub struct CpuIn<'a> {
    /// instruction bytes, written at `slot` (must lie inside the code area)
    pub code: &'a [u8],
    pub slot: u64,
    pub gpr: [u64; 16],
    /// subset of `F_VARIED`
    pub flags: u64,
    pub xmm: [[u8; 16]; 16],
    /// (address inside scratch, little-endian value, number of bytes 1..=8)
    pub pokes: &'a [(u64, u64, u8)],
}

fn splitmix(mut x: u64) -> u64 {
    x = x.wrapping_add(0x9E37_79B9_7F4A_7C15);
    let mut z = x;
    z = (z ^ (z >> 30)).wrapping_mul(0xBF58_476D_1CE4_E5B9);
    z = (z ^ (z >> 27)).wrapping_mul(0x94D0_49BB_1331_11EB);
    z ^ (z >> 31)
}

/// The pristine scratch image: a fixed pseudo-random function of the address.
pub fn pristine_byte(addr: u64) -> u8 {
    (splitmix(addr >> 3) >> ((addr & 7) * 8)) as u8
}

pub fn in_scratch(a: u64) -> bool {
    (SCRATCH_BASE..SCRATCH_BASE + AREA_SIZE).contains(&a)
}
pub fn in_code(a: u64) -> bool {
    (CODE_BASE..CODE_BASE + AREA_SIZE).contains(&a)
}

/// Initial content of a byte of the two areas as a case defines it (None: unmapped).
pub fn initial_byte(a: u64, code: &[u8], slot: u64, pokes: &[(u64, u64, u8)]) -> Option<u8> {
    if in_scratch(a) {
        let mut b = pristine_byte(a);
        for (pa, v, n) in pokes {
            if a >= *pa && a < *pa + *n as u64 {
                b = (*v >> ((a - *pa) * 8)) as u8;
            }
        }
        Some(b)
    } else if in_code(a) {
        if a >= slot && a < slot + code.len() as u64 {
            Some(code[(a - slot) as usize])
        } else {
            Some(0xCC)
        }
    } else {
        None
    }
}

pub struct Runner {
    ctx: Box<RunCtx>,
    alias: *mut u8,
    pristine: Vec<u8>,
    image: Vec<u8>,
    pub seccomp: bool,
    pub watchdog: bool,
    pub runs: u64,
}

fn die(msg: &str) -> ! {
    panic!("C01 cpu runner: {} (errno {})", msg, std::io::Error::last_os_error());
}

impl Runner {
    /// Map the areas, install the alternate stack, handlers, seccomp filter and watchdog for the
    /// calling thread.  One runner per process.
    fn new() -> Runner {
        if CLAIMED.swap(true, Ordering::SeqCst) {
            panic!("C01 cpu runner: only one runner thread per process");
        }
        unsafe {
            // ---- code area: memfd mapped twice
            let name = b"fv-c01-code\0";
            let mut fd = libc::memfd_create(name.as_ptr() as *const libc::c_char, 0x10 /* MFD_EXEC */ | libc::MFD_CLOEXEC);
            if fd < 0 {
                fd = libc::memfd_create(name.as_ptr() as *const libc::c_char, libc::MFD_CLOEXEC);
            }
            if fd < 0 {
                die("memfd_create");
            }
            if libc::ftruncate(fd, AREA_SIZE as libc::off_t) != 0 {
                die("ftruncate");
            }
            let reserve = |base: u64| {
                let p = libc::mmap(
                    (base - GUARD) as *mut libc::c_void,
                    (AREA_SIZE + 2 * GUARD) as usize,
                    libc::PROT_NONE,
                    libc::MAP_PRIVATE | libc::MAP_ANONYMOUS | libc::MAP_FIXED_NOREPLACE | libc::MAP_NORESERVE,
                    -1,
                    0,
                );
                if p as u64 != base - GUARD {
                    die("cannot reserve a fixed low area");
                }
            };
            reserve(CODE_BASE);
            let p = libc::mmap(
                CODE_BASE as *mut libc::c_void,
                AREA_SIZE as usize,
                libc::PROT_READ | libc::PROT_EXEC,
                libc::MAP_SHARED | libc::MAP_FIXED,
                fd,
                0,
            );
            if p as u64 != CODE_BASE {
                die("mmap code view");
            }
            let alias = libc::mmap(
                std::ptr::null_mut(),
                AREA_SIZE as usize,
                libc::PROT_READ | libc::PROT_WRITE,
                libc::MAP_SHARED,
                fd,
                0,
            );
            if alias == libc::MAP_FAILED {
                die("mmap code alias");
            }
            libc::close(fd);
            std::ptr::write_bytes(alias as *mut u8, 0xCC, AREA_SIZE as usize);
            // ---- scratch area
            reserve(SCRATCH_BASE);
            let p = libc::mmap(
                SCRATCH_BASE as *mut libc::c_void,
                AREA_SIZE as usize,
                libc::PROT_READ | libc::PROT_WRITE,
                libc::MAP_PRIVATE | libc::MAP_ANONYMOUS | libc::MAP_FIXED,
                -1,
                0,
            );
            if p as u64 != SCRATCH_BASE {
                die("mmap scratch");
            }
            // ---- alternate signal stack for this thread
            let ss_size = 512 * 1024;
            let ss_mem = libc::mmap(
                std::ptr::null_mut(),
                ss_size,
                libc::PROT_READ | libc::PROT_WRITE,
                libc::MAP_PRIVATE | libc::MAP_ANONYMOUS,
                -1,
                0,
            );
            if ss_mem == libc::MAP_FAILED {
                die("mmap altstack");
            }
            let ss = libc::stack_t { ss_sp: ss_mem, ss_flags: 0, ss_size };
            if libc::sigaltstack(&ss, std::ptr::null_mut()) != 0 {
                die("sigaltstack");
            }
            // ---- handlers
            let mut sa: libc::sigaction = std::mem::zeroed();
            sa.sa_sigaction = on_signal as *const () as usize;
            sa.sa_flags = libc::SA_SIGINFO | libc::SA_ONSTACK | libc::SA_RESTART;
            libc::sigemptyset(&mut sa.sa_mask);
            for s in SIGS {
                libc::sigaddset(&mut sa.sa_mask, s);
            }
            for (i, s) in SIGS.iter().enumerate() {
                let mut old: libc::sigaction = std::mem::zeroed();
                if libc::sigaction(*s, &sa, &mut old) != 0 {
                    die("sigaction");
                }
                let old_ptr = std::ptr::addr_of_mut!(OLD) as *mut [Option<libc::sigaction>; 7];
                (*old_ptr)[i] = Some(old);
            }
            // the synchronous signals must be deliverable in this thread
            let mut set: libc::sigset_t = std::mem::zeroed();
            libc::sigemptyset(&mut set);
            for s in SIGS {
                libc::sigaddset(&mut set, s);
            }
            libc::pthread_sigmask(libc::SIG_UNBLOCK, &set, std::ptr::null_mut());
            // ---- watchdog: a periodic timer aimed at this thread
            let mut watchdog = false;
            let mut sev: libc::sigevent = std::mem::zeroed();
            sev.sigev_notify = libc::SIGEV_THREAD_ID;
            sev.sigev_signo = libc::SIGALRM;
            sev.sigev_notify_thread_id = libc::syscall(libc::SYS_gettid) as libc::c_int;
            let mut timer: libc::timer_t = std::mem::zeroed();
            if libc::timer_create(libc::CLOCK_MONOTONIC, &mut sev, &mut timer) == 0 {
                let period = libc::timespec { tv_sec: 0, tv_nsec: 50_000_000 };
                let its = libc::itimerspec { it_interval: period, it_value: period };
                watchdog = libc::timer_settime(timer, 0, &its, std::ptr::null_mut()) == 0;
            }
            // ---- seccomp: no system call may be issued from the code area
            let seccomp = install_seccomp();

            let mut pristine = vec![0u8; AREA_SIZE as usize];
            for (i, b) in pristine.iter_mut().enumerate() {
                *b = pristine_byte(SCRATCH_BASE + i as u64);
            }
            let image = pristine.clone();
            let mut ctx: Box<RunCtx> = Box::new(std::mem::zeroed());
            CTX.store(&mut *ctx as *mut RunCtx, Ordering::SeqCst);
            let mut r = Runner { ctx, alias: alias as *mut u8, pristine, image, seccomp, watchdog, runs: 0 };
            // warm-up: fault the pages in while the register state is harmless
            let mut gpr = [0u64; 16];
            gpr[4] = SCRATCH_BASE + AREA_SIZE / 2;
            for page in 0..(AREA_SIZE / 4096) {
                let slot = CODE_BASE + page * 4096 + 0x800;
                let out = r.run(&CpuIn { code: &[0x90], slot, gpr, flags: 0, xmm: [[0; 16]; 16], pokes: &[] });
                if out.stop != Stop::Trap || out.next != slot + 1 {
                    panic!("C01 cpu runner: warm-up failed: {:?}", out.stop);
                }
            }
            r
        }
    }

    /// Execute one instruction natively.
    pub fn run(&mut self, input: &CpuIn) -> CpuOut {
        assert!(!input.code.is_empty() && input.code.len() <= 32);
        assert!(input.slot >= CODE_BASE + 64 && input.slot + input.code.len() as u64 + 64 <= CODE_BASE + AREA_SIZE);
        self.runs += 1;
        unsafe {
            // initial scratch image = pristine + pokes
            self.image.copy_from_slice(&self.pristine);
            for (a, v, n) in input.pokes {
                for i in 0..(*n as u64).min(8) {
                    let x = a + i;
                    if in_scratch(x) {
                        self.image[(x - SCRATCH_BASE) as usize] = (*v >> (i * 8)) as u8;
                    }
                }
            }
            std::ptr::copy_nonoverlapping(self.image.as_ptr(), SCRATCH_BASE as *mut u8, AREA_SIZE as usize);
            // the instruction
            let so = (input.slot - CODE_BASE) as usize;
            std::ptr::copy_nonoverlapping(input.code.as_ptr(), self.alias.add(so), input.code.len());
            let c = &mut *self.ctx;
            c.gpr = input.gpr;
            c.rflags = 0x202 | (input.flags & F_VARIED);
            c.xmm = input.xmm;
            c.signo = 0;
            c.ticks = 0;
            c.in_run = 0;
            std::ptr::write_volatile(std::ptr::addr_of_mut!(FV_C01_TARGET), input.slot);
            std::sync::atomic::compiler_fence(Ordering::SeqCst);
            fv_c01_enter(c as *mut RunCtx);
            std::sync::atomic::compiler_fence(Ordering::SeqCst);
            // back to all-int3
            std::ptr::write_bytes(self.alias.add(so), 0xCC, input.code.len());

            let c = &*self.ctx;
            let signo = c.signo as i32;
            let (stop, next) = if signo == libc::SIGTRAP && in_code(c.out_rip.wrapping_sub(1)) && c.trapno == 3 {
                (Stop::Trap, c.out_rip - 1)
            } else if signo == libc::SIGSEGV && c.trapno == 14 && (c.err & 0x10) != 0 && c.cr2 == c.out_rip {
                (Stop::FetchFault, c.out_rip)
            } else if signo == libc::SIGSYS {
                (Stop::Syscall, c.out_rip)
            } else if signo == libc::SIGALRM {
                (Stop::Timeout, c.out_rip)
            } else {
                (Stop::Fault { signo, code: c.si_code, addr: c.si_addr, trapno: c.trapno }, c.out_rip)
            };
            // memory diff against the initial image
            let mut mem_diff = Vec::new();
            let now = std::slice::from_raw_parts(SCRATCH_BASE as *const u8, AREA_SIZE as usize);
            if now != &self.image[..] {
                for (chunk, (a, b)) in now.chunks(64).zip(self.image.chunks(64)).enumerate() {
                    if a != b {
                        for i in 0..64 {
                            if a[i] != b[i] {
                                mem_diff.push((SCRATCH_BASE + (chunk * 64 + i) as u64, a[i]));
                            }
                        }
                    }
                }
            }
            CpuOut { stop, gpr: c.out_gpr, rflags: c.out_rflags, next, xmm: c.out_xmm, mem_diff }
        }
    }
}

/// BPF: if the instruction pointer of the system call lies in the code area -> SIGSYS.
unsafe fn install_seccomp() -> bool {
    const LD_W_ABS: u16 = 0x20;
    const JEQ_K: u16 = 0x15;
    const JGE_K: u16 = 0x35;
    const RET_K: u16 = 0x06;
    const RET_ALLOW: u32 = 0x7fff_0000;
    const RET_TRAP: u32 = 0x0003_0000;
    let f = |code: u16, jt: u8, jf: u8, k: u32| libc::sock_filter { code, jt, jf, k };
    // seccomp_data: nr@0 arch@4 instruction_pointer@8 (lo@8 hi@12 on little endian)
    let lo = CODE_BASE as u32;
    let hi = (CODE_BASE + AREA_SIZE + 16) as u32;
    let prog = [
        f(LD_W_ABS, 0, 0, 12),       // A = ip.hi
        f(JEQ_K, 0, 4, 0),           // hi == 0 ? next : allow
        f(LD_W_ABS, 0, 0, 8),        // A = ip.lo
        f(JGE_K, 0, 2, lo),          // A >= lo ? next : allow
        f(JGE_K, 1, 0, hi),          // A >= hi ? allow : trap
        f(RET_K, 0, 0, RET_TRAP),
        f(RET_K, 0, 0, RET_ALLOW),
    ];
    let fprog = libc::sock_fprog { len: prog.len() as u16, filter: prog.as_ptr() as *mut libc::sock_filter };
    if libc::prctl(libc::PR_SET_NO_NEW_PRIVS, 1, 0, 0, 0) != 0 {
        return false;
    }
    libc::prctl(libc::PR_SET_SECCOMP, libc::SECCOMP_MODE_FILTER as libc::c_ulong, &fprog as *const libc::sock_fprog) == 0
}

thread_local! {
    static RUNNER: RefCell<Option<Runner>> = const { RefCell::new(None) };
}

/// Run `f` with this thread's runner (created on first use).
pub fn with_runner<T>(f: impl FnOnce(&mut Runner) -> T) -> T {
    RUNNER.with(|r| {
        let mut r = r.borrow_mut();
        if r.is_none() {
            *r = Some(Runner::new());
        }
        f(r.as_mut().unwrap())
    })
}
