//! The C01 oracle: lift, run natively, run the IL, compare with the undefined-result masks.

#![allow(dead_code)]

use crate::cpu::{self, CpuIn, Stop, F_CF, F_DF, F_OF, F_SF, F_ZF, GPR_NAMES};
use crate::dec::{self, Dec, Op, RegClass};
use crate::gen::{Case, SLOT};
use crate::run_il::{self, IlFail};
use falcon::translator::x86::{Amd64, X86};
use falcon::translator::{BlockTranslationResult, Options, Translator};
use fv::bv::Bv;
use fv::engine::{guard, Failure, Obs};
use fv::refil::Scalars;

pub const GPR32_NAMES: [&str; 8] = ["eax", "ecx", "edx", "ebx", "esp", "ebp", "esi", "edi"];

pub fn mode_name(c: &Case) -> &'static str {
    if c.mode == 64 {
        "amd64"
    } else {
        "x86"
    }
}

/// capstone prints prefixes as part of the mnemonic ("rep stosb", "lock add"): strip them
pub fn base_mnemonic(m: &str) -> &str {
    let mut m = m;
    loop {
        let mut changed = false;
        for p in ["rep ", "repe ", "repne ", "repz ", "repnz ", "lock ", "notrack ", "bnd ", "data16 ", "xacquire ", "xrelease "] {
            if let Some(r) = m.strip_prefix(p) {
                m = r;
                changed = true;
            }
        }
        if !changed {
            return m;
        }
    }
}

pub enum Lifted {
    Undecodable,
    NotAccepted(String),
    SortError,
    Panic(String),
    Ok(Box<BlockTranslationResult>),
}

pub fn lift(mode64: bool, bytes: &[u8], addr: u64) -> Lifted {
    let r = guard(|| {
        let o = Options::default();
        if mode64 {
            Amd64::new().translate_block(bytes, addr, &o)
        } else {
            X86::new().translate_block(bytes, addr, &o)
        }
    });
    match r {
        Err(pi) => Lifted::Panic(format!("{} ({}:{})", pi.msg, pi.file, pi.line)),
        Ok(Ok(b)) => Lifted::Ok(Box::new(b)),
        Ok(Err(falcon::Error::Sort)) => Lifted::SortError,
        Ok(Err(e)) => Lifted::NotAccepted(format!("{}", e)),
    }
}

fn not_accepted_class(e: &str) -> &'static str {
    if e.contains("Unhandled instruction") {
        "unhandled-instruction"
    } else if e.contains("Could not find register") {
        "unknown-register"
    } else if e.contains("rep prefix") {
        "rep-on-non-string"
    } else if e.contains("isassembl") || e.contains("apstone") {
        "disassembly"
    } else {
        "other-error"
    }
}

fn flag(r: u64, f: u64) -> u64 {
    (r & f != 0) as u64
}

pub fn il_state(c: &Case) -> Scalars {
    let mut s = Scalars::new();
    let bits = if c.mode == 64 { 64 } else { 32 };
    if c.mode == 64 {
        for i in 0..16 {
            s.insert(GPR_NAMES[i].to_string(), Bv::from_u64(c.gpr[i], 64));
        }
        for (i, (lo, hi)) in c.xmm.iter().enumerate() {
            s.insert(format!("xmm{}", i), Bv::from_u128(((*hi as u128) << 64) | *lo as u128, 128));
        }
    } else {
        for i in 0..8 {
            s.insert(GPR32_NAMES[i].to_string(), Bv::from_u64(c.gpr[i] & 0xffff_ffff, 32));
        }
    }
    for (n, f) in [("CF", F_CF), ("PF", cpu::F_PF), ("AF", cpu::F_AF), ("ZF", F_ZF), ("SF", F_SF), ("DF", F_DF), ("OF", F_OF)] {
        s.insert(n.to_string(), Bv::from_u64(flag(c.flags, f), 1));
    }
    for n in ["cs_base", "ds_base", "es_base", "ss_base"] {
        s.insert(n.to_string(), Bv::from_u64(0, bits));
    }
    s
}

fn xmm_bytes(c: &Case) -> [[u8; 16]; 16] {
    let mut x = [[0u8; 16]; 16];
    for (i, (lo, hi)) in c.xmm.iter().enumerate().take(16) {
        x[i][..8].copy_from_slice(&lo.to_le_bytes());
        x[i][8..].copy_from_slice(&hi.to_le_bytes());
    }
    x
}

/// What is not compared (DESIGN.md Appendix A).
#[derive(Default, Debug)]
pub struct Mask {
    /// RFLAGS bits not compared
    pub flags: u64,
    /// GPR numbers not compared
    pub regs: Vec<u8>,
    /// the whole outcome is undefined: skip
    pub all: Option<&'static str>,
    /// condition tag for signatures (count=0, count>mask, offset>=width, ...)
    pub cond: String,
}

fn op_bits(o: Option<&Op>) -> usize {
    match o {
        Some(Op::Reg(r)) => r.bits,
        Some(Op::Mem { bits, .. }) => *bits,
        Some(Op::Imm { bits, .. }) => *bits,
        None => 0,
    }
}

fn op_value_small(o: Option<&Op>, gpr: &[u64; 16]) -> Option<u64> {
    match o {
        Some(Op::Imm { val, .. }) => Some(*val as u64),
        Some(Op::Reg(r)) if r.class == RegClass::Gpr => {
            let v = gpr[r.num as usize & 15];
            Some(match (r.bits, r.high) {
                (8, true) => (v >> 8) & 0xff,
                (8, false) => v & 0xff,
                (16, _) => v & 0xffff,
                (32, _) => v & 0xffff_ffff,
                _ => v,
            })
        }
        _ => None,
    }
}

pub fn masks(d: &Dec, c: &Case, native_flags: u64) -> Mask {
    let mn = base_mnemonic(&d.mnemonic);
    let mut m = Mask::default();
    let w = op_bits(d.ops.first());
    let mut tags: Vec<String> = Vec::new();
    match mn {
        "shl" | "shr" | "sar" | "sal" | "rol" | "ror" | "rcl" | "rcr" => {
            let raw = if d.ops.len() < 2 { 1 } else { op_value_small(d.ops.get(1), &c.gpr).unwrap_or(1) & 0xff };
            let cm = if w == 64 { 63 } else { 31 };
            let cnt = raw & cm;
            if cnt == 0 {
                tags.push(if raw == 0 { "count=0".into() } else { "count=0(masked)".into() });
            } else {
                if cnt != 1 {
                    m.flags |= F_OF;
                }
                if matches!(mn, "shl" | "shr" | "sal") && (w == 8 || w == 16) && cnt as usize >= w {
                    m.flags |= F_CF;
                }
                if raw != cnt {
                    tags.push("count>mask".into());
                } else if cnt as usize >= w {
                    tags.push("count>=width".into());
                } else if cnt == 1 {
                    tags.push("count=1".into());
                } else {
                    tags.push("count>1".into());
                }
            }
        }
        "shld" | "shrd" => {
            let raw = op_value_small(d.ops.get(2), &c.gpr).unwrap_or(1) & 0xff;
            let cm = if w == 64 { 63 } else { 31 };
            let cnt = raw & cm;
            if cnt == 0 {
                tags.push(if raw == 0 { "count=0".into() } else { "count=0(masked)".into() });
            } else {
                if cnt as usize > w {
                    m.all = Some("undefined:shld-shrd-count>width");
                }
                if cnt != 1 {
                    m.flags |= F_OF;
                }
                if raw != cnt {
                    tags.push("count>mask".into());
                } else if cnt as usize >= w {
                    tags.push("count>=width".into());
                } else if cnt == 1 {
                    tags.push("count=1".into());
                } else {
                    tags.push("count>1".into());
                }
            }
        }
        "mul" | "imul" => m.flags |= F_SF | F_ZF,
        "div" | "idiv" => m.flags |= F_CF | F_OF | F_SF | F_ZF,
        "bsf" | "bsr" => {
            m.flags |= F_CF | F_OF | F_SF;
            if native_flags & F_ZF != 0 {
                if let Some(Op::Reg(r)) = d.ops.first() {
                    m.regs.push(r.num);
                }
                tags.push("src=0".into());
            }
        }
        "bt" | "bts" | "btr" | "btc" => {
            m.flags |= F_OF | F_SF;
            if let Some(Op::Reg(_)) = d.ops.get(1) {
                if let Some(off) = op_value_small(d.ops.get(1), &c.gpr) {
                    if w > 0 && off >= w as u64 {
                        tags.push("offset>=width".into());
                    }
                }
            } else if let Some(Op::Imm { val, .. }) = d.ops.get(1) {
                if w > 0 && (*val as u64 & 0xff) >= w as u64 {
                    tags.push("offset>=width".into());
                }
            }
        }
        "bswap" => {
            if w == 16 {
                if let Some(Op::Reg(r)) = d.ops.first() {
                    m.regs.push(r.num);
                }
            }
        }
        _ => {}
    }
    if d.has_prefix(0x67) && (crate_is_str(mn) || mn.starts_with("loop") || matches!(mn, "jecxz" | "jcxz" | "jrcxz")) {
        tags.push("addr32".into());
    }
    if d.has_prefix(0x66) && d.rex & 8 != 0 && !d.ops.iter().any(|o| matches!(o, Op::Reg(r) if r.class == RegClass::Xmm)) {
        // REX.W wins over 66h on the processor; capstone may report either size
        tags.push("66h+rexw".into());
    } else if d.has_prefix(0x66) && w != 16 && !d.ops.iter().any(|o| matches!(o, Op::Reg(r) if r.class == RegClass::Xmm)) {
        tags.push("66h".into());
    }
    // same register used twice
    let regs: Vec<u8> = d.ops.iter().filter_map(|o| if let Op::Reg(r) = o { if r.class == RegClass::Gpr { Some(r.num) } else { None } } else { None }).collect();
    if regs.len() >= 2 && regs[0] == regs[1] && matches!(mn, "xadd" | "xchg" | "cmpxchg") {
        tags.push("same-reg".into());
    }
    m.cond = tags.join(",");
    m
}

/// structural test that an encoding means the same in 32-bit and in 64-bit mode
fn mode_invariant(bytes: &[u8], d32: &Dec) -> Result<(), &'static str> {
    let d64 = match dec::decode(true, bytes, SLOT) {
        Some(d) => d,
        None => return Err("undecodable-in-64"),
    };
    if d64.len != d32.len {
        return Err("length-differs");
    }
    if base_mnemonic(&d64.mnemonic) != base_mnemonic(&d32.mnemonic) {
        return Err("mnemonic-differs");
    }
    if d64.rex != 0 || d32.has_prefix(0x67) {
        return Err("rex-or-67h");
    }
    let mn = base_mnemonic(&d32.mnemonic);
    if matches!(mn, "push" | "pop" | "call" | "ret" | "retf" | "leave" | "enter" | "pushf" | "popf" | "pushfd" | "popfd" | "pushal" | "popal" | "loop" | "loope" | "loopne" | "jcxz" | "jecxz" | "jrcxz")
        || (mn == "jmp" && !matches!(d32.ops.first(), Some(Op::Imm { .. })))
    {
        return Err("default-64-bit-operand");
    }
    if d64.ops.len() != d32.ops.len() {
        return Err("operands-differ");
    }
    let same_reg = |a: &dec::Reg, b: &dec::Reg, addr: bool| -> bool {
        a.class == b.class && a.num == b.num && a.high == b.high && (a.bits == b.bits || (addr && a.bits == 32 && b.bits == 64))
    };
    let same_opt = |a: &Option<dec::Reg>, b: &Option<dec::Reg>, addr: bool| -> bool {
        match (a, b) {
            (None, None) => true,
            (Some(x), Some(y)) => same_reg(x, y, addr),
            _ => false,
        }
    };
    for (a, b) in d32.ops.iter().zip(d64.ops.iter()) {
        let ok = match (a, b) {
            (Op::Reg(x), Op::Reg(y)) => same_reg(x, y, false),
            (Op::Imm { val: v1, bits: b1 }, Op::Imm { val: v2, bits: b2 }) => {
                // branch targets are absolute addresses below 4 GiB in both decodings
                (*v1 as u64 & 0xffff_ffff) == (*v2 as u64 & 0xffff_ffff) && (b1 == b2 || mn.starts_with('j'))
            }
            (Op::Mem { base: b1, index: i1, scale: s1, disp: d1, seg: g1, bits: w1 }, Op::Mem { base: b2, index: i2, scale: s2, disp: d2, seg: g2, bits: w2 }) => {
                if matches!(b2, Some(r) if r.class == RegClass::Ip) {
                    false
                } else {
                    same_opt(b1, b2, true) && same_opt(i1, i2, true) && s1 == s2 && (*d1 as u64 & 0xffff_ffff) == (*d2 as u64 & 0xffff_ffff) && same_opt(g1, g2, false) && w1 == w2
                }
            }
            _ => false,
        };
        if !ok {
            return Err("operands-differ");
        }
    }
    Ok(())
}

fn fault_name(s: &Stop) -> String {
    match s {
        Stop::Fault { signo, trapno, .. } => match (*signo, *trapno) {
            (libc::SIGFPE, _) => "native_fault:#DE".into(),
            (libc::SIGILL, _) => "native_fault:#UD".into(),
            (libc::SIGSEGV, 14) => "native_fault:#PF".into(),
            (libc::SIGSEGV, 13) => "native_fault:#GP".into(),
            (libc::SIGSEGV, 12) => "native_fault:#SS".into(),
            (libc::SIGBUS, _) => "native_fault:SIGBUS".into(),
            (libc::SIGTRAP, t) => format!("native_fault:trap{}", t),
            (s, t) => format!("native_fault:sig{}-trap{}", s, t),
        },
        Stop::Syscall => "native:syscall-from-code-area".into(),
        Stop::Timeout => "native:timeout".into(),
        _ => "native:?".into(),
    }
}

/// Encodings whose outcome is not architecturally defined (differs between vendors / reserved).
fn not_architectural(d: &Dec, mn: &str) -> Option<&'static str> {
    let near_branch = mn.starts_with('j') || mn.starts_with("loop") || matches!(mn, "call" | "ret");
    // 66h with a near branch: AMD truncates the target to 16 bits (and takes a rel16), Intel
    // ignores the prefix in 64-bit mode; in 32-bit mode it selects 16-bit IP
    if near_branch && d.has_prefix(0x66) {
        return Some("undefined:66h-near-branch(vendor-specific)");
    }
    // F2 with MOVS/STOS/LODS is reserved (REPNE is defined for CMPS/SCAS only)
    let has_xmm = d.ops.iter().any(|o| matches!(o, Op::Reg(r) if r.class == RegClass::Xmm));
    // (capstone gives the SSE2 scalar move the same name as the string instruction MOVSD)
    let is_string = crate_is_str(mn) && !has_xmm;
    if d.bytes_have_f2 && ["movs", "stos", "lods"].iter().any(|p| mn.starts_with(p)) && is_string {
        return Some("undefined:repne-on-movs-stos-lods(reserved)");
    }
    // F2/F3 in front of a non-string instruction is reserved: this CPU makes LOOPE/LOOPNE test the
    // other ZF polarity, capstone mis-sizes operands of 66+F2/F3 combinations, ...  (F3 90 = PAUSE
    // and the SSE mandatory prefixes are different instructions and stay in.)
    let legacy = dec::legacy_prefixes(&d.raw, d.mode64);
    let has_rep = legacy.contains(&0xF2) || legacy.contains(&0xF3);
    if has_rep && !is_string && !has_xmm && mn != "pause" {
        return Some("undefined:rep-prefix-on-non-string(reserved)");
    }
    // SSE: more than one of 66/F2/F3 - which one is the mandatory prefix is decided differently
    // by capstone and by the CPU
    if has_xmm {
        let n = [0x66u8, 0xF2, 0xF3].iter().filter(|p| legacy.contains(p)).count();
        if n > 1 {
            return Some("undefined:conflicting-mandatory-prefixes");
        }
    }
    None
}

pub fn canonical(v: u64) -> bool {
    let top = v >> 47;
    top == 0 || top == 0x1ffff
}

/// may the instruction write all 64 bits of RSP with a computed value?
fn may_write_rsp64(d: &Dec, mn: &str) -> bool {
    let is_rsp64 = |o: Option<&Op>| matches!(o, Some(Op::Reg(r)) if r.class == RegClass::Gpr && r.num == 4 && r.bits == 64);
    if matches!(mn, "cmp" | "test" | "push" | "bt") {
        return false;
    }
    if mn == "leave" {
        return true;
    }
    if is_rsp64(d.ops.first()) {
        return true;
    }
    matches!(mn, "xchg" | "xadd" | "cmpxchg") && is_rsp64(d.ops.get(1))
}

fn dest_reg_num(d: &Dec) -> Option<u8> {
    match d.ops.first() {
        Some(Op::Reg(r)) if r.class == RegClass::Gpr => Some(r.num),
        _ => None,
    }
}

/// See the call site: successors of a direct relative branch lifted above 4 GiB.
fn high_address_successors(d: &Dec, code: &[u8], obs: &mut Obs) -> Result<(), Failure> {
    const HIGH: u64 = 0x0000_7f12_3456_8000;
    // opcode classes with a relative displacement: jcc rel8 / rel32, jmp rel8 / rel32, loop*, j*cxz
    let (unconditional, is_rel) = match (d.opcode[0], d.opcode[1]) {
        (0x70..=0x7f, _) | (0xe0..=0xe3, _) => (false, true),
        (0x0f, 0x80..=0x8f) => (false, true),
        (0xeb, _) | (0xe9, _) => (true, true),
        _ => (false, false),
    };
    if !is_rel || d.imm_size == 0 || d.imm_off + d.imm_size > code.len() {
        return Ok(());
    }
    let mut rel: i64 = 0;
    for (i, b) in code[d.imm_off..d.imm_off + d.imm_size].iter().enumerate() {
        rel |= (*b as i64) << (8 * i);
    }
    let shift = 64 - 8 * d.imm_size as u32;
    let rel = (rel << shift) >> shift;
    let end = HIGH + d.len as u64;
    let taken = end.wrapping_add(rel as u64);
    let block = match lift(true, code, HIGH) {
        Lifted::Ok(b) => b,
        _ => return Ok(()),
    };
    obs.class("relative-branch-lifted-above-4GiB");
    let got: std::collections::BTreeSet<u64> = block.successors().iter().map(|s| s.0).collect();
    let mut want: std::collections::BTreeSet<u64> = std::collections::BTreeSet::new();
    want.insert(taken);
    if !unconditional {
        want.insert(end);
    }
    if got != want {
        fv::fail!(
            format!("C01|amd64|{}|rel|next|load-address-above-4GiB", family(base_mnemonic(&d.mnemonic))),
            "`{} {}` ({:02x?}) lifted at 0x{:x}: successors {:x?}, the processor continues at {:x?} (end of instruction 0x{:x}, displacement {})",
            d.mnemonic, d.op_str, code, HIGH, got, want, end, rel
        );
    }
    Ok(())
}

pub fn check_case(c: &Case, obs: &mut Obs) -> Result<(), Failure> {
    let mode64 = c.mode == 64;
    let mode = mode_name(c);
    obs.class(match c.source {
        0 => "source:encoder",
        1 => "source:mutation",
        _ => "source:random",
    });
    obs.class(if mode64 { "mode:amd64" } else { "mode:x86" });
    // the first instruction, as capstone (falcon's only decoder) sees it
    let d = match dec::decode(mode64, &c.bytes, SLOT) {
        Some(d) => d,
        None => {
            obs.class("not-accepted");
            obs.exclude("not_accepted:undecodable");
            return Ok(());
        }
    };
    let len = d.len;
    let code = &c.bytes[..len.min(c.bytes.len())];
    let mn = base_mnemonic(&d.mnemonic).to_string();
    let form = d.form();
    let block = match lift(mode64, code, SLOT) {
        Lifted::Ok(b) => b,
        Lifted::Undecodable => unreachable!(),
        Lifted::NotAccepted(e) => {
            obs.class("not-accepted");
            obs.exclude(&format!("not_accepted:{}", not_accepted_class(&e)));
            return Ok(());
        }
        Lifted::Panic(p) => {
            // totality of lifting is C05's property; here there is simply no IL to compare
            obs.class("not-accepted");
            obs.exclude("not_accepted:lift-panic");
            let _ = p;
            return Ok(());
        }
        Lifted::SortError => {
            obs.class("accepted");
            obs.class(&format!("mn:{}:{}", mode, mn));
            let narrow = |r: &Option<dec::Reg>| matches!(r, Some(x) if x.class == RegClass::Gpr && x.bits < c.mode as usize);
            let with67 = d.has_prefix(0x67) && matches!(d.mem(), Some(Op::Mem { base, index, .. }) if narrow(base) || narrow(index));
            let cause = if with67 { "addr32" } else { "" };
            let sig = if let Some(why) = not_architectural(&d, &mn) {
                // capstone reports inconsistent operand sizes for reserved prefix combinations
                format!("C01|{}|*|{}|lift|sort-error", mode, why.split('(').next().unwrap_or(why))
            } else if d.has_prefix(0x66) && d.rex & 8 != 0 {
                // capstone reports a 16-bit operand although REX.W wins
                format!("C01|{}|*|66h+rexw|lift|sort-error", mode)
            } else if cause == "addr32" {
                format!("C01|{}|*|m(67h)|lift|sort-error", mode)
            } else {
                format!("C01|{}|{}|{}|lift|sort-error", mode, family(&mn), form)
            };
            fv::fail!(
                sig,
                "lifting `{} {}` ({:02x?}) fails with Error::Sort although the instruction is decodable and dispatched",
                d.mnemonic, d.op_str, code
            );
        }
    };
    obs.class("accepted");
    obs.class(&format!("mn:{}:{}", mode, mn));
    if block.instructions().len() != 1 || block.length() != len {
        obs.exclude("harness:block-shape");
        return Ok(());
    }
    let cfg = &block.instructions()[0].1;
    if let Some(i) = run_il::has_intrinsic(cfg) {
        obs.exclude("intrinsic");
        let _ = i;
        return Ok(());
    }
    if d.fs_gs() {
        obs.exclude("fs-gs-override");
        return Ok(());
    }
    if let Some(why) = not_architectural(&d, &mn) {
        obs.exclude(why);
        return Ok(());
    }
    // a relative branch into the bytes of the instruction itself does not land on an int3 pad
    if let Some(Op::Imm { val, .. }) = d.ops.first() {
        let t = *val as u64;
        if (mn.starts_with('j') || mn.starts_with("loop") || mn == "call") && t >= SLOT && t < SLOT + len as u64 {
            obs.exclude("harness:branch-into-own-bytes");
            return Ok(());
        }
    }
    // Relative control transfers are position independent: the processor continues at
    // end-of-instruction + sign-extended displacement wherever the code is loaded.  The native
    // runner owns a code area below 4 GiB only, so the same bytes are also lifted at an address
    // above 4 GiB and the successor addresses compared with that arithmetic (amd64 only).
    if mode64 && !d.has_prefix(0x66) {
        high_address_successors(&d, code, obs)?;
    }
    let pokes = c.pokes.clone();
    let code_v = code.to_vec();
    let init_byte = move |a: u64| cpu::initial_byte(a, &code_v, SLOT, &pokes);
    // 32-bit mode: (a) mode-invariant encodings are run on the CPU; (b) the mode-variant forms the
    // small reference model covers are judged by the model; everything else is not compared
    let mut reference: Option<cpu::CpuOut> = None;
    if !mode64 {
        if let Err(why) = mode_invariant(code, &d) {
            match crate::model32::run(&d, &mn, &c.gpr, c.flags, &init_byte, SLOT + len as u64) {
                Ok(o) => {
                    obs.class("oracle:model32");
                    reference = Some(o);
                }
                Err(crate::model32::Stop32::Fault) => {
                    obs.exclude("x86-32:model:fault");
                    return Ok(());
                }
                Err(crate::model32::Stop32::Unmodelled) => {
                    obs.exclude(&format!("x86-32:not-mode-invariant:{}", why));
                    return Ok(());
                }
            }
        } else {
            obs.class("oracle:cpu(mode-invariant)");
        }
    }
    let native = reference.is_none();
    // ---- safety gates (this sandbox's kernel oopses when it has to return to user mode with a
    // non-canonical RSP, and a segment-register load can destroy the thread's TLS base)
    if native && !canonical(c.gpr[4]) {
        obs.exclude("unsafe:noncanonical-rsp");
        return Ok(());
    }
    if native && matches!(d.ops.first(), Some(Op::Reg(r)) if r.class == RegClass::Seg) && mn != "push" {
        obs.exclude("unsafe:segment-register-write");
        return Ok(());
    }
    // ---- IL execution (first: its prediction of RSP gates the native run)
    let init = il_state(c);
    let prefetch: Vec<u64> = c.gpr.to_vec();
    let il_res = guard(|| run_il::run_il(cfg, block.successors(), &init, &init_byte, &prefetch));
    let predicted_rsp: Option<u64> = match &il_res {
        Ok(Ok(o)) => o.scalars.get(if mode64 { "rsp" } else { "esp" }).map(|v| v.low_u64()),
        _ => None,
    };
    match predicted_rsp {
        Some(v) if native && !canonical(v) => {
            obs.exclude("unsafe:il-predicts-noncanonical-rsp");
            return Ok(());
        }
        Some(_) => {}
        None => {
            if native && may_write_rsp64(&d, &mn) {
                obs.exclude("unsafe:rsp-write-unpredicted");
                return Ok(());
            }
        }
    }
    // ---- native execution
    let xmm = xmm_bytes(c);
    let out = match reference {
        Some(o) => o,
        None => cpu::with_runner(|r| r.run(&CpuIn { code, slot: SLOT, gpr: c.gpr, flags: c.flags, xmm, pokes: &c.pokes })),
    };
    match out.stop {
        Stop::Trap | Stop::FetchFault => {}
        ref s => {
            obs.exclude(&fault_name(s));
            return Ok(());
        }
    }
    if !mode64 && native && out.gpr.iter().any(|g| *g >> 32 != 0) {
        obs.exclude("x86-32:upper-half-dirtied");
        return Ok(());
    }
    let mask = masks(&d, c, out.rflags);
    if let Some(why) = mask.all {
        obs.exclude(why);
        return Ok(());
    }
    // ---- classes of the comparable, completed case
    let key = (mode, mn.clone(), form.clone(), d.prefix_set());
    obs.nontrivial(&key);
    obs.class("nontrivial");
    if d.uses_high_byte() {
        obs.class("feat:high-byte-reg");
    }
    if let Some(Op::Mem { base, index, .. }) = d.mem() {
        obs.class("feat:mem-operand");
        if matches!(base, Some(b) if b.class == RegClass::Ip) {
            obs.class("feat:rip-relative");
        }
        if index.is_some() {
            obs.class("feat:sib-index");
        }
    }
    if d.has_prefix(0x67) {
        obs.class("feat:addr32-prefix");
    }
    if d.ops.iter().any(|o| matches!(o, Op::Mem { seg: Some(_), .. })) && d.prefix[1] != 0 {
        obs.class("feat:segment-override");
    }
    if d.has_prefix(0xF3) || d.has_prefix(0xF2) {
        if ["movs", "cmps", "stos", "lods", "scas"].iter().any(|p| mn.starts_with(p)) {
            let rc = if d.has_prefix(0x67) { c.gpr[1] & 0xffff_ffff } else { c.gpr[1] };
            obs.class(match rc {
                0 => "feat:rep-rcx=0",
                1 => "feat:rep-rcx=1",
                _ => "feat:rep-rcx>1",
            });
            obs.class(if c.flags & F_DF != 0 { "feat:rep-DF=1" } else { "feat:rep-DF=0" });
        }
    }
    if out.stop == Stop::FetchFault {
        obs.class("feat:branch-to-nonexec");
    }
    if !out.mem_diff.is_empty() {
        obs.class("feat:memory-written");
    }
    if d.ops.iter().any(|o| matches!(o, Op::Reg(r) if r.class == RegClass::Xmm)) {
        obs.class("feat:xmm");
    }
    if obs.want_sample() {
        obs.sample(render(c));
    }

    // ---- IL result
    let sig = |what: &str| -> String {
        let t: Vec<&str> = mask.cond.split(',').filter(|t| !t.is_empty() && *t != "seg" && *t != "66h").collect();
        if t.contains(&"addr32") && (crate_is_str(&mn) || mn.starts_with("loop") || mn == "jecxz") {
            return format!("C01|{}|{}|-|*|addr32", mode, family(&mn));
        }
        if t.contains(&"offset>=width") {
            let k = kinds(&d).replace("r8", "r");
            return format!("C01|{}|{}|{}|*|offset>=width", mode, family(&mn), k);
        }
        format!("C01|{}|{}|{}{}|{}|{}", mode, family(&mn), kinds(&d), width_tag(&d), what, t.join(","))
    };
    let il = match il_res {
        Ok(r) => r,
        Err(pi) => fv::fail!(sig("il-panic"), "reference interpreter panicked on the lifted graph: {} ({}:{})", pi.msg, pi.file, pi.line),
    };
    let il = match il {
        Ok(o) => o,
        Err(IlFail::StepLimit) | Err(IlFail::TooManyRestarts) => {
            obs.exclude("harness:il-step-limit");
            return Ok(());
        }
        Err(IlFail::Fault(f)) => {
            let detail = match &f {
                fv::refil::Fault::Unmapped(a) => {
                    if cpu::in_scratch(*a) || cpu::in_code(*a) {
                        "unmapped(in-area)".to_string()
                    } else {
                        "unmapped".to_string()
                    }
                }
                fv::refil::Fault::UndefinedScalar(n) => {
                    let n: String = n.chars().filter(|c| !c.is_ascii_digit()).collect();
                    format!("undefined-scalar:{}", n)
                }
                other => other.kind().to_string(),
            };
            fv::fail!(
                sig(&format!("il-fault:{}", detail)),
                "the CPU completed `{} {}` (next 0x{:x}) but the lifted IL faults: {:?}\n{}",
                d.mnemonic, d.op_str, out.next, f, cfg
            );
        }
        Err(IlFail::Successors(s)) => {
            fv::fail!(sig("next:successors"), "the CPU completed `{} {}` (next 0x{:x}) but the lifted block has {}", d.mnemonic, d.op_str, out.next, s);
        }
    };

    // ---- comparison
    let mut diffs: Vec<(String, String)> = Vec::new(); // (what, detail)
    // next instruction address
    let amask = if mode64 { u64::MAX } else { 0xffff_ffff };
    if il.next & amask != out.next & amask {
        diffs.push(("next".into(), format!("next address: IL 0x{:x} ({}), CPU 0x{:x}", il.next, il.next_from, out.next)));
    }
    let dest = dest_reg_num(&d);
    let nregs = if mode64 { 16 } else { 8 };
    let mut reg_diffs: Vec<(u8, String)> = Vec::new();
    for i in 0..nregs {
        if mask.regs.contains(&(i as u8)) {
            continue;
        }
        let name = if mode64 { GPR_NAMES[i] } else { GPR32_NAMES[i] };
        let ilv = match il.scalars.get(name) {
            Some(v) => v.low_u64(),
            None => continue,
        };
        let cv = out.gpr[i] & amask;
        if ilv != cv {
            reg_diffs.push((i as u8, format!("{}: IL 0x{:x}, CPU 0x{:x} (was 0x{:x})", name, ilv, cv, c.gpr[i])));
        }
    }
    // destination register first
    reg_diffs.sort_by_key(|(i, _)| (Some(*i) != dest, *i));
    for (i, s) in reg_diffs {
        let what = if Some(i) == dest { "dest".to_string() } else { format!("reg:{}", GPR_NAMES[i as usize]) };
        diffs.push((what, s));
    }
    // memory
    {
        let cpu_mem: std::collections::BTreeMap<u64, u8> = out.mem_diff.iter().copied().collect();
        if cpu_mem != il.mem_changes {
            let mut detail = String::new();
            let mut n = 0;
            for (a, v) in &il.mem_changes {
                if cpu_mem.get(a) != Some(v) && n < 6 {
                    detail.push_str(&format!(" [0x{:x}] IL {:02x} CPU {}", a, v, cpu_mem.get(a).map(|x| format!("{:02x}", x)).unwrap_or_else(|| "unchanged".into())));
                    n += 1;
                }
            }
            for (a, v) in &cpu_mem {
                if !il.mem_changes.contains_key(a) && n < 6 {
                    detail.push_str(&format!(" [0x{:x}] IL unchanged CPU {:02x}", a, v));
                    n += 1;
                }
            }
            diffs.push(("mem".into(), format!("memory:{} (IL changed {} bytes, CPU {})", detail, il.mem_changes.len(), cpu_mem.len())));
        }
    }
    // XMM
    if mode64 {
        for i in 0..16 {
            if let Some(v) = il.scalars.get(&format!("xmm{}", i)) {
                let ilv = v.to_u128().unwrap_or(0);
                let cv = u128::from_le_bytes(out.xmm[i]);
                if ilv != cv {
                    diffs.push(("xmm".into(), format!("xmm{}: IL 0x{:032x}, CPU 0x{:032x}", i, ilv, cv)));
                }
            }
        }
    }
    // flags
    for (n, f) in [("CF", F_CF), ("ZF", F_ZF), ("SF", F_SF), ("OF", F_OF), ("DF", F_DF)] {
        if mask.flags & f != 0 {
            continue;
        }
        if let Some(v) = il.scalars.get(n) {
            let ilv = v.low_u64();
            let cv = flag(out.rflags, f);
            if ilv != cv {
                diffs.push((n.to_string(), format!("{}: IL {}, CPU {} (was {})", n, ilv, cv, flag(c.flags, f))));
            }
        }
    }
    if diffs.is_empty() {
        return Ok(());
    }
    let what = diffs[0].0.clone();
    let all: Vec<String> = diffs.iter().map(|d| d.1.clone()).collect();
    let signature = classify(c, &d, &mn, &mask, &what, &il, &out);
    Err(Failure::new(
        signature,
        format!("`{} {}` ({:02x?}) disagrees with the CPU: {}\n{}", d.mnemonic, d.op_str, code, all.join("; "), cfg),
    ))
}

/// cc-families share one builder in the lifter
fn family(mn: &str) -> String {
    const CCS: [&str; 16] = ["o", "no", "b", "ae", "e", "ne", "be", "a", "s", "ns", "p", "np", "l", "ge", "le", "g"];
    for (p, f) in [("set", "setcc"), ("cmov", "cmovcc"), ("j", "jcc")] {
        if let Some(r) = mn.strip_prefix(p) {
            if CCS.contains(&r) {
                return f.to_string();
            }
        }
    }
    mn.to_string()
}

/// operand kinds without sizes: r8h / r8 / r / m / imm / xmm / sreg
fn kinds(d: &Dec) -> String {
    if d.ops.is_empty() {
        return "-".into();
    }
    d.ops
        .iter()
        .map(|o| match o {
            Op::Reg(r) => match r.class {
                RegClass::Gpr if r.bits == 8 => "r8".to_string(),
                RegClass::Gpr => "r".to_string(),
                RegClass::Xmm => "xmm".to_string(),
                RegClass::Seg => "sreg".to_string(),
                _ => "reg?".to_string(),
            },
            Op::Mem { .. } => "m".to_string(),
            Op::Imm { .. } => "imm".to_string(),
        })
        .collect::<Vec<_>>()
        .join(",")
}

fn width_tag(d: &Dec) -> String {
    match op_bits(d.ops.first()) {
        0 => String::new(),
        w => format!("/w{}", w),
    }
}

/// The signature of a disagreement: a verified root cause where one is recognised, otherwise
/// (mode, mnemonic family, operand kinds/width, first differing item, condition tags).
fn classify(c: &Case, d: &Dec, mn: &str, mask: &Mask, what: &str, il: &run_il::IlOut, out: &cpu::CpuOut) -> String {
    let mode = mode_name(c);
    let fam = family(mn);
    let tags: Vec<&str> = mask.cond.split(',').filter(|t| !t.is_empty()).collect();
    // shift / rotate: count not masked to 5/6 bits, or flags/destination written with count = 0
    for t in ["count>mask", "count=0(masked)", "count=0"] {
        if tags.contains(&t) {
            return format!("C01|{}|{}|*|*|{}", mode, fam, t);
        }
    }
    // bit tests: offset not reduced modulo the width / no bit-string addressing
    if tags.contains(&"offset>=width") {
        let k = kinds(d).replace("r8", "r");
        return format!("C01|{}|{}|{}|*|offset>=width", mode, fam, k);
    }
    // high-byte register write: all other bits cleared and the byte OR-ed into the old byte
    for i in 0..4usize {
        let written_high = d.ops.iter().any(|o| matches!(o, Op::Reg(r) if r.high && r.num as usize == i)) || (i == 0 && matches!(mn, "div" | "idiv") && op_bits(d.ops.first()) == 8);
        if !written_high {
            continue;
        }
        let name = if c.mode == 64 { GPR_NAMES[i] } else { GPR32_NAMES[i] };
        let ilv = match il.scalars.get(name) {
            Some(v) => v.low_u64(),
            None => continue,
        };
        let cv = out.gpr[i] & if c.mode == 64 { u64::MAX } else { 0xffff_ffff };
        if ilv != cv && ilv & !0xff00 == 0 {
            let cpu_byte = (cv >> 8) & 0xff;
            let il_byte = (ilv >> 8) & 0xff;
            // the byte is the correct byte OR-ed with what was there (old high byte, or an
            // intermediate value of the same instruction): every correct bit is present
            if il_byte & cpu_byte == cpu_byte && (what == "dest" || what.starts_with("reg:")) {
                return format!("C01|{}|*|r8h-write|reg|other-bits-cleared", mode);
            }
        }
    }
    // cmovcc r32 with a false condition: the upper half of the 64-bit register is kept
    if fam == "cmovcc" && c.mode == 64 && what == "dest" {
        if let Some(Op::Reg(r)) = d.ops.first() {
            if r.bits == 32 {
                let i = r.num as usize & 15;
                let ilv = il.scalars.get(GPR_NAMES[i]).map(|v| v.low_u64()).unwrap_or(0);
                if ilv == c.gpr[i] && out.gpr[i] == c.gpr[i] & 0xffff_ffff {
                    return format!("C01|{}|cmovcc|r32,*|dest|not-taken-upper-half-kept", mode);
                }
            }
        }
    }
    // 67h on string / loop instructions: the lifter uses the full 64-bit registers
    if tags.contains(&"addr32") && (crate_is_str(mn) || mn.starts_with("loop") || mn == "jecxz") {
        return format!("C01|{}|{}|-|*|addr32", mode, fam);
    }
    let tags: Vec<&str> = tags
        .into_iter()
        .filter(|t| match *t {
            "66h" => matches!(mn, "push" | "pop" | "leave" | "call" | "jmp" | "ret"),
            _ => true,
        })
        .collect();
    if matches!(what, "CF" | "ZF" | "SF" | "OF" | "DF") {
        // a flag formula belongs to the mnemonic's builder, not to an operand form
        return format!("C01|{}|{}|*|{}|{}", mode, fam, what, tags.join(","));
    }
    format!("C01|{}|{}|{}{}|{}|{}", mode, fam, kinds(d), width_tag(d), what, tags.join(","))
}

/// metamorphic confirmation of the 67h root cause: the same bytes without 67h lift fine
fn lifts_without_67(mode64: bool, code: &[u8]) -> bool {
    let np = code.iter().position(|b| ![0x66, 0x67, 0xF2, 0xF3, 0xF0, 0x26, 0x2E, 0x36, 0x3E, 0x64, 0x65].contains(b)).unwrap_or(0);
    let mut v: Vec<u8> = code[..np].iter().copied().filter(|b| *b != 0x67).collect();
    v.extend_from_slice(&code[np..]);
    if v.len() == code.len() {
        return false;
    }
    if let Some(d2) = dec::decode(mode64, &v, SLOT) {
        return matches!(lift(mode64, &v[..d2.len.min(v.len())], SLOT), Lifted::Ok(_));
    }
    false
}

fn crate_is_str(m: &str) -> bool {
    ["movs", "cmps", "stos", "lods", "scas"].iter().any(|p| m.starts_with(p)) && m.len() == 5
}

pub fn render(c: &Case) -> String {
    let mode64 = c.mode == 64;
    let mut s = String::new();
    let dis = match dec::decode(mode64, &c.bytes, SLOT) {
        Some(d) => format!("{} {} (len {})", d.mnemonic, d.op_str, d.len),
        None => "(undecodable)".into(),
    };
    s.push_str(&format!("{} {:02x?} = {} @0x{:x} [{}]\n", mode_name(c), c.bytes, dis, SLOT, c.label));
    s.push_str("  ");
    for i in 0..if mode64 { 16 } else { 8 } {
        s.push_str(&format!("{}=0x{:x} ", GPR_NAMES[i], c.gpr[i]));
    }
    s.push_str("\n  flags:");
    for (n, f) in [("CF", F_CF), ("PF", cpu::F_PF), ("AF", cpu::F_AF), ("ZF", F_ZF), ("SF", F_SF), ("DF", F_DF), ("OF", F_OF)] {
        s.push_str(&format!(" {}={}", n, flag(c.flags, f)));
    }
    if mode64 {
        if let Some(d) = dec::decode(mode64, &c.bytes, SLOT) {
            for o in &d.ops {
                if let Op::Reg(r) = o {
                    if r.class == RegClass::Xmm {
                        if let Some((lo, hi)) = c.xmm.get(r.num as usize) {
                            s.push_str(&format!(" {}=0x{:016x}{:016x}", r.name, hi, lo));
                        }
                    }
                }
            }
        }
    }
    if !c.pokes.is_empty() {
        s.push_str("\n  mem:");
        for (a, v, n) in c.pokes.iter().take(8) {
            s.push_str(&format!(" [0x{:x}]={:#x}/{}", a, v, n));
        }
        if c.pokes.len() > 8 {
            s.push_str(&format!(" ... ({} pokes)", c.pokes.len()));
        }
    }
    s
}

/// Floors, frozen after measuring the generator over three seeds with the known-findings list
/// active (fractions of all evaluations; about 0.3 - 0.6 of the measured minimum).  The
/// per-mnemonic floors stand for the design's "at least 85 mnemonics in amd64, 60 in x86-32".
pub fn floors() -> Vec<(&'static str, f64)> {
    let mut v: Vec<(&'static str, f64)> = vec![
        ("nontrivial", 0.55),
        ("relative-branch-lifted-above-4GiB", 0.03),
        ("mode:x86", 0.18),
        ("oracle:cpu(mode-invariant)", 0.08),
        ("oracle:model32", 0.04),
        ("source:mutation", 0.15),
        ("source:random", 0.05),
        ("feat:high-byte-reg", 0.010),
        ("feat:rip-relative", 0.012),
        ("feat:sib-index", 0.05),
        ("feat:mem-operand", 0.15),
        ("feat:memory-written", 0.08),
        ("feat:xmm", 0.04),
        ("feat:segment-override", 0.012),
        ("feat:addr32-prefix", 0.003),
        ("feat:rep-rcx=0", 0.0006),
        ("feat:rep-rcx=1", 0.0006),
        ("feat:rep-rcx>1", 0.002),
        ("feat:rep-DF=0", 0.0015),
        ("feat:rep-DF=1", 0.0015),
        ("feat:branch-to-nonexec", 0.0003),
    ];
    v.extend_from_slice(MNEMONIC_FLOORS_AMD64);
    v.extend_from_slice(MNEMONIC_FLOORS_X86);
    v
}

/// 156 amd64 mnemonics
const MNEMONIC_FLOORS_AMD64: &[(&str, f64)] = &[
    ("mn:amd64:adc", 0.00197),
    ("mn:amd64:add", 0.00283),
    ("mn:amd64:and", 0.00238),
    ("mn:amd64:bsf", 0.00114),
    ("mn:amd64:bsr", 0.00117),
    ("mn:amd64:bswap", 0.00103),
    ("mn:amd64:bt", 0.00121),
    ("mn:amd64:btc", 0.00123),
    ("mn:amd64:btr", 0.00121),
    ("mn:amd64:bts", 0.00117),
    ("mn:amd64:call", 0.00134),
    ("mn:amd64:cbw", 0.00021),
    ("mn:amd64:cdq", 0.0006),
    ("mn:amd64:cdqe", 0.00045),
    ("mn:amd64:clc", 0.00132),
    ("mn:amd64:cld", 0.00132),
    ("mn:amd64:cli", 0.00035),
    ("mn:amd64:cmc", 0.00138),
    ("mn:amd64:cmova", 0.00122),
    ("mn:amd64:cmovae", 0.00125),
    ("mn:amd64:cmovb", 0.00117),
    ("mn:amd64:cmovbe", 0.00123),
    ("mn:amd64:cmove", 0.0012),
    ("mn:amd64:cmovg", 0.00116),
    ("mn:amd64:cmovge", 0.00121),
    ("mn:amd64:cmovl", 0.00117),
    ("mn:amd64:cmovle", 0.0012),
    ("mn:amd64:cmovne", 0.00122),
    ("mn:amd64:cmovno", 0.00119),
    ("mn:amd64:cmovnp", 0.00122),
    ("mn:amd64:cmovns", 0.00117),
    ("mn:amd64:cmovo", 0.00118),
    ("mn:amd64:cmovp", 0.00114),
    ("mn:amd64:cmovs", 0.00118),
    ("mn:amd64:cmp", 0.00185),
    ("mn:amd64:cmpsb", 0.00075),
    ("mn:amd64:cmpxchg", 0.00118),
    ("mn:amd64:cwd", 0.00023),
    ("mn:amd64:cwde", 0.00061),
    ("mn:amd64:dec", 0.00127),
    ("mn:amd64:div", 0.00118),
    ("mn:amd64:hlt", 0.00032),
    ("mn:amd64:idiv", 0.0012),
    ("mn:amd64:imul", 0.00141),
    ("mn:amd64:inc", 0.00136),
    ("mn:amd64:int", 0.00033),
    ("mn:amd64:ja", 0.00135),
    ("mn:amd64:jae", 0.00136),
    ("mn:amd64:jb", 0.0013),
    ("mn:amd64:jbe", 0.0014),
    ("mn:amd64:je", 0.00135),
    ("mn:amd64:jg", 0.00172),
    ("mn:amd64:jge", 0.00135),
    ("mn:amd64:jl", 0.00136),
    ("mn:amd64:jle", 0.00136),
    ("mn:amd64:jmp", 0.0015),
    ("mn:amd64:jne", 0.00136),
    ("mn:amd64:jno", 0.00136),
    ("mn:amd64:jnp", 0.00138),
    ("mn:amd64:jns", 0.00133),
    ("mn:amd64:jo", 0.0014),
    ("mn:amd64:jp", 0.00137),
    ("mn:amd64:js", 0.0014),
    ("mn:amd64:lea", 0.00126),
    ("mn:amd64:leave", 0.00134),
    ("mn:amd64:lodsb", 0.0003),
    ("mn:amd64:lodsd", 0.00017),
    ("mn:amd64:loop", 0.0014),
    ("mn:amd64:loope", 0.00133),
    ("mn:amd64:loopne", 0.00134),
    ("mn:amd64:mov", 0.00339),
    ("mn:amd64:movabs", 0.00141),
    ("mn:amd64:movapd", 0.00113),
    ("mn:amd64:movaps", 0.00119),
    ("mn:amd64:movd", 0.00057),
    ("mn:amd64:movdqa", 0.00112),
    ("mn:amd64:movdqu", 0.00117),
    ("mn:amd64:movhpd", 0.00117),
    ("mn:amd64:movlpd", 0.00107),
    ("mn:amd64:movnti", 0.00117),
    ("mn:amd64:movq", 0.00173),
    ("mn:amd64:movsb", 0.00076),
    ("mn:amd64:movsd", 0.00159),
    ("mn:amd64:movsq", 0.00024),
    ("mn:amd64:movsx", 0.00121),
    ("mn:amd64:movsxd", 0.00045),
    ("mn:amd64:movups", 0.0012),
    ("mn:amd64:movzx", 0.00123),
    ("mn:amd64:mul", 0.00126),
    ("mn:amd64:neg", 0.00121),
    ("mn:amd64:nop", 0.0014),
    ("mn:amd64:not", 0.00122),
    ("mn:amd64:or", 0.00215),
    ("mn:amd64:paddq", 0.00116),
    ("mn:amd64:pause", 0.00113),
    ("mn:amd64:pcmpeqb", 0.00111),
    ("mn:amd64:pcmpeqd", 0.00115),
    ("mn:amd64:pminub", 0.00117),
    ("mn:amd64:pmovmskb", 0.00112),
    ("mn:amd64:pop", 0.0025),
    ("mn:amd64:por", 0.00116),
    ("mn:amd64:prefetchnta", 0.00032),
    ("mn:amd64:prefetcht0", 0.00029),
    ("mn:amd64:prefetcht1", 0.00029),
    ("mn:amd64:prefetcht2", 0.0003),
    ("mn:amd64:pshufd", 0.00118),
    ("mn:amd64:pslldq", 0.00114),
    ("mn:amd64:psrldq", 0.00111),
    ("mn:amd64:psubb", 0.00117),
    ("mn:amd64:psubq", 0.00111),
    ("mn:amd64:punpcklbw", 0.00112),
    ("mn:amd64:punpcklwd", 0.00112),
    ("mn:amd64:push", 0.00277),
    ("mn:amd64:pxor", 0.00116),
    ("mn:amd64:ret", 0.0015),
    ("mn:amd64:rol", 0.00137),
    ("mn:amd64:ror", 0.00142),
    ("mn:amd64:sahf", 0.00133),
    ("mn:amd64:sar", 0.00132),
    ("mn:amd64:sbb", 0.00186),
    ("mn:amd64:scasb", 0.00073),
    ("mn:amd64:seta", 0.00113),
    ("mn:amd64:setae", 0.00117),
    ("mn:amd64:setb", 0.00121),
    ("mn:amd64:setbe", 0.00115),
    ("mn:amd64:sete", 0.00117),
    ("mn:amd64:setg", 0.0012),
    ("mn:amd64:setge", 0.00121),
    ("mn:amd64:setl", 0.00117),
    ("mn:amd64:setle", 0.00123),
    ("mn:amd64:setne", 0.00115),
    ("mn:amd64:setno", 0.00118),
    ("mn:amd64:setnp", 0.00117),
    ("mn:amd64:setns", 0.00116),
    ("mn:amd64:seto", 0.00122),
    ("mn:amd64:setp", 0.00118),
    ("mn:amd64:sets", 0.00117),
    ("mn:amd64:shl", 0.00129),
    ("mn:amd64:shld", 0.00119),
    ("mn:amd64:shr", 0.00125),
    ("mn:amd64:shrd", 0.00115),
    ("mn:amd64:stc", 0.00132),
    ("mn:amd64:std", 0.00133),
    ("mn:amd64:sti", 0.00033),
    ("mn:amd64:stosb", 0.00072),
    ("mn:amd64:stosd", 0.00032),
    ("mn:amd64:stosq", 0.00023),
    ("mn:amd64:sub", 0.00189),
    ("mn:amd64:syscall", 0.00031),
    ("mn:amd64:sysenter", 0.00021),
    ("mn:amd64:test", 0.00156),
    ("mn:amd64:ud2", 0.0002),
    ("mn:amd64:wait", 0.00135),
    ("mn:amd64:xadd", 0.00127),
    ("mn:amd64:xchg", 0.00249),
    ("mn:amd64:xor", 0.00184),
];

/// 114 x86-32 mnemonics
const MNEMONIC_FLOORS_X86: &[(&str, f64)] = &[
    ("mn:x86:adc", 0.00041),
    ("mn:x86:add", 0.00071),
    ("mn:x86:and", 0.00059),
    ("mn:x86:bsf", 0.00034),
    ("mn:x86:bsr", 0.00032),
    ("mn:x86:bswap", 0.00018),
    ("mn:x86:bt", 0.00034),
    ("mn:x86:btc", 0.00036),
    ("mn:x86:btr", 0.00035),
    ("mn:x86:bts", 0.00036),
    ("mn:x86:call", 0.00154),
    ("mn:x86:cbw", 0.00014),
    ("mn:x86:cdq", 0.00019),
    ("mn:x86:clc", 0.0004),
    ("mn:x86:cld", 0.00038),
    ("mn:x86:cmc", 0.00037),
    ("mn:x86:cmova", 0.00035),
    ("mn:x86:cmovae", 0.00037),
    ("mn:x86:cmovb", 0.00035),
    ("mn:x86:cmovbe", 0.00034),
    ("mn:x86:cmove", 0.00035),
    ("mn:x86:cmovg", 0.00034),
    ("mn:x86:cmovge", 0.00036),
    ("mn:x86:cmovl", 0.00035),
    ("mn:x86:cmovle", 0.00036),
    ("mn:x86:cmovne", 0.00035),
    ("mn:x86:cmovno", 0.00035),
    ("mn:x86:cmovnp", 0.00038),
    ("mn:x86:cmovns", 0.00036),
    ("mn:x86:cmovo", 0.00033),
    ("mn:x86:cmovp", 0.00035),
    ("mn:x86:cmovs", 0.00036),
    ("mn:x86:cmp", 0.00042),
    ("mn:x86:cmpsb", 0.00018),
    ("mn:x86:cmpxchg", 0.00036),
    ("mn:x86:cwd", 0.00016),
    ("mn:x86:cwde", 0.00018),
    ("mn:x86:dec", 0.00478),
    ("mn:x86:div", 0.00034),
    ("mn:x86:idiv", 0.00037),
    ("mn:x86:imul", 0.00035),
    ("mn:x86:inc", 0.00498),
    ("mn:x86:ja", 0.0004),
    ("mn:x86:jae", 0.00036),
    ("mn:x86:jb", 0.00039),
    ("mn:x86:jbe", 0.00039),
    ("mn:x86:je", 0.00037),
    ("mn:x86:jecxz", 0.00147),
    ("mn:x86:jg", 0.00051),
    ("mn:x86:jge", 0.00038),
    ("mn:x86:jl", 0.00035),
    ("mn:x86:jle", 0.00036),
    ("mn:x86:jmp", 0.0018),
    ("mn:x86:jne", 0.00036),
    ("mn:x86:jno", 0.00038),
    ("mn:x86:jnp", 0.00036),
    ("mn:x86:jns", 0.00036),
    ("mn:x86:jo", 0.00039),
    ("mn:x86:jp", 0.00037),
    ("mn:x86:js", 0.00037),
    ("mn:x86:lea", 0.00038),
    ("mn:x86:leave", 0.00147),
    ("mn:x86:loop", 0.00146),
    ("mn:x86:loope", 0.00149),
    ("mn:x86:loopne", 0.00147),
    ("mn:x86:mov", 0.00212),
    ("mn:x86:movnti", 0.00034),
    ("mn:x86:movsb", 0.00019),
    ("mn:x86:movsx", 0.00033),
    ("mn:x86:movzx", 0.00034),
    ("mn:x86:mul", 0.00036),
    ("mn:x86:neg", 0.00037),
    ("mn:x86:nop", 0.0004),
    ("mn:x86:not", 0.00035),
    ("mn:x86:or", 0.00049),
    ("mn:x86:pause", 0.00035),
    ("mn:x86:pop", 0.00169),
    ("mn:x86:push", 0.00176),
    ("mn:x86:ret", 0.00146),
    ("mn:x86:rol", 0.00039),
    ("mn:x86:ror", 0.00036),
    ("mn:x86:sahf", 0.00036),
    ("mn:x86:sar", 0.00039),
    ("mn:x86:sbb", 0.00043),
    ("mn:x86:scasb", 0.00018),
    ("mn:x86:seta", 0.00035),
    ("mn:x86:setae", 0.00033),
    ("mn:x86:setb", 0.00035),
    ("mn:x86:setbe", 0.00036),
    ("mn:x86:sete", 0.00035),
    ("mn:x86:setg", 0.00036),
    ("mn:x86:setge", 0.00034),
    ("mn:x86:setl", 0.00034),
    ("mn:x86:setle", 0.00036),
    ("mn:x86:setne", 0.00036),
    ("mn:x86:setno", 0.00035),
    ("mn:x86:setnp", 0.00037),
    ("mn:x86:setns", 0.00032),
    ("mn:x86:seto", 0.00035),
    ("mn:x86:setp", 0.00036),
    ("mn:x86:sets", 0.00035),
    ("mn:x86:shl", 0.00038),
    ("mn:x86:shld", 0.00034),
    ("mn:x86:shr", 0.00036),
    ("mn:x86:shrd", 0.00037),
    ("mn:x86:stc", 0.00032),
    ("mn:x86:std", 0.00037),
    ("mn:x86:stosb", 0.00018),
    ("mn:x86:sub", 0.00043),
    ("mn:x86:test", 0.00037),
    ("mn:x86:wait", 0.00036),
    ("mn:x86:xadd", 0.00037),
    ("mn:x86:xchg", 0.00053),
    ("mn:x86:xor", 0.00044),
];
