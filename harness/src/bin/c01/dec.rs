//! Capstone wrapper used by the harness for *classification only*: the mnemonic / operand-form /
//! prefix-set key of a case, the Appendix-A undefined-result masks, biasing of initial states
//! (which registers address memory) and the structural mode-invariance test for 32-bit cases.
//! What an instruction *means* is decided only by falcon's lifter and by the CPU.

#![allow(dead_code)]

use falcon_capstone::capstone as cs;
use falcon_capstone::capstone_sys::{x86_op_type, x86_reg};
use std::cell::RefCell;

#[derive(Clone, Debug, PartialEq, Eq)]
pub enum RegClass {
    Gpr,
    Xmm,
    Seg,
    Ip,
    Other,
}

#[derive(Clone, Debug, PartialEq, Eq)]
pub struct Reg {
    pub name: String,
    pub class: RegClass,
    /// register number 0..15 (GPR / XMM), segment index for Seg
    pub num: u8,
    pub bits: usize,
    /// ah/ch/dh/bh
    pub high: bool,
}

#[derive(Clone, Debug, PartialEq, Eq)]
pub enum Op {
    Reg(Reg),
    Mem { base: Option<Reg>, index: Option<Reg>, scale: i64, disp: i64, seg: Option<Reg>, bits: usize },
    Imm { val: i64, bits: usize },
}

#[derive(Clone, Debug)]
pub struct Dec {
    pub id: u32,
    pub mnemonic: String,
    pub op_str: String,
    pub len: usize,
    pub prefix: [u8; 4],
    pub rex: u8,
    pub addr_size: u8,
    pub opcode: [u8; 4],
    pub modrm: u8,
    /// byte offsets inside the instruction (0 when absent)
    pub disp_off: usize,
    pub disp_size: usize,
    pub imm_off: usize,
    pub imm_size: usize,
    /// an F2 byte among the legacy prefixes (capstone drops it from `prefix` for some opcodes)
    pub bytes_have_f2: bool,
    /// the bytes of this instruction
    pub raw: Vec<u8>,
    pub mode64: bool,
    pub ops: Vec<Op>,
}

const GPR64: [&str; 16] = ["rax", "rcx", "rdx", "rbx", "rsp", "rbp", "rsi", "rdi", "r8", "r9", "r10", "r11", "r12", "r13", "r14", "r15"];
const GPR32: [&str; 16] = ["eax", "ecx", "edx", "ebx", "esp", "ebp", "esi", "edi", "r8d", "r9d", "r10d", "r11d", "r12d", "r13d", "r14d", "r15d"];
const GPR16: [&str; 16] = ["ax", "cx", "dx", "bx", "sp", "bp", "si", "di", "r8w", "r9w", "r10w", "r11w", "r12w", "r13w", "r14w", "r15w"];
const GPR8: [&str; 16] = ["al", "cl", "dl", "bl", "spl", "bpl", "sil", "dil", "r8b", "r9b", "r10b", "r11b", "r12b", "r13b", "r14b", "r15b"];
const GPR8H: [&str; 4] = ["ah", "ch", "dh", "bh"];
const SEGS: [&str; 6] = ["es", "cs", "ss", "ds", "fs", "gs"];

pub fn parse_reg(name: &str) -> Reg {
    let mk = |class, num: usize, bits, high| Reg { name: name.to_string(), class, num: num as u8, bits, high };
    if let Some(i) = GPR64.iter().position(|n| *n == name) {
        return mk(RegClass::Gpr, i, 64, false);
    }
    if let Some(i) = GPR32.iter().position(|n| *n == name) {
        return mk(RegClass::Gpr, i, 32, false);
    }
    if let Some(i) = GPR16.iter().position(|n| *n == name) {
        return mk(RegClass::Gpr, i, 16, false);
    }
    if let Some(i) = GPR8.iter().position(|n| *n == name) {
        return mk(RegClass::Gpr, i, 8, false);
    }
    if let Some(i) = GPR8H.iter().position(|n| *n == name) {
        return mk(RegClass::Gpr, i, 8, true);
    }
    if let Some(i) = SEGS.iter().position(|n| *n == name) {
        return mk(RegClass::Seg, i, 16, false);
    }
    if let Some(rest) = name.strip_prefix("xmm") {
        if let Ok(n) = rest.parse::<usize>() {
            return mk(RegClass::Xmm, n, 128, false);
        }
    }
    if name == "rip" || name == "eip" || name == "ip" {
        return mk(RegClass::Ip, 0, if name == "rip" { 64 } else { 32 }, false);
    }
    mk(RegClass::Other, 0, 0, false)
}

/// the legacy prefix bytes at the start of an encoding (in 64-bit mode REX bytes that are followed
/// by further prefixes are skipped: the CPU ignores such a REX)
pub fn legacy_prefixes(bytes: &[u8], mode64: bool) -> Vec<u8> {
    let mut v = Vec::new();
    for b in bytes {
        if [0x66, 0x67, 0xF2, 0xF3, 0xF0, 0x26, 0x2E, 0x36, 0x3E, 0x64, 0x65].contains(b) {
            v.push(*b);
        } else if mode64 && (0x40..=0x4F).contains(b) {
            continue;
        } else {
            break;
        }
    }
    v
}

struct Handles {
    h64: cs::Capstone,
    h32: cs::Capstone,
}

thread_local! {
    static HANDLES: RefCell<Option<Handles>> = const { RefCell::new(None) };
}

fn open(mode64: bool) -> cs::Capstone {
    let h = cs::Capstone::new(cs::cs_arch::CS_ARCH_X86, if mode64 { cs::CS_MODE_64 } else { cs::CS_MODE_32 }).expect("cs_open");
    h.option(cs::cs_opt_type::CS_OPT_DETAIL, cs::cs_opt_value::CS_OPT_ON).expect("cs_option");
    h
}

/// Decode the first instruction of `bytes` at `addr`.
pub fn decode(mode64: bool, bytes: &[u8], addr: u64) -> Option<Dec> {
    HANDLES.with(|h| {
        let mut h = h.borrow_mut();
        if h.is_none() {
            *h = Some(Handles { h64: open(true), h32: open(false) });
        }
        let hs = h.as_ref().unwrap();
        let c = if mode64 { &hs.h64 } else { &hs.h32 };
        let buf = c.disasm(bytes, addr, 1).ok()?;
        let insn = buf.get(0)?;
        let id = match insn.id {
            cs::InstrIdArch::X86(i) => i as u32,
            _ => return None,
        };
        let detail = insn.detail.as_ref()?;
        let x = match detail.arch {
            cs::DetailsArch::X86(x) => x,
            _ => return None,
        };
        let reg_of = |r: x86_reg| -> Option<Reg> {
            if r == x86_reg::X86_REG_INVALID {
                None
            } else {
                Some(parse_reg(c.reg_name(r as u32).unwrap_or("?")))
            }
        };
        let mut ops = Vec::new();
        for i in 0..(x.op_count as usize).min(8) {
            let o = &x.operands[i];
            let bits = o.size as usize * 8;
            match o.type_ {
                x86_op_type::X86_OP_REG => ops.push(Op::Reg(reg_of(o.reg()).unwrap_or(parse_reg("?")))),
                x86_op_type::X86_OP_IMM => ops.push(Op::Imm { val: o.imm(), bits }),
                x86_op_type::X86_OP_MEM => {
                    let m = o.mem();
                    ops.push(Op::Mem {
                        base: reg_of(m.base),
                        index: reg_of(m.index),
                        scale: m.scale as i64,
                        disp: m.disp,
                        seg: reg_of(m.segment),
                        bits,
                    })
                }
                _ => {}
            }
        }
        Some(Dec {
            id,
            mnemonic: insn.mnemonic.clone(),
            op_str: insn.op_str.clone(),
            len: insn.size as usize,
            prefix: x.prefix,
            rex: x.rex,
            addr_size: x.addr_size,
            opcode: x.opcode,
            modrm: x.modrm,
            disp_off: x.encoding.disp_offset as usize,
            disp_size: x.encoding.disp_size as usize,
            imm_off: x.encoding.imm_offset as usize,
            imm_size: x.encoding.imm_size as usize,
            bytes_have_f2: legacy_prefixes(bytes, mode64).contains(&0xF2),
            raw: bytes[..(insn.size as usize).min(bytes.len())].to_vec(),
            mode64,
            ops,
        })
    })
}

impl Dec {
    /// operand-form signature, e.g. "r64,m64" / "r8h,r8l" / "m32,imm8" / "xmm,m128" / "-"
    pub fn form(&self) -> String {
        if self.ops.is_empty() {
            return "-".into();
        }
        let parts: Vec<String> = self
            .ops
            .iter()
            .map(|o| match o {
                Op::Reg(r) => match r.class {
                    RegClass::Gpr if r.bits == 8 => if r.high { "r8h".into() } else { "r8l".into() },
                    RegClass::Gpr => format!("r{}", r.bits),
                    RegClass::Xmm => "xmm".into(),
                    RegClass::Seg => "sreg".into(),
                    _ => r.name.trim_end_matches(|c: char| c.is_ascii_digit()).to_string(),
                },
                Op::Mem { bits, .. } => format!("m{}", bits),
                Op::Imm { bits, .. } => format!("imm{}", bits),
            })
            .collect();
        parts.join(",")
    }

    /// prefix set as capstone reports it: "-" or e.g. "66,f3,seg:fs,67" (plus "rex")
    pub fn prefix_set(&self) -> String {
        let mut v: Vec<String> = Vec::new();
        for p in self.prefix {
            match p {
                0 => {}
                0x26 => v.push("seg:es".into()),
                0x2e => v.push("seg:cs".into()),
                0x36 => v.push("seg:ss".into()),
                0x3e => v.push("seg:ds".into()),
                0x64 => v.push("seg:fs".into()),
                0x65 => v.push("seg:gs".into()),
                x => v.push(format!("{:02x}", x)),
            }
        }
        if self.rex != 0 {
            v.push("rex".into());
        }
        if v.is_empty() {
            "-".into()
        } else {
            v.sort();
            v.join(",")
        }
    }

    pub fn has_prefix(&self, p: u8) -> bool {
        self.prefix.contains(&p)
    }

    pub fn mem(&self) -> Option<&Op> {
        self.ops.iter().find(|o| matches!(o, Op::Mem { .. }))
    }

    pub fn uses_high_byte(&self) -> bool {
        self.ops.iter().any(|o| matches!(o, Op::Reg(r) if r.high))
    }

    /// explicit FS/GS override (anywhere among the legacy prefixes: in 64-bit mode a later
    /// ES/CS/SS/DS prefix is a null prefix and does not cancel it)
    pub fn fs_gs(&self) -> bool {
        let legacy = legacy_prefixes(&self.raw, self.mode64);
        legacy.contains(&0x64)
            || legacy.contains(&0x65)
            || self.ops.iter().any(|o| matches!(o, Op::Mem { seg: Some(s), .. } if s.name == "fs" || s.name == "gs"))
    }
}
