//! C04 — IL expression evaluation is exact fixed-width bit-vector arithmetic.
//!
//! Oracle: `fv::bv::Bv` (defined from the mathematical integers, self-tested against a naive i64
//! model at start-up).  Domains: every `Constant` method x widths 1..=300 (some up to 4096) x
//! boundary-biased operands; extension / truncation to every kind of target width; sort-correct
//! expression trees evaluated by `executor::eval`; sort-incorrect mutations rebuilt through the
//! checking constructors; scalar substitution; the derived `sra` and `rotl` builders.

use falcon::il::{self, Constant, Expression};
use fv::bv::{Bv, BvErr};
use fv::engine::{self, guard, Failure, Obs, Spec, Tier};
use fv::refil;
use fv::tape::{from_tape, Tape};
use num_bigint::BigUint;
use num_traits::{One, Zero};
use serde::{Deserialize, Serialize};
use std::collections::BTreeMap;

#[derive(Clone, Debug, Serialize, Deserialize)]
pub enum Case {
    /// Constant::<op>(a, b)
    Method { op: String, a: Bv, b: Bv },
    /// Constant::{zext,sext,trun}(target)
    Ext { op: String, a: Bv, target: usize },
    /// executor::eval of a sort-correct tree with constant leaves
    Tree { e: Expression },
    /// a tree that may violate the sort rules: rebuilding it through the constructors must fail
    /// exactly when the rules are violated
    Rebuild { e: Expression },
    /// replace_scalar for every scalar of `e`, then eval
    /// `namesake`: a scalar of `e` which shares its name with a scalar of `env` but not its width
    /// (a different variable: `Scalar` equality is name and width), never substituted
    Subst { e: Expression, env: BTreeMap<String, Bv>, namesake: Option<il::Scalar> },
    /// Expression::sra(x, n)
    Sra { x: Bv, n: Bv },
    /// Expression::rotl(x, s) with 0 <= s <= width
    Rotl { x: Bv, s: Bv },
}

const BIN_OPS: [&str; 17] = [
    "add", "sub", "mul", "divu", "modu", "divs", "mods", "and", "or", "xor", "shl", "shr", "ashr",
    "cmpeq", "cmpneq", "cmpltu", "cmplts",
];

fn pow2(w: usize) -> BigUint {
    BigUint::one() << w
}

fn gen_width(t: &mut Tape) -> usize {
    const FIXED: [usize; 20] = [8, 1, 2, 3, 7, 9, 15, 16, 17, 31, 32, 33, 63, 64, 65, 127, 128, 129, 200, 256];
    match t.weighted(&[60, 35, 5]) {
        0 => FIXED[t.below(FIXED.len())],
        1 => t.range(1, 300),
        _ => t.range(301, 4096),
    }
}

fn rand_bits(t: &mut Tape, w: usize) -> BigUint {
    let mut v = BigUint::zero();
    for _ in 0..w.div_ceil(64).min(8) {
        v = (v << 64) | BigUint::from(t.u64());
    }
    if w > 512 {
        // spread some high bits too
        v = (v.clone() << (w - 512)) | v;
    }
    v % pow2(w)
}

fn gen_val(t: &mut Tape, w: usize) -> Bv {
    let top = pow2(w - 1);
    let ones = pow2(w) - BigUint::one();
    let v = match t.below(11) {
        0 => BigUint::zero(),
        1 => BigUint::one(),
        2 => ones,
        3 => top,
        4 => top - BigUint::one(),
        5 => top + BigUint::one(),
        6 => BigUint::from(t.below(17)),
        7 => ones - BigUint::from(t.below(17)) % pow2(w),
        8 => BigUint::from(t.raw() & 0xff),
        _ => rand_bits(t, w),
    };
    Bv::new(v % pow2(w), w)
}

fn gen_amount(t: &mut Tape, w: usize) -> Bv {
    let wv = BigUint::from(w);
    let v = match t.below(12) {
        0 => BigUint::zero(),
        1 => BigUint::one(),
        2 => wv.clone() - BigUint::one(),
        3 => wv,
        4 => wv + BigUint::one(),
        5 => wv * 2u32,
        6 => pow2(w) - BigUint::one(),
        7 => BigUint::from(t.below(w + 1)),
        8 => BigUint::from(t.below(2 * w + 2)),
        9 => (BigUint::one() << 64) + BigUint::from(t.below(w + 1)),
        10 => BigUint::from(u64::MAX) - BigUint::from(t.below(3)),
        _ => rand_bits(t, w),
    };
    Bv::new(v % pow2(w), w)
}

fn konst(b: &Bv) -> Expression {
    Expression::Constant(b.to_constant())
}

/// sort-correct tree of width w; leaves are constants, or scalars from `scalars` when given
fn gen_tree(t: &mut Tape, w: usize, depth: usize, scalars: Option<&mut BTreeMap<String, Bv>>) -> Expression {
    use Expression as E;
    let mut scalars = scalars;
    if depth == 0 || t.chance(1, 5) {
        if let Some(env) = scalars.as_deref_mut() {
            if t.chance(1, 2) {
                // reuse or create a scalar of this width
                let existing: Vec<String> = env.iter().filter(|(_, v)| v.w == w).map(|(k, _)| k.clone()).collect();
                let name = if !existing.is_empty() && t.chance(1, 2) {
                    existing[t.below(existing.len())].clone()
                } else {
                    let n = format!("v{}", env.len());
                    let v = gen_val(t, w);
                    env.insert(n.clone(), v);
                    n
                };
                return E::Scalar(il::scalar(name, w));
            }
        }
        return konst(&gen_val(t, w));
    }
    let b = |e: Expression| Box::new(e);
    let mut kinds: Vec<u8> = (0..13).collect();
    kinds.push(13); // ite
    kinds.push(21); // zext
    kinds.push(22); // sext
    kinds.push(23); // trun
    if w == 1 {
        kinds.extend_from_slice(&[20, 20, 20, 20]);
    }
    let k = kinds[t.below(kinds.len())];
    macro_rules! sub {
        () => {
            gen_tree(t, w, depth - 1, scalars.as_deref_mut())
        };
    }
    match k {
        0 => E::Add(b(sub!()), b(sub!())),
        1 => E::Sub(b(sub!()), b(sub!())),
        2 => E::Mul(b(sub!()), b(sub!())),
        3 => E::Divu(b(sub!()), b(sub!())),
        4 => E::Modu(b(sub!()), b(sub!())),
        5 => E::Divs(b(sub!()), b(sub!())),
        6 => E::Mods(b(sub!()), b(sub!())),
        7 => E::And(b(sub!()), b(sub!())),
        8 => E::Or(b(sub!()), b(sub!())),
        9 => E::Xor(b(sub!()), b(sub!())),
        10 | 11 | 12 => {
            let l = sub!();
            let r = if t.chance(1, 2) { konst(&gen_amount(t, w)) } else { sub!() };
            match k {
                10 => E::Shl(b(l), b(r)),
                11 => E::Shr(b(l), b(r)),
                _ => E::AShr(b(l), b(r)),
            }
        }
        13 => {
            let c = gen_tree(t, 1, depth - 1, scalars.as_deref_mut());
            E::Ite(b(c), b(sub!()), b(sub!()))
        }
        20 => {
            let cw = gen_width(t).min(300);
            let l = gen_tree(t, cw, depth - 1, scalars.as_deref_mut());
            let r = gen_tree(t, cw, depth - 1, scalars.as_deref_mut());
            match t.below(4) {
                0 => E::Cmpeq(b(l), b(r)),
                1 => E::Cmpneq(b(l), b(r)),
                2 => E::Cmpltu(b(l), b(r)),
                _ => E::Cmplts(b(l), b(r)),
            }
        }
        21 | 22 if w >= 2 => {
            let sw = t.range(1, w - 1);
            let x = gen_tree(t, sw, depth - 1, scalars.as_deref_mut());
            if k == 21 {
                E::Zext(w, b(x))
            } else {
                E::Sext(w, b(x))
            }
        }
        23 => {
            let lw = w + t.range(1, 70);
            E::Trun(w, b(gen_tree(t, lw, depth - 1, scalars.as_deref_mut())))
        }
        _ => konst(&gen_val(t, w)),
    }
}

/// mutate one node so that (usually) a sort rule is violated
fn mutate(t: &mut Tape, e: &Expression) -> Expression {
    use Expression as E;
    // count nodes, pick one, rebuild with a change at that node
    fn count(e: &Expression) -> usize {
        use Expression as E;
        match e {
            E::Scalar(_) | E::Constant(_) => 1,
            E::Add(l, r) | E::Sub(l, r) | E::Mul(l, r) | E::Divu(l, r) | E::Modu(l, r) | E::Divs(l, r)
            | E::Mods(l, r) | E::And(l, r) | E::Or(l, r) | E::Xor(l, r) | E::Shl(l, r) | E::Shr(l, r)
            | E::AShr(l, r) | E::Cmpeq(l, r) | E::Cmpneq(l, r) | E::Cmplts(l, r) | E::Cmpltu(l, r) => {
                1 + count(l) + count(r)
            }
            E::Zext(_, x) | E::Sext(_, x) | E::Trun(_, x) => 1 + count(x),
            E::Ite(c, a, b) => 1 + count(c) + count(a) + count(b),
        }
    }
    fn go(e: &Expression, target: &mut usize, t: &mut Tape) -> Expression {
        use Expression as E;
        let here = *target == 0;
        if *target != usize::MAX {
            *target = target.wrapping_sub(1);
        }
        if here {
            *target = usize::MAX;
            let delta = [1usize, 7, 8, 64][t.below(4)];
            return match e {
                E::Constant(c) => {
                    let nw = if t.chance(1, 2) || c.bits() <= delta { c.bits() + delta } else { c.bits() - delta };
                    E::Constant(Constant::new_big(c.value().clone(), nw))
                }
                E::Scalar(s) => E::Scalar(il::scalar(s.name(), s.bits() + delta)),
                E::Zext(w, x) => {
                    let xb = refil::sort_of(x).unwrap_or(1);
                    E::Zext(if t.chance(1, 2) { xb } else { (*w).min(xb.saturating_sub(1)).max(1) }, x.clone())
                }
                E::Sext(w, x) => {
                    let xb = refil::sort_of(x).unwrap_or(1);
                    E::Sext(if t.chance(1, 2) { xb } else { (*w).min(xb.saturating_sub(1)).max(1) }, x.clone())
                }
                E::Trun(_, x) => {
                    let xb = refil::sort_of(x).unwrap_or(1);
                    E::Trun(if t.chance(1, 2) { xb } else { xb + delta }, x.clone())
                }
                E::Ite(c, a, _) => {
                    // replace the else arm by something of another width
                    let aw = refil::sort_of(a).unwrap_or(1);
                    E::Ite(c.clone(), a.clone(), Box::new(E::Constant(Constant::new(0, aw + delta))))
                }
                other => {
                    // binary: replace rhs by a constant of another width
                    let w = refil::sort_of(other).unwrap_or(1);
                    let lw = match other {
                        E::Cmpeq(l, _) | E::Cmpneq(l, _) | E::Cmplts(l, _) | E::Cmpltu(l, _) => refil::sort_of(l).unwrap_or(w),
                        _ => w,
                    };
                    let bad = Box::new(E::Constant(Constant::new(1, lw + delta)));
                    match other {
                        E::Add(l, _) => E::Add(l.clone(), bad),
                        E::Sub(l, _) => E::Sub(l.clone(), bad),
                        E::Mul(l, _) => E::Mul(l.clone(), bad),
                        E::Divu(l, _) => E::Divu(l.clone(), bad),
                        E::Modu(l, _) => E::Modu(l.clone(), bad),
                        E::Divs(l, _) => E::Divs(l.clone(), bad),
                        E::Mods(l, _) => E::Mods(l.clone(), bad),
                        E::And(l, _) => E::And(l.clone(), bad),
                        E::Or(l, _) => E::Or(l.clone(), bad),
                        E::Xor(l, _) => E::Xor(l.clone(), bad),
                        E::Shl(l, _) => E::Shl(l.clone(), bad),
                        E::Shr(l, _) => E::Shr(l.clone(), bad),
                        E::AShr(l, _) => E::AShr(l.clone(), bad),
                        E::Cmpeq(l, _) => E::Cmpeq(l.clone(), bad),
                        E::Cmpneq(l, _) => E::Cmpneq(l.clone(), bad),
                        E::Cmplts(l, _) => E::Cmplts(l.clone(), bad),
                        E::Cmpltu(l, _) => E::Cmpltu(l.clone(), bad),
                        x => x.clone(),
                    }
                }
            };
        }
        let b = |x: Expression| Box::new(x);
        match e {
            E::Scalar(_) | E::Constant(_) => e.clone(),
            E::Add(l, r) => E::Add(b(go(l, target, t)), b(go(r, target, t))),
            E::Sub(l, r) => E::Sub(b(go(l, target, t)), b(go(r, target, t))),
            E::Mul(l, r) => E::Mul(b(go(l, target, t)), b(go(r, target, t))),
            E::Divu(l, r) => E::Divu(b(go(l, target, t)), b(go(r, target, t))),
            E::Modu(l, r) => E::Modu(b(go(l, target, t)), b(go(r, target, t))),
            E::Divs(l, r) => E::Divs(b(go(l, target, t)), b(go(r, target, t))),
            E::Mods(l, r) => E::Mods(b(go(l, target, t)), b(go(r, target, t))),
            E::And(l, r) => E::And(b(go(l, target, t)), b(go(r, target, t))),
            E::Or(l, r) => E::Or(b(go(l, target, t)), b(go(r, target, t))),
            E::Xor(l, r) => E::Xor(b(go(l, target, t)), b(go(r, target, t))),
            E::Shl(l, r) => E::Shl(b(go(l, target, t)), b(go(r, target, t))),
            E::Shr(l, r) => E::Shr(b(go(l, target, t)), b(go(r, target, t))),
            E::AShr(l, r) => E::AShr(b(go(l, target, t)), b(go(r, target, t))),
            E::Cmpeq(l, r) => E::Cmpeq(b(go(l, target, t)), b(go(r, target, t))),
            E::Cmpneq(l, r) => E::Cmpneq(b(go(l, target, t)), b(go(r, target, t))),
            E::Cmplts(l, r) => E::Cmplts(b(go(l, target, t)), b(go(r, target, t))),
            E::Cmpltu(l, r) => E::Cmpltu(b(go(l, target, t)), b(go(r, target, t))),
            E::Zext(w, x) => E::Zext(*w, b(go(x, target, t))),
            E::Sext(w, x) => E::Sext(*w, b(go(x, target, t))),
            E::Trun(w, x) => E::Trun(*w, b(go(x, target, t))),
            E::Ite(c, x, y) => E::Ite(b(go(c, target, t)), b(go(x, target, t)), b(go(y, target, t))),
        }
    }
    let n = count(e);
    let mut target = t.below(n);
    let _ = E::Constant(Constant::new(0, 1));
    go(e, &mut target, t)
}

/// reference substitution: every occurrence of the variable `s` (name and width), nothing else
fn substitute(e: &Expression, s: &il::Scalar, by: &Expression) -> Expression {
    use Expression as E;
    let b = |x: &Expression| Box::new(substitute(x, s, by));
    match e {
        E::Scalar(x) => {
            if x.name() == s.name() && x.bits() == s.bits() {
                by.clone()
            } else {
                e.clone()
            }
        }
        E::Constant(_) => e.clone(),
        E::Add(l, r) => E::Add(b(l), b(r)),
        E::Sub(l, r) => E::Sub(b(l), b(r)),
        E::Mul(l, r) => E::Mul(b(l), b(r)),
        E::Divu(l, r) => E::Divu(b(l), b(r)),
        E::Modu(l, r) => E::Modu(b(l), b(r)),
        E::Divs(l, r) => E::Divs(b(l), b(r)),
        E::Mods(l, r) => E::Mods(b(l), b(r)),
        E::And(l, r) => E::And(b(l), b(r)),
        E::Or(l, r) => E::Or(b(l), b(r)),
        E::Xor(l, r) => E::Xor(b(l), b(r)),
        E::Shl(l, r) => E::Shl(b(l), b(r)),
        E::Shr(l, r) => E::Shr(b(l), b(r)),
        E::AShr(l, r) => E::AShr(b(l), b(r)),
        E::Cmpeq(l, r) => E::Cmpeq(b(l), b(r)),
        E::Cmpneq(l, r) => E::Cmpneq(b(l), b(r)),
        E::Cmplts(l, r) => E::Cmplts(b(l), b(r)),
        E::Cmpltu(l, r) => E::Cmpltu(b(l), b(r)),
        E::Zext(w, x) => E::Zext(*w, b(x)),
        E::Sext(w, x) => E::Sext(*w, b(x)),
        E::Trun(w, x) => E::Trun(*w, b(x)),
        E::Ite(c, x, y) => E::Ite(b(c), b(x), b(y)),
    }
}

pub fn decode(t: &mut Tape) -> Case {
    match t.weighted(&[40, 14, 18, 8, 8, 6, 6]) {
        0 => {
            let op = BIN_OPS[t.below(BIN_OPS.len())].to_string();
            let w = gen_width(t);
            let a = gen_val(t, w);
            let shift = matches!(op.as_str(), "shl" | "shr" | "ashr");
            let mut b = if shift { gen_amount(t, w) } else { gen_val(t, w) };
            // a few width-mismatched pairs
            if t.chance(1, 25) {
                let w2 = gen_width(t);
                b = gen_val(t, w2);
            }
            Case::Method { op, a, b }
        }
        1 => {
            let op = ["zext", "sext", "trun"][t.below(3)].to_string();
            let w = gen_width(t).min(400);
            let a = gen_val(t, w);
            // every kind of target: below, equal, above by 1.., byte multiples and not
            let target = match t.below(5) {
                0 => t.range(1, w),
                1 => w,
                2 => w + 1,
                3 => w + t.range(1, 70),
                _ => ((w / 8) + t.range(1, 9)) * 8,
            };
            Case::Ext { op, a, target }
        }
        2 => {
            let w = gen_width(t).min(300);
            let d = t.range(1, 5);
            Case::Tree { e: gen_tree(t, w, d, None) }
        }
        3 => {
            let w = gen_width(t).min(300);
            let d = t.range(1, 4);
            let e = gen_tree(t, w, d, None);
            let e = if t.chance(2, 3) { mutate(t, &e) } else { e };
            Case::Rebuild { e }
        }
        4 => {
            let w = gen_width(t).min(300);
            let mut env = BTreeMap::new();
            let d = t.range(1, 4);
            let e = gen_tree(t, w, d, Some(&mut env));
            // one time in three: a second variable which has the name of a substituted one and
            // another width, brought to the width of the tree by an extension or a truncation
            let mut namesake = None;
            let mut e = e;
            if !env.is_empty() && t.chance(1, 3) {
                let names: Vec<(String, usize)> = env.iter().map(|(k, v)| (k.clone(), v.w)).collect();
                let (name, wn) = names[t.below(names.len())].clone();
                let mut w2 = if t.chance(1, 2) { t.range(1, w.max(2)) } else { w + t.range(1, 40) };
                if w2 == wn {
                    w2 += 1;
                }
                let other = il::scalar(name, w2);
                let leaf = Expression::Scalar(other.clone());
                let leaf = if w2 < w {
                    if t.chance(1, 2) { Expression::Zext(w, Box::new(leaf)) } else { Expression::Sext(w, Box::new(leaf)) }
                } else if w2 > w {
                    Expression::Trun(w, Box::new(leaf))
                } else {
                    leaf
                };
                e = match t.below(3) {
                    0 => Expression::Add(Box::new(e), Box::new(leaf)),
                    1 => Expression::Xor(Box::new(leaf), Box::new(e)),
                    _ => Expression::Ite(Box::new(Expression::Cmpltu(Box::new(e.clone()), Box::new(leaf.clone()))), Box::new(e), Box::new(leaf)),
                };
                namesake = Some(other);
            }
            Case::Subst { e, env, namesake }
        }
        5 => {
            let w = gen_width(t).min(300);
            let x = gen_val(t, w);
            let n = gen_amount(t, w);
            Case::Sra { x, n }
        }
        _ => {
            let w = gen_width(t).min(300);
            let x = gen_val(t, w);
            let s = Bv::new(BigUint::from(t.below(w + 1)) % pow2(w), w);
            Case::Rotl { x, s }
        }
    }
}

// ---------------------------------------------------------------------------------------------

#[derive(Debug, PartialEq, Eq, Clone)]
enum Out {
    Val(Bv),
    Sort,
    DivZero,
    OtherErr(String),
}

fn out_of_falcon(r: Result<Constant, falcon::Error>) -> Out {
    match r {
        Ok(c) => Out::Val(Bv::from_constant(&c)),
        Err(falcon::Error::Sort) => Out::Sort,
        Err(falcon::Error::DivideByZero) => Out::DivZero,
        Err(e) => Out::OtherErr(e.to_string()),
    }
}

fn out_of_ref(r: Result<Bv, BvErr>) -> Out {
    match r {
        Ok(v) => Out::Val(v),
        Err(BvErr::Sort) => Out::Sort,
        Err(BvErr::DivZero) => Out::DivZero,
    }
}

fn out_of_fault(r: Result<Bv, refil::Fault>) -> Out {
    match r {
        Ok(v) => Out::Val(v),
        Err(refil::Fault::DivZero) => Out::DivZero,
        Err(refil::Fault::Sort(_)) => Out::Sort,
        Err(f) => Out::OtherErr(format!("{:?}", f)),
    }
}

fn kind(got: &Out, want: &Out) -> &'static str {
    match (got, want) {
        (Out::Val(_), Out::Val(_)) => "wrong-value",
        (Out::Val(_), _) => "value-instead-of-error",
        (_, Out::Val(_)) => "error-instead-of-value",
        _ => "wrong-error",
    }
}

fn width_class(w: usize) -> &'static str {
    match w {
        1 => "w1",
        2..=63 => "w2-63",
        64 => "w64",
        65..=128 => "w65-128",
        _ => "w>128",
    }
}

fn val_class(v: &Bv) -> &'static str {
    if v.is_zero() {
        "zero"
    } else if v.v == pow2(v.w) - BigUint::one() {
        "ones"
    } else if v.msb() {
        "neg"
    } else {
        "pos"
    }
}

fn amount_class(n: &Bv, w: usize) -> &'static str {
    let wv = BigUint::from(w);
    if n.v < wv {
        "amount<width"
    } else if n.v == wv {
        "amount=width"
    } else if n.v.bits() <= 64 {
        "amount>width"
    } else {
        "amount>2^64"
    }
}

fn call_method(op: &str, a: &Constant, b: &Constant) -> Result<Constant, falcon::Error> {
    match op {
        "add" => a.add(b),
        "sub" => a.sub(b),
        "mul" => a.mul(b),
        "divu" => a.divu(b),
        "modu" => a.modu(b),
        "divs" => a.divs(b),
        "mods" => a.mods(b),
        "and" => a.and(b),
        "or" => a.or(b),
        "xor" => a.xor(b),
        "shl" => a.shl(b),
        "shr" => a.shr(b),
        "ashr" => a.ashr(b),
        "cmpeq" => a.cmpeq(b),
        "cmpneq" => a.cmpneq(b),
        "cmpltu" => a.cmpltu(b),
        "cmplts" => a.cmplts(b),
        _ => unreachable!(),
    }
}

fn ref_method(op: &str, a: &Bv, b: &Bv) -> Result<Bv, BvErr> {
    match op {
        "add" => a.add(b),
        "sub" => a.sub(b),
        "mul" => a.mul(b),
        "divu" => a.divu(b),
        "modu" => a.modu(b),
        "divs" => a.divs(b),
        "mods" => a.mods(b),
        "and" => a.and(b),
        "or" => a.or(b),
        "xor" => a.xor(b),
        "shl" => a.shl(b),
        "shr" => a.shr(b),
        "ashr" => a.ashr(b),
        "cmpeq" => a.cmpeq(b),
        "cmpneq" => a.cmpneq(b),
        "cmpltu" => a.cmpltu(b),
        "cmplts" => a.cmplts(b),
        _ => unreachable!(),
    }
}

/// eager reference evaluation (both ite arms), used only to recognise "error in the untaken arm"
fn eval_eager(e: &Expression, s: &refil::Scalars) -> Result<Bv, refil::Fault> {
    if let Expression::Ite(c, a, b) = e {
        let cv = eval_eager(c, s)?;
        let av = eval_eager(a, s)?;
        let bv = eval_eager(b, s)?;
        return Ok(if cv.is_one() { av } else { bv });
    }
    // for every other node: recurse through children eagerly by rebuilding with constants
    use Expression as E;
    let k = |x: &Expression| -> Result<Expression, refil::Fault> { Ok(konst(&eval_eager(x, s)?)) };
    let shallow = match e {
        E::Scalar(_) | E::Constant(_) => e.clone(),
        E::Add(l, r) => E::Add(Box::new(k(l)?), Box::new(k(r)?)),
        E::Sub(l, r) => E::Sub(Box::new(k(l)?), Box::new(k(r)?)),
        E::Mul(l, r) => E::Mul(Box::new(k(l)?), Box::new(k(r)?)),
        E::Divu(l, r) => E::Divu(Box::new(k(l)?), Box::new(k(r)?)),
        E::Modu(l, r) => E::Modu(Box::new(k(l)?), Box::new(k(r)?)),
        E::Divs(l, r) => E::Divs(Box::new(k(l)?), Box::new(k(r)?)),
        E::Mods(l, r) => E::Mods(Box::new(k(l)?), Box::new(k(r)?)),
        E::And(l, r) => E::And(Box::new(k(l)?), Box::new(k(r)?)),
        E::Or(l, r) => E::Or(Box::new(k(l)?), Box::new(k(r)?)),
        E::Xor(l, r) => E::Xor(Box::new(k(l)?), Box::new(k(r)?)),
        E::Shl(l, r) => E::Shl(Box::new(k(l)?), Box::new(k(r)?)),
        E::Shr(l, r) => E::Shr(Box::new(k(l)?), Box::new(k(r)?)),
        E::AShr(l, r) => E::AShr(Box::new(k(l)?), Box::new(k(r)?)),
        E::Cmpeq(l, r) => E::Cmpeq(Box::new(k(l)?), Box::new(k(r)?)),
        E::Cmpneq(l, r) => E::Cmpneq(Box::new(k(l)?), Box::new(k(r)?)),
        E::Cmplts(l, r) => E::Cmplts(Box::new(k(l)?), Box::new(k(r)?)),
        E::Cmpltu(l, r) => E::Cmpltu(Box::new(k(l)?), Box::new(k(r)?)),
        E::Zext(w, x) => E::Zext(*w, Box::new(k(x)?)),
        E::Sext(w, x) => E::Sext(*w, Box::new(k(x)?)),
        E::Trun(w, x) => E::Trun(*w, Box::new(k(x)?)),
        E::Ite(..) => unreachable!(),
    };
    refil::eval(&shallow, s)
}

/// features of a tree for the evidence classes and for signatures
#[derive(Default)]
struct Feat {
    ops: std::collections::BTreeSet<&'static str>,
    max_w: usize,
    nodes: usize,
}

fn features(e: &Expression, f: &mut Feat) {
    use Expression as E;
    f.nodes += 1;
    f.max_w = f.max_w.max(e.bits());
    let (name, kids): (&'static str, Vec<&Expression>) = match e {
        E::Scalar(_) => ("scalar", vec![]),
        E::Constant(_) => ("const", vec![]),
        E::Add(l, r) => ("add", vec![l, r]),
        E::Sub(l, r) => ("sub", vec![l, r]),
        E::Mul(l, r) => ("mul", vec![l, r]),
        E::Divu(l, r) => ("divu", vec![l, r]),
        E::Modu(l, r) => ("modu", vec![l, r]),
        E::Divs(l, r) => ("divs", vec![l, r]),
        E::Mods(l, r) => ("mods", vec![l, r]),
        E::And(l, r) => ("and", vec![l, r]),
        E::Or(l, r) => ("or", vec![l, r]),
        E::Xor(l, r) => ("xor", vec![l, r]),
        E::Shl(l, r) => ("shl", vec![l, r]),
        E::Shr(l, r) => ("shr", vec![l, r]),
        E::AShr(l, r) => ("ashr", vec![l, r]),
        E::Cmpeq(l, r) => ("cmpeq", vec![l, r]),
        E::Cmpneq(l, r) => ("cmpneq", vec![l, r]),
        E::Cmplts(l, r) => ("cmplts", vec![l, r]),
        E::Cmpltu(l, r) => ("cmpltu", vec![l, r]),
        E::Zext(_, x) => ("zext", vec![x]),
        E::Sext(_, x) => ("sext", vec![x]),
        E::Trun(_, x) => ("trun", vec![x]),
        E::Ite(c, a, b) => ("ite", vec![c, a, b]),
    };
    f.ops.insert(name);
    for k in kids {
        features(k, f);
    }
}

/// Rebuild through falcon's checking constructors, bottom-up.
fn rebuild(e: &Expression) -> Result<Expression, falcon::Error> {
    use Expression as E;
    Ok(match e {
        E::Scalar(s) => Expression::scalar(s.clone()),
        E::Constant(c) => Expression::constant(c.clone()),
        E::Add(l, r) => Expression::add(rebuild(l)?, rebuild(r)?)?,
        E::Sub(l, r) => Expression::sub(rebuild(l)?, rebuild(r)?)?,
        E::Mul(l, r) => Expression::mul(rebuild(l)?, rebuild(r)?)?,
        E::Divu(l, r) => Expression::divu(rebuild(l)?, rebuild(r)?)?,
        E::Modu(l, r) => Expression::modu(rebuild(l)?, rebuild(r)?)?,
        E::Divs(l, r) => Expression::divs(rebuild(l)?, rebuild(r)?)?,
        E::Mods(l, r) => Expression::mods(rebuild(l)?, rebuild(r)?)?,
        E::And(l, r) => Expression::and(rebuild(l)?, rebuild(r)?)?,
        E::Or(l, r) => Expression::or(rebuild(l)?, rebuild(r)?)?,
        E::Xor(l, r) => Expression::xor(rebuild(l)?, rebuild(r)?)?,
        E::Shl(l, r) => Expression::shl(rebuild(l)?, rebuild(r)?)?,
        E::Shr(l, r) => Expression::shr(rebuild(l)?, rebuild(r)?)?,
        E::AShr(l, r) => Expression::ashr(rebuild(l)?, rebuild(r)?)?,
        E::Cmpeq(l, r) => Expression::cmpeq(rebuild(l)?, rebuild(r)?)?,
        E::Cmpneq(l, r) => Expression::cmpneq(rebuild(l)?, rebuild(r)?)?,
        E::Cmplts(l, r) => Expression::cmplts(rebuild(l)?, rebuild(r)?)?,
        E::Cmpltu(l, r) => Expression::cmpltu(rebuild(l)?, rebuild(r)?)?,
        E::Zext(w, x) => Expression::zext(*w, rebuild(x)?)?,
        E::Sext(w, x) => Expression::sext(*w, rebuild(x)?)?,
        E::Trun(w, x) => Expression::trun(*w, rebuild(x)?)?,
        E::Ite(c, a, b) => Expression::ite(rebuild(c)?, rebuild(a)?, rebuild(b)?)?,
    })
}

fn compare_eval(what: &str, e: &Expression, env: &refil::Scalars, falcon_e: &Expression, obs: &mut Obs) -> Result<(), Failure> {
    let want = out_of_fault(refil::eval(e, env));
    let mut f = Feat::default();
    features(e, &mut f);
    let got = match guard(|| falcon::executor::eval(falcon_e)) {
        Ok(r) => out_of_falcon(r),
        Err(pi) => {
            let ops: Vec<&str> = f.ops.iter().copied().filter(|o| *o != "const" && *o != "scalar").collect();
            let which = if ops.len() == 1 { ops[0].to_string() } else { "tree".to_string() };
            fv::fail!(format!("C04|{}|{}|panic", what, which), "evaluating {} panicked: {} ({}:{})", e, pi.msg, pi.file, pi.line)
        }
    };
    if got != want {
        // an error in the untaken arm of an ite is acceptable either way
        if let (Out::Val(_), false) = (&want, matches!(got, Out::Val(_))) {
            let eager = out_of_fault(eval_eager(e, env));
            if eager == got {
                obs.class("eager-ite-error-accepted");
                return Ok(());
            }
        }
        let ops: Vec<&str> = f.ops.iter().copied().filter(|o| *o != "const" && *o != "scalar").collect();
        let which = if ops.len() == 1 { ops[0].to_string() } else { "tree".to_string() };
        fv::fail!(format!("C04|{}|{}|{}", what, which, kind(&got, &want)), "{} = {:?}, reference {:?}", e, got, want);
    }
    if f.nodes >= 3 {
        let ops: Vec<&str> = f.ops.iter().copied().collect();
        obs.nontrivial(&(what.to_string(), ops, width_class(f.max_w), matches!(want, Out::Val(_))));
    }
    obs.class(if f.max_w > 64 { "tree-width>64" } else { "tree-width<=64" });
    Ok(())
}

pub fn check(case: &Case, obs: &mut Obs) -> Result<(), Failure> {
    match case {
        Case::Method { op, a, b } => {
            obs.class("method");
            let want = out_of_ref(ref_method(op, a, b));
            let shift = matches!(op.as_str(), "shl" | "shr" | "ashr");
            let cls = if a.w != b.w {
                "width-mismatch".to_string()
            } else if shift {
                format!("{},{}", amount_class(b, a.w), val_class(a))
            } else {
                format!("{},{}", val_class(a), val_class(b))
            };
            let (ca, cb) = (a.to_constant(), b.to_constant());
            let got = match guard(|| call_method(op, &ca, &cb)) {
                Ok(r) => out_of_falcon(r),
                Err(pi) => fv::fail!(
                    format!("C04|Constant::{}|panic|{}", op, if shift { amount_class(b, a.w) } else { "operands" }),
                    "Constant::{}({}, {}) panicked: {} ({}:{})", op, a, b, pi.msg, pi.file, pi.line
                ),
            };
            if got != want {
                fv::fail!(
                    format!("C04|Constant::{}|{}|{}", op, kind(&got, &want), if shift { cls.clone() } else { val_class(a).to_string() }),
                    "Constant::{}({}, {}) = {:?}, reference {:?}", op, a, b, got, want
                );
            }
            if a.w > 64 {
                obs.class("width>64");
            }
            if shift && a.w == b.w && b.v >= BigUint::from(a.w) {
                obs.class("shift-amount>=width");
            }
            if matches!(op.as_str(), "divs" | "mods") && a.w == b.w && (a.msb() || b.msb()) && !b.is_zero() {
                obs.class("signed-division-negative-operand");
            }
            if a.w != b.w {
                obs.class("width-mismatch");
            }
            if !(a.is_zero() && b.is_zero()) && a.w == b.w {
                obs.nontrivial(&(op.clone(), width_class(a.w), cls));
            }
            if obs.want_sample() {
                obs.sample(format!("Constant::{}({}, {}) = {:?}", op, a, b, want));
            }
        }
        Case::Ext { op, a, target } => {
            obs.class("ext");
            let want = out_of_ref(match op.as_str() {
                "zext" => a.zext(*target),
                "sext" => a.sext(*target),
                _ => a.trun(*target),
            });
            let c = a.to_constant();
            let got = match guard(|| match op.as_str() {
                "zext" => c.zext(*target),
                "sext" => c.sext(*target),
                _ => c.trun(*target),
            }) {
                Ok(r) => out_of_falcon(r),
                Err(pi) => fv::fail!(format!("C04|Constant::{}|panic", op), "Constant::{}({}, {}) panicked: {}", op, a, target, pi.msg),
            };
            let tcls = if *target <= a.w { "target<=width" } else if target % 8 == 0 { "target-byte-multiple" } else { "target-not-byte-multiple" };
            if got != want {
                fv::fail!(format!("C04|Constant::{}|{}|{}", op, kind(&got, &want), tcls), "Constant::{}({}, {}) = {:?}, reference {:?}", op, a, target, got, want);
            }
            // the same through the expression constructor + eval (valid targets only)
            if matches!(want, Out::Val(_)) {
                let e = match op.as_str() {
                    "zext" => Expression::Zext(*target, Box::new(konst(a))),
                    "sext" => Expression::Sext(*target, Box::new(konst(a))),
                    _ => Expression::Trun(*target, Box::new(konst(a))),
                };
                compare_eval("eval", &e, &BTreeMap::new(), &e, obs)?;
            }
            if op == "sext" && *target > a.w && target % 8 != 0 {
                obs.class("sext-to-non-byte-width");
            }
            obs.nontrivial(&(op.clone(), width_class(a.w), tcls, val_class(a)));
            if obs.want_sample() {
                obs.sample(format!("Constant::{}({}, {}) = {:?}", op, a, target, want));
            }
        }
        Case::Tree { e } => {
            obs.class("tree");
            if let Err(why) = refil::sort_of(e) {
                return Err(Failure::new("harness|tree-generator", format!("generated an ill-sorted tree: {}", why)));
            }
            compare_eval("eval", e, &BTreeMap::new(), e, obs)?;
            if obs.want_sample() {
                obs.sample(format!("eval({}) = {:?}", e, refil::eval(e, &BTreeMap::new())));
            }
        }
        Case::Rebuild { e } => {
            obs.class("rebuild");
            let well = refil::sort_of(e);
            let got = match guard(|| rebuild(e)) {
                Ok(r) => r,
                Err(pi) => fv::fail!("C04|constructors|panic", "rebuilding {} through the constructors panicked: {}", e, pi.msg),
            };
            match (&well, &got) {
                (Ok(_), Ok(r)) => {
                    if r != e {
                        fv::fail!("C04|constructors|changed-tree", "constructors rebuilt {} as {}", e, r);
                    }
                    obs.class("rebuild-well-sorted");
                }
                (Err(_), Err(falcon::Error::Sort)) => {
                    obs.class("rebuild-ill-sorted-rejected");
                }
                (Err(why), Ok(_)) => fv::fail!("C04|constructors|accepted-ill-sorted", "constructors accepted {} although {}", e, why),
                (Err(why), Err(other)) => fv::fail!("C04|constructors|wrong-error", "constructors rejected {} ({}) with {} instead of a sort error", e, why, other),
                (Ok(_), Err(err)) => {
                    let mut f = Feat::default();
                    features(e, &mut f);
                    fv::fail!("C04|constructors|rejected-well-sorted", "constructors rejected the well-sorted {} with {}", e, err)
                }
            }
            let mut f = Feat::default();
            features(e, &mut f);
            let ops: Vec<&str> = f.ops.iter().copied().collect();
            obs.nontrivial(&("rebuild", ops, well.is_ok()));
        }
        Case::Subst { e, env, namesake } => {
            obs.class("subst");
            // substitute every scalar by its constant through replace_scalar; every step is the
            // structural substitution of that one variable (name and width) and of nothing else
            let mut cur = e.clone();
            for (name, v) in env {
                let s = il::scalar(name.clone(), v.w);
                let want = substitute(&cur, &s, &konst(v));
                cur = match guard(|| cur.replace_scalar(&s, &konst(v))) {
                    Ok(Ok(x)) => x,
                    Ok(Err(err)) => fv::fail!(format!("C04|replace_scalar|error{}", if namesake.is_some() { "|with-namesake" } else { "" }), "replace_scalar({}, {}) on {} failed: {}", s, v, cur, err),
                    Err(pi) => fv::fail!("C04|replace_scalar|panic", "replace_scalar panicked: {}", pi.msg),
                };
                if cur != want {
                    fv::fail!(format!("C04|replace_scalar|not-the-substitution{}", if namesake.is_some() { "|with-namesake" } else { "" }), "replace_scalar({}, {}) gave {}, the substitution of that variable is {}", s, v, cur, want);
                }
            }
            match namesake {
                None => {
                    if !cur.scalars().is_empty() {
                        fv::fail!("C04|replace_scalar|scalar-left", "after substituting every scalar, {} still mentions scalars", cur);
                    }
                    compare_eval("replace_scalar", e, env, &cur, obs)?;
                }
                Some(other) => {
                    // the variable of another width is still there, and only it
                    let left = cur.scalars();
                    if left.is_empty() || left.iter().any(|s| *s != other) {
                        fv::fail!("C04|replace_scalar|namesake-captured", "after substituting {:?} in {}, the scalars left are {:?}; {} was never substituted", env.keys().collect::<Vec<_>>(), e, left, other);
                    }
                    obs.class("subst-with-namesake-of-another-width");
                    let mut f = Feat::default();
                    features(e, &mut f);
                    let ops: Vec<&str> = f.ops.iter().copied().collect();
                    obs.nontrivial(&("subst-namesake", ops, width_class(f.max_w)));
                }
            }
            if !env.is_empty() {
                obs.class("subst-with-scalars");
            }
        }
        Case::Sra { x, n } => {
            obs.class("sra");
            let want = out_of_ref(x.ashr(n));
            let built = match guard(|| Expression::sra(konst(x), konst(n))) {
                Ok(Ok(e)) => e,
                Ok(Err(err)) => fv::fail!("C04|sra|builder-error", "Expression::sra({}, {}) failed: {}", x, n, err),
                Err(pi) => fv::fail!("C04|sra|builder-panic", "Expression::sra panicked: {}", pi.msg),
            };
            let got = match guard(|| falcon::executor::eval(&built)) {
                Ok(r) => out_of_falcon(r),
                Err(pi) => fv::fail!(format!("C04|sra|eval-panic|{}", amount_class(n, x.w)), "eval(sra({}, {})) panicked: {}", x, n, pi.msg),
            };
            if got != want {
                fv::fail!(format!("C04|sra|{}|{},{}", kind(&got, &want), amount_class(n, x.w), if x.msb() { "neg" } else { "nonneg" }), "sra({}, {}) evaluates to {:?}, arithmetic shift is {:?}", x, n, got, want);
            }
            if n.v >= BigUint::from(x.w) {
                obs.class("shift-amount>=width");
            }
            obs.nontrivial(&("sra", width_class(x.w), amount_class(n, x.w), val_class(x)));
        }
        Case::Rotl { x, s } => {
            obs.class("rotl");
            let sv = s.to_u64().unwrap_or(0) as usize;
            // s is reduced modulo 2^w by construction; only amounts <= w that fit the width are meant
            let want = Out::Val(x.rotl(sv));
            let built = match guard(|| Expression::rotl(konst(x), konst(s))) {
                Ok(Ok(e)) => e,
                Ok(Err(err)) => fv::fail!("C04|rotl|builder-error", "Expression::rotl({}, {}) failed: {}", x, s, err),
                Err(pi) => fv::fail!("C04|rotl|builder-panic", "Expression::rotl panicked: {}", pi.msg),
            };
            let got = match guard(|| falcon::executor::eval(&built)) {
                Ok(r) => out_of_falcon(r),
                Err(pi) => fv::fail!("C04|rotl|eval-panic", "eval(rotl({}, {})) panicked: {}", x, s, pi.msg),
            };
            if got != want {
                fv::fail!(format!("C04|rotl|{}|{}", kind(&got, &want), if sv == 0 { "s=0" } else if sv == x.w { "s=width" } else { "0<s<width" }), "rotl({}, {}) evaluates to {:?}, rotation is {:?}", x, s, got, want);
            }
            obs.nontrivial(&("rotl", width_class(x.w), sv == 0, sv == x.w, val_class(x)));
        }
    }
    Ok(())
}

pub fn render(c: &Case) -> String {
    match c {
        Case::Method { op, a, b } => format!("Constant::{}({}, {})", op, a, b),
        Case::Ext { op, a, target } => format!("Constant::{}({}, {})", op, a, target),
        Case::Tree { e } => format!("eval({})", e),
        Case::Rebuild { e } => format!("rebuild({})", e),
        Case::Subst { e, env, namesake } => format!("subst({}, {:?}{})", e, env, match namesake { Some(n) => format!(", namesake {}", n), None => String::new() }),
        Case::Sra { x, n } => format!("sra({}, {})", x, n),
        Case::Rotl { x, s } => format!("rotl({}, {})", x, s),
    }
}

/// libFuzzer entry: the input bytes are the entropy tape (little-endian u32 words).
pub fn fuzz_bytes(data: &[u8]) {
    let mut tape: Vec<u32> = data.chunks(4).map(|c| {
        let mut b = [0u8; 4];
        b[..c.len()].copy_from_slice(c);
        u32::from_le_bytes(b)
    }).collect();
    tape.truncate(260);
    let case = decode(&mut Tape::new(&tape));
    engine::fuzz_one("C04", &case, &render, &check);
}

#[allow(dead_code)]
fn main() -> std::process::ExitCode {
    if let Err(e) = fv::bv::self_test() {
        println!("HARNESS-ERROR property=C04 {}", e);
        return std::process::ExitCode::from(3);
    }
    let mut spec = Spec::new(
        "C04",
        "Constant methods, extensions, expression trees (depth<=5, all variants incl. AShr), constructor rebuilds of mutated trees, replace_scalar, sra and rotl at widths 1..300 (some to 4096) with boundary-biased operands and shift amounts {0,1,w-1,w,w+1,2w,2^w-1,>2^64}; oracle = Bv; non-trivial = not both operands zero (methods) / tree of >=3 nodes; distinct = (operator or operator set, width class, operand/amount classes)",
        Box::new(|_t: Tier| from_tape(260, decode)),
        |t| t.pick(10_000_000, 200_000_000),
        check,
    );
    spec.render = render;
    spec.floors = vec![
        ("shift-amount>=width", 0.01),
        ("signed-division-negative-operand", 0.01),
        ("sext-to-non-byte-width", 0.01),
        ("width>64", 0.01),
        ("tree-width>64", 0.01),
        ("rebuild-ill-sorted-rejected", 0.01),
        ("subst-with-scalars", 0.01),
        ("subst-with-namesake-of-another-width", 0.004),
    ];
    spec.assumptions = vec![
        "widths are capped at 4096 bits so that only operand values can be blamed for allocation".into(),
        "truncation to 0 bits and eval() of trees built around the checking constructors are outside the stated domain and not asserted".into(),
        "an error raised from the untaken arm of an ite is accepted (the property fixes values, not the evaluation order of erroneous sub-terms)".into(),
        "rotl is claimed for 0 <= s <= width only".into(),
    ];
    engine::main(spec)
}
