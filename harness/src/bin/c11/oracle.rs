//! Brute-force textbook definitions on dense bit-set graphs (n <= 63).  Nothing in here calls
//! falcon.  Every definition is the declarative one (paths, deletion of a vertex, set inclusion),
//! deliberately not the algorithm falcon uses.

use fv::gen_graph::GraphSpec;
use std::collections::{BTreeMap, BTreeSet};

pub fn bit(i: usize) -> u64 {
    1u64 << i
}

pub fn has(m: u64, i: usize) -> bool {
    (m >> i) & 1 == 1
}

pub fn bits(m: u64) -> impl Iterator<Item = usize> {
    let mut m = m;
    std::iter::from_fn(move || {
        if m == 0 {
            None
        } else {
            let i = m.trailing_zeros() as usize;
            m &= m - 1;
            Some(i)
        }
    })
}

pub struct Dense {
    pub ids: Vec<usize>,
    pub idx: BTreeMap<usize, usize>,
    pub succ: Vec<u64>,
    pub pred: Vec<u64>,
}

impl Dense {
    pub fn new(g: &GraphSpec) -> Result<Dense, String> {
        if g.vertices.is_empty() || g.vertices.len() > 63 {
            return Err(format!("{} vertices (1..=63 supported)", g.vertices.len()));
        }
        let mut idx = BTreeMap::new();
        for (i, v) in g.vertices.iter().enumerate() {
            if idx.insert(*v, i).is_some() {
                return Err(format!("duplicate vertex id {}", v));
            }
        }
        let n = g.vertices.len();
        let mut succ = vec![0u64; n];
        let mut pred = vec![0u64; n];
        let mut seen = BTreeSet::new();
        for (h, t) in &g.edges {
            let (Some(&a), Some(&b)) = (idx.get(h), idx.get(t)) else {
                return Err(format!("edge {}->{} names a missing vertex", h, t));
            };
            if !seen.insert((a, b)) {
                return Err(format!("duplicate edge {}->{}", h, t));
            }
            succ[a] |= bit(b);
            pred[b] |= bit(a);
        }
        Ok(Dense { ids: g.vertices.clone(), idx, succ, pred })
    }

    pub fn n(&self) -> usize {
        self.ids.len()
    }

    pub fn all(&self) -> u64 {
        if self.n() == 64 {
            u64::MAX
        } else {
            bit(self.n()) - 1
        }
    }

    /// vertices reachable from `from` (itself included) by paths that avoid `avoid`
    pub fn reach(&self, from: usize, avoid: u64) -> u64 {
        if has(avoid, from) {
            return 0;
        }
        let mut seen = bit(from);
        let mut frontier = seen;
        while frontier != 0 {
            let v = frontier.trailing_zeros() as usize;
            frontier &= frontier - 1;
            let new = self.succ[v] & !avoid & !seen;
            seen |= new;
            frontier |= new;
        }
        seen
    }

    /// vertices reachable from `from` by a path of at least one edge
    pub fn reach_plus(&self, from: usize) -> u64 {
        let mut m = 0;
        for s in bits(self.succ[from]) {
            m |= self.reach(s, 0);
        }
        m
    }

    /// ids -> mask; Err(id) for an id that is not a vertex, Err on duplicates too
    pub fn mask<I: IntoIterator<Item = usize>>(&self, ids: I) -> Result<u64, String> {
        let mut m = 0u64;
        for id in ids {
            match self.idx.get(&id) {
                None => return Err(format!("{} is not a vertex of the graph", id)),
                Some(&i) => {
                    if has(m, i) {
                        return Err(format!("vertex {} listed twice", id));
                    }
                    m |= bit(i);
                }
            }
        }
        Ok(m)
    }

    pub fn show(&self, m: u64) -> String {
        let mut v: Vec<usize> = bits(m).map(|i| self.ids[i]).collect();
        v.sort();
        format!("{:?}", v)
    }
}

/// Everything the property names, for one root, on the sub-graph reachable from it.
pub struct Facts {
    pub root: usize,
    /// reachable set
    pub r: u64,
    /// dom[v] = dominators of v (v included); 0 for unreachable v
    pub dom: Vec<u64>,
    pub idom: Vec<Option<usize>>,
    pub df: Vec<u64>,
    /// header -> nodes of the natural loop (all back edges into that header merged)
    pub loops: BTreeMap<usize, u64>,
    pub back_edges: usize,
    pub reducible: bool,
    pub acyclic: bool,
    pub joins: usize,
}

pub fn facts(d: &Dense, root: usize) -> Result<Facts, String> {
    let n = d.n();
    let r = d.reach(root, 0);
    // dom(v) = {x : v is not reachable from the root once x is deleted} + {v}
    let without: Vec<u64> = (0..n).map(|x| d.reach(root, bit(x))).collect();
    let mut dom = vec![0u64; n];
    for v in bits(r) {
        let mut m = bit(v);
        for x in bits(r) {
            if x != v && !has(without[x], v) {
                m |= bit(x);
            }
        }
        dom[v] = m;
    }
    // idom(v) = the strict dominator of v that every other strict dominator of v dominates
    let mut idom = vec![None; n];
    for v in bits(r) {
        if v == root {
            continue;
        }
        let sd = dom[v] & !bit(v);
        let cands: Vec<usize> = bits(sd).filter(|&c| sd & !dom[c] == 0).collect();
        if cands.len() != 1 {
            return Err(format!("oracle: vertex {} has {} immediate-dominator candidates", d.ids[v], cands.len()));
        }
        idom[v] = Some(cands[0]);
    }
    // DF(x) = {y : x dominates a predecessor of y and x does not strictly dominate y}
    let mut df = vec![0u64; n];
    let mut joins = 0;
    for y in bits(r) {
        if (d.pred[y] & r).count_ones() >= 2 {
            joins += 1;
        }
        for p in bits(d.pred[y] & r) {
            for x in bits(dom[p]) {
                let strictly = x != y && has(dom[y], x);
                if !strictly {
                    df[x] |= bit(y);
                }
            }
        }
    }
    // back edges t->h with h in dom(t); natural loop of h = {h} + {v : v reaches a tail without passing h}
    let mut tails: BTreeMap<usize, u64> = BTreeMap::new();
    let mut back_edges = 0;
    for t in bits(r) {
        for h in bits(d.succ[t]) {
            if has(dom[t], h) {
                *tails.entry(h).or_insert(0) |= bit(t);
                back_edges += 1;
            }
        }
    }
    let mut loops = BTreeMap::new();
    for (&h, &ts) in &tails {
        let mut nodes = bit(h);
        for v in bits(r) {
            if v != h && d.reach(v, bit(h)) & ts != 0 {
                nodes |= bit(v);
            }
        }
        loops.insert(h, nodes);
    }
    let reducible = t1t2(d, r, root);
    let acyclic = bits(r).all(|v| !has(d.reach_plus(v), v));
    Ok(Facts { root, r, dom, idom, df, loops, back_edges, reducible, acyclic, joins })
}

/// Hecht/Ullman: a flow graph is reducible iff repeated T1 (delete a self-loop) and T2 (merge a
/// vertex that has exactly one predecessor into that predecessor) collapse it to one vertex.
pub fn t1t2(d: &Dense, r: u64, root: usize) -> bool {
    let mut alive = r;
    let mut succ: Vec<u64> = d.succ.iter().map(|s| s & r).collect();
    loop {
        let mut changed = false;
        for v in bits(alive) {
            if has(succ[v], v) {
                succ[v] &= !bit(v);
                changed = true;
            }
        }
        for v in bits(alive) {
            if v == root {
                continue;
            }
            let preds: Vec<usize> = bits(alive).filter(|&u| has(succ[u], v)).collect();
            if preds.len() == 1 {
                let u = preds[0];
                succ[u] = (succ[u] & !bit(v)) | succ[v];
                succ[v] = 0;
                alive &= !bit(v);
                changed = true;
                break;
            }
        }
        if !changed {
            break;
        }
    }
    alive == bit(root)
}

/// Is `seq` the discovery order of some depth-first search from `root`?  Stack replay: the
/// search backtracks from a vertex only when all its successors are discovered, so the next
/// discovered vertex must be a successor of the deepest stack vertex that still has an
/// undiscovered successor.
pub fn is_dfs_preorder(d: &Dense, root: usize, seq: &[usize]) -> Result<(), String> {
    let r = d.reach(root, 0);
    if seq.first() != Some(&root) {
        return Err("does not start with the root".into());
    }
    let mut seen = bit(root);
    let mut stack = vec![root];
    for &w in &seq[1..] {
        if has(seen, w) {
            return Err(format!("vertex {} listed twice", d.ids[w]));
        }
        if !has(r, w) {
            return Err(format!("vertex {} is not reachable from the root", d.ids[w]));
        }
        loop {
            let Some(&u) = stack.last() else {
                return Err(format!("vertex {} appears after the search is over", d.ids[w]));
            };
            if d.succ[u] & !seen == 0 {
                stack.pop();
                continue;
            }
            if !has(d.succ[u], w) {
                return Err(format!(
                    "vertex {} is listed while {} (deepest open vertex) still has undiscovered successors {} and no edge to it",
                    d.ids[w],
                    d.ids[u],
                    d.show(d.succ[u] & !seen)
                ));
            }
            break;
        }
        seen |= bit(w);
        stack.push(w);
    }
    if seen != r {
        return Err(format!("reachable vertices missing: {}", d.show(r & !seen)));
    }
    Ok(())
}

/// Is `seq` the finishing order of some depth-first search from `root`?  `None` = budget
/// exhausted (never observed in practice).  The sub-tree of a child c discovered while `white`
/// is the undiscovered set is exactly the set W of vertices white-reachable from c, and it
/// finishes as one contiguous block that ends with c.
pub fn is_dfs_postorder(d: &Dense, root: usize, seq: &[usize]) -> Option<Result<(), String>> {
    let r = d.reach(root, 0);
    let mut m = 0u64;
    for &v in seq {
        if has(m, v) {
            return Some(Err(format!("vertex {} listed twice", d.ids[v])));
        }
        if !has(r, v) {
            return Some(Err(format!("vertex {} is not reachable from the root", d.ids[v])));
        }
        m |= bit(v);
    }
    if m != r {
        return Some(Err(format!("reachable vertices missing: {}", d.show(r & !m))));
    }
    if seq.last() != Some(&root) {
        return Some(Err("does not end with the root".into()));
    }
    // prefix masks of seq for block tests
    let mut prefix = vec![0u64; seq.len() + 1];
    for (i, &v) in seq.iter().enumerate() {
        prefix[i + 1] = prefix[i] | bit(v);
    }
    let mut budget = 200_000usize;
    fn valid(d: &Dense, seq: &[usize], prefix: &[u64], u: usize, white: u64, k: usize, budget: &mut usize) -> Option<bool> {
        if *budget == 0 {
            return None;
        }
        *budget -= 1;
        let s = d.succ[u] & white;
        if s == 0 {
            return Some(k < seq.len() && seq[k] == u);
        }
        for c in bits(s) {
            let w = d.reach(c, !white);
            let len = w.count_ones() as usize;
            if k + len > seq.len() || seq[k + len - 1] != c || (prefix[k + len] & !prefix[k]) != w {
                continue;
            }
            if valid(d, seq, prefix, c, white & !bit(c), k, budget)? && valid(d, seq, prefix, u, white & !w, k + len, budget)? {
                return Some(true);
            }
        }
        Some(false)
    }
    match valid(d, seq, &prefix, root, r & !bit(root), 0, &mut budget) {
        None => None,
        Some(true) => Some(Ok(())),
        Some(false) => Some(Err("no depth-first search finishes its vertices in this order".into())),
    }
}

/// All (pre-order, post-order) pairs of depth-first searches from root; exponential, self-test only.
pub fn enumerate_dfs(d: &Dense, root: usize) -> (BTreeSet<Vec<usize>>, BTreeSet<Vec<usize>>) {
    fn go(d: &Dense, stack: &mut Vec<usize>, seen: u64, pre: &mut Vec<usize>, post: &mut Vec<usize>, out: &mut (BTreeSet<Vec<usize>>, BTreeSet<Vec<usize>>)) {
        let Some(&u) = stack.last() else {
            out.0.insert(pre.clone());
            out.1.insert(post.clone());
            return;
        };
        let s = d.succ[u] & !seen;
        if s == 0 {
            stack.pop();
            post.push(u);
            go(d, stack, seen, pre, post, out);
            post.pop();
            stack.push(u);
            return;
        }
        for c in bits(s) {
            stack.push(c);
            pre.push(c);
            go(d, stack, seen | bit(c), pre, post, out);
            pre.pop();
            stack.pop();
        }
    }
    let mut out = (BTreeSet::new(), BTreeSet::new());
    go(d, &mut vec![root], bit(root), &mut vec![root], &mut Vec::new(), &mut out);
    out
}

// ---------------------------------------------------------------------------------------------
// self-test of the oracle: second, differently written definitions + two graphs with published answers

fn dom_dataflow(d: &Dense, root: usize) -> Vec<u64> {
    // greatest fixed point of Dom(v) = {v} + intersection of Dom(p) over reachable predecessors p
    let r = d.reach(root, 0);
    let mut dom = vec![0u64; d.n()];
    for v in bits(r) {
        dom[v] = if v == root { bit(root) } else { r };
    }
    loop {
        let mut changed = false;
        for v in bits(r) {
            if v == root {
                continue;
            }
            let mut m = r;
            for p in bits(d.pred[v] & r) {
                m &= dom[p];
            }
            m |= bit(v);
            if m != dom[v] {
                dom[v] = m;
                changed = true;
            }
        }
        if !changed {
            return dom;
        }
    }
}

fn reducible_by_forward_edges(d: &Dense, f: &Facts) -> bool {
    // reducible iff the graph without back edges (head dominates tail) is acyclic
    let n = d.n();
    let mut succ = vec![0u64; n];
    for t in bits(f.r) {
        for h in bits(d.succ[t]) {
            if !has(f.dom[t], h) {
                succ[t] |= bit(h);
            }
        }
    }
    let fe = Dense { ids: d.ids.clone(), idx: d.idx.clone(), succ, pred: vec![0; n] };
    bits(f.r).all(|v| !has(fe.reach_plus(v), v))
}

fn permutations(items: &[usize]) -> Vec<Vec<usize>> {
    if items.len() <= 1 {
        return vec![items.to_vec()];
    }
    let mut out = Vec::new();
    for i in 0..items.len() {
        let mut rest = items.to_vec();
        let x = rest.remove(i);
        for mut p in permutations(&rest) {
            p.insert(0, x);
            out.push(p);
        }
    }
    out
}

fn spec(n: usize, edges: &[(usize, usize)]) -> GraphSpec {
    GraphSpec { vertices: (0..n).collect(), edges: edges.to_vec() }
}

pub fn self_test() -> Result<(), String> {
    // 1. the dominator example of Wikipedia / Cooper-Harvey-Kennedy style answers (ids 1..6 -> 0..5)
    let g = spec(6, &[(0, 1), (1, 2), (1, 3), (1, 5), (2, 4), (3, 4), (4, 1)]);
    let d = Dense::new(&g)?;
    let f = facts(&d, 0)?;
    let idoms: Vec<Option<usize>> = vec![None, Some(0), Some(1), Some(1), Some(1), Some(1)];
    if f.idom != idoms {
        return Err("self-test: idoms of the Wikipedia graph".into());
    }
    let dfs: Vec<u64> = vec![0, bit(1), bit(4), bit(4), bit(1), 0];
    if f.df != dfs {
        return Err(format!("self-test: dominance frontiers of the Wikipedia graph {:?}", f.df));
    }
    if f.loops != [(1usize, bit(1) | bit(2) | bit(3) | bit(4))].into_iter().collect() || !f.reducible || f.acyclic {
        return Err("self-test: loops / reducibility of the Wikipedia graph".into());
    }
    // the classic irreducible triangle
    let g = spec(3, &[(0, 1), (0, 2), (1, 2), (2, 1)]);
    let d = Dense::new(&g)?;
    let f = facts(&d, 0)?;
    if f.reducible || !f.loops.is_empty() || f.acyclic {
        return Err("self-test: irreducible triangle".into());
    }
    // 2. exhaustive small graphs: every digraph on 3 vertices, every 5th loop-free digraph on 4
    let mut graphs: Vec<GraphSpec> = Vec::new();
    for code in 0u32..512 {
        let mut e = Vec::new();
        for a in 0..3 {
            for b in 0..3 {
                if (code >> (a * 3 + b)) & 1 == 1 {
                    e.push((a, b));
                }
            }
        }
        graphs.push(spec(3, &e));
    }
    let pairs: Vec<(usize, usize)> = (0..4).flat_map(|a| (0..4).filter(move |b| *b != a).map(move |b| (a, b))).collect();
    let mut code = 0u32;
    while code < 4096 {
        let e: Vec<(usize, usize)> = pairs.iter().enumerate().filter(|(i, _)| (code >> i) & 1 == 1).map(|(_, p)| *p).collect();
        graphs.push(spec(4, &e));
        code += 5;
    }
    for g in &graphs {
        let d = Dense::new(g)?;
        let f = facts(&d, 0)?;
        if dom_dataflow(&d, 0) != f.dom {
            return Err(format!("self-test: deletion and data-flow dominators differ on {:?}", g));
        }
        if reducible_by_forward_edges(&d, &f) != f.reducible {
            return Err(format!("self-test: T1/T2 and forward-edge reducibility differ on {:?}", g));
        }
        let (pres, posts) = enumerate_dfs(&d, 0);
        let rv: Vec<usize> = bits(f.r).collect();
        for p in permutations(&rv) {
            if is_dfs_preorder(&d, 0, &p).is_ok() != pres.contains(&p) {
                return Err(format!("self-test: pre-order recogniser wrong on {:?} {:?}", g, p));
            }
            match is_dfs_postorder(&d, 0, &p) {
                Some(res) => {
                    if res.is_ok() != posts.contains(&p) {
                        return Err(format!("self-test: post-order recogniser wrong on {:?} {:?}", g, p));
                    }
                }
                None => return Err("self-test: post-order recogniser ran out of budget".into()),
            }
        }
    }
    Ok(())
}
