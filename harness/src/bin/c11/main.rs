//! C11 — graph algorithms equal their textbook definitions on every graph.
//!
//! Part A: generated digraphs x every vertex as root; falcon's dominators, immediate dominators,
//! dominator tree, dominance frontiers, natural loops, loop tree, reducibility, acyclicity,
//! reachability, transitive predecessors and the pre/post/topological orders are compared with
//! brute-force definitions (`oracle.rs`) on the sub-graph reachable from the root.
//! Part B: edit histories against a set model (`hist.rs`).

mod hist;
mod oracle;

use falcon::graph::{Edge, Graph, NullEdge, NullVertex, Vertex};
use fv::engine::{self, guard, Failure, Obs, Spec, Tier};
use fv::gen_graph::{gen_graph, GraphSpec};
use fv::tape::{from_tape, Tape};
use hist::Op;
use oracle::{bit, bits, facts, has, Dense, Facts};
use serde::{Deserialize, Serialize};
use std::collections::{BTreeMap, BTreeSet};

type G = Graph<NullVertex, NullEdge>;

#[derive(Clone, Debug, Serialize, Deserialize)]
enum Case {
    /// graph x roots (every vertex unless shrunk)
    Algo { g: GraphSpec, roots: Vec<usize> },
    /// initial graph + edit operations
    Hist { init: GraphSpec, ops: Vec<Op> },
}

// ---------------------------------------------------------------------------------------------
// generation

fn relabel(g: &mut GraphSpec, from: usize, to: usize) {
    if g.vertices.contains(&to) {
        return;
    }
    for v in g.vertices.iter_mut() {
        if *v == from {
            *v = to;
        }
    }
    for e in g.edges.iter_mut() {
        if e.0 == from {
            e.0 = to;
        }
        if e.1 == from {
            e.1 = to;
        }
    }
    g.edges.sort();
}

/// Hand-shaped families that random edges rarely produce at depth: nested / sibling loops with
/// long bodies, irreducible regions below a chain, ladders with cross edges.
fn shaped(t: &mut Tape, max_n: usize) -> GraphSpec {
    let n = t.range(4, max_n.max(4));
    let ids: Vec<usize> = (0..n).map(|i| 10 + 7 * i).collect();
    let mut e: BTreeSet<(usize, usize)> = BTreeSet::new();
    match t.below(3) {
        0 => {
            // chain with k nested/overlapping back edges and side exits
            for i in 1..n {
                e.insert((ids[i - 1], ids[i]));
            }
            for _ in 0..t.range(1, 4) {
                let h = t.below(n - 1);
                let tl = t.range(h, n - 1);
                e.insert((ids[tl], ids[h]));
            }
            for _ in 0..t.below(4) {
                let a = t.below(n);
                let b = t.below(n);
                e.insert((ids[a], ids[b]));
            }
        }
        1 => {
            // binary-ish tree with cross and back edges: deep DFS trees with many semidominator paths
            for i in 1..n {
                e.insert((ids[(i - 1) / 2], ids[i]));
            }
            for _ in 0..t.range(1, n) {
                let a = t.below(n);
                let b = t.below(n);
                e.insert((ids[a], ids[b]));
            }
        }
        _ => {
            // two parallel chains from the root that exchange edges (irreducible regions at depth)
            let half = n / 2;
            for i in 1..n {
                let from = if i == half { 0 } else { i - 1 };
                e.insert((ids[from], ids[i]));
            }
            for _ in 0..t.range(1, 5) {
                let a = t.range(1, half.max(2) - 1).min(n - 1);
                let b = t.range(half, n - 1);
                if t.chance(1, 2) {
                    e.insert((ids[a], ids[b]));
                } else {
                    e.insert((ids[b], ids[a]));
                }
                if t.chance(1, 3) {
                    e.insert((ids[b], ids[a]));
                    e.insert((ids[a], ids[b]));
                }
            }
        }
    }
    // a vertex that is unreachable from ids[0] and feeds the reachable part
    if t.chance(1, 3) {
        let u = 5;
        let mut v = ids.clone();
        v.push(u);
        let a = t.below(n);
        e.insert((u, ids[a]));
        if t.chance(1, 2) {
            let b = t.below(n);
            e.insert((u, ids[b]));
        }
        return GraphSpec { vertices: v, edges: e.into_iter().collect() };
    }
    GraphSpec { vertices: ids, edges: e.into_iter().collect() }
}

fn decode(t: &mut Tape, tier: Tier) -> Case {
    if t.weighted(&[3, 1]) == 1 {
        let (init, ops) = hist::decode_hist(t);
        return Case::Hist { init, ops };
    }
    let max_n = match tier {
        Tier::Quick => 12,
        Tier::Thorough => {
            if t.chance(1, 10) {
                40
            } else {
                12
            }
        }
    };
    let mut g = if t.chance(1, 5) { shaped(t, max_n.min(16)) } else { gen_graph(t, max_n) };
    // extreme ids
    if t.chance(1, 8) {
        let big = *g.vertices.iter().max().unwrap();
        relabel(&mut g, big, usize::MAX);
    }
    let roots = g.vertices.clone();
    Case::Algo { g, roots }
}

// ---------------------------------------------------------------------------------------------
// part A

struct Ctx<'a> {
    obs: &'a mut Obs,
    known_seen: BTreeSet<String>,
}

impl Ctx<'_> {
    /// A failure whose signature is a recorded known finding is counted as an exclusion and the
    /// rest of the case is still checked (the caller skips what depends on the broken answer);
    /// anything else is a violation.
    fn soft(&mut self, f: Failure) -> Result<(), Failure> {
        if self.obs.known(&f.sig) {
            if self.known_seen.insert(f.sig.clone()) {
                self.obs.exclude(&format!("known_finding:{}", f.sig));
            }
            Ok(())
        } else {
            Err(f)
        }
    }
}

fn call<T, E: std::fmt::Display>(name: &str, ctxs: &str, root: Option<usize>, f: impl FnOnce() -> Result<T, E>) -> Result<T, Failure> {
    let at = root.map(|r| format!("(root {})", r)).unwrap_or_default();
    match guard(f) {
        Ok(Ok(v)) => Ok(v),
        Ok(Err(e)) => Err(Failure::new(format!("C11|{}|err|{}", name, ctxs), format!("{}{} returned Err: {}", name, at, e))),
        Err(pi) => Err(Failure::new(
            format!("C11|{}|panic|{}", name, ctxs),
            format!("{}{} panicked: {} ({}:{})", name, at, pi.msg, pi.file, pi.line),
        )),
    }
}

fn fail(sig: String, msg: String) -> Failure {
    Failure::new(sig, msg)
}

/// mask of ids from falcon; an id that is not a vertex is a `wrong` answer of `name`
fn to_mask<I: IntoIterator<Item = usize>>(d: &Dense, name: &str, what: &str, ids: I) -> Result<u64, Failure> {
    d.mask(ids).map_err(|e| fail(format!("C11|{}|wrong", name), format!("{}: {}", what, e)))
}

/// compare a vertex set about the reachable part; extra vertices that are all unreachable from
/// the root get their own signature
fn cmp_set(d: &Dense, f: &Facts, name: &str, what: &str, got: u64, want: u64) -> Result<(), Failure> {
    if got == want {
        return Ok(());
    }
    let extra = got & !want;
    let root = d.ids[f.root];
    if got & want == want && extra & f.r == 0 {
        return Err(fail(
            format!("C11|{}|unreachable-vertex-in-answer", name),
            format!("root {}: {} = {} contains {} which cannot be reached from the root (definition gives {})", root, what, d.show(got), d.show(extra), d.show(want)),
        ));
    }
    Err(fail(format!("C11|{}|wrong", name), format!("root {}: {} = {}, definition gives {}", root, what, d.show(got), d.show(want))))
}

fn check_root(fg: &G, d: &Dense, g: &GraphSpec, root: usize, cx: &mut Ctx) -> Result<Facts, Failure> {
    let ri = d.idx[&root];
    let f = facts(d, ri).map_err(|e| fail("C11|harness|oracle".into(), e))?;
    let unreach = d.all() & !f.r;
    let ctxs = if unreach != 0 { "unreachable-vertex" } else { "all-reachable" };
    let id = |i: usize| d.ids[i];

    // --- reachability
    let got = call("reachable_vertices", ctxs, Some(root), || fg.reachable_vertices(root))?;
    let m = to_mask(d, "reachable_vertices", "reachable_vertices", got.iter().copied())?;
    if m != f.r {
        return Err(fail("C11|reachable_vertices|wrong".into(), format!("root {}: reachable_vertices = {}, definition {}", root, d.show(m), d.show(f.r))));
    }
    let got = call("unreachable_vertices", ctxs, Some(root), || fg.unreachable_vertices(root))?;
    let m = to_mask(d, "unreachable_vertices", "unreachable_vertices", got.iter().copied())?;
    if m != unreach {
        return Err(fail("C11|unreachable_vertices|wrong".into(), format!("root {}: unreachable_vertices = {}, definition {}", root, d.show(m), d.show(unreach))));
    }

    // --- acyclicity
    let got = call("is_acyclic", ctxs, Some(root), || Ok::<bool, String>(fg.is_acyclic(root)))?;
    if got != f.acyclic {
        return Err(fail("C11|is_acyclic|wrong".into(), format!("is_acyclic({}) = {}, but a cycle is {}reachable from the root", root, got, if f.acyclic { "not " } else { "" })));
    }

    // --- orders
    let pre = call("pre_order", ctxs, Some(root), || fg.compute_pre_order(root))?;
    let seq: Result<Vec<usize>, Failure> = pre.iter().map(|v| d.idx.get(v).copied().ok_or_else(|| fail("C11|pre_order|invalid".into(), format!("pre-order names {} which is not a vertex", v)))).collect();
    if let Err(e) = oracle::is_dfs_preorder(d, ri, &seq?) {
        return Err(fail("C11|pre_order|invalid".into(), format!("compute_pre_order({}) = {:?} is not a depth-first pre-order of the reachable sub-graph: {}", root, pre, e)));
    }
    let post = call("post_order", ctxs, Some(root), || fg.compute_post_order(root))?;
    let seq: Result<Vec<usize>, Failure> = post.iter().map(|v| d.idx.get(v).copied().ok_or_else(|| fail("C11|post_order|invalid".into(), format!("post-order names {} which is not a vertex", v)))).collect();
    match oracle::is_dfs_postorder(d, ri, &seq?) {
        None => cx.obs.exclude("post-order-recogniser-budget"),
        Some(Ok(())) => {}
        Some(Err(e)) => return Err(fail("C11|post_order|invalid".into(), format!("compute_post_order({}) = {:?} is not a depth-first post-order of the reachable sub-graph: {}", root, post, e))),
    }

    // --- compute_acyclic
    let ag = call("compute_acyclic", ctxs, Some(root), || fg.compute_acyclic(root))?;
    check_acyclic_graph(d, &f, &ag, root)?;

    // --- immediate dominators and everything built on them
    let idoms = match call("idom", ctxs, Some(root), || fg.compute_immediate_dominators(root)) {
        Ok(m) => m,
        Err(e) => {
            cx.soft(e)?;
            cx.obs.count("roots-skipped-after-known-idom-failure", 1);
            return Ok(f);
        }
    };
    let got: BTreeMap<usize, usize> = idoms.iter().map(|(k, v)| (*k, *v)).collect();
    let want: BTreeMap<usize, usize> = bits(f.r).filter_map(|v| f.idom[v].map(|i| (id(v), id(i)))).collect();
    if got != want {
        let stray: Vec<usize> = got.keys().copied().filter(|k| d.idx.get(k).map(|i| !has(f.r, *i)).unwrap_or(false)).collect();
        let rest_equal = got.iter().filter(|(k, _)| !stray.contains(k)).map(|(k, v)| (*k, *v)).collect::<BTreeMap<_, _>>() == want;
        if !stray.is_empty() && rest_equal {
            return Err(fail("C11|idom|unreachable-vertex-in-answer".into(), format!("root {}: immediate dominators given for {:?} which cannot be reached from the root", root, stray)));
        }
        return Err(fail("C11|idom|wrong".into(), format!("compute_immediate_dominators({}) = {:?}, definition gives {:?}", root, got, want)));
    }

    // dominators
    match call("dominators", ctxs, Some(root), || fg.compute_dominators(root)) {
        Err(e) => cx.soft(e)?,
        Ok(doms) => {
            let keys = to_mask(d, "dominators", "dominators keys", doms.keys().copied())?;
            cmp_set(d, &f, "dominators", "the set of vertices that have dominators", keys, f.r)?;
            for v in bits(f.r) {
                let m = to_mask(d, "dominators", "dominator set", doms[&id(v)].iter().copied())?;
                cmp_set(d, &f, "dominators", &format!("dominators of {}", id(v)), m, f.dom[v])?;
            }
        }
    }

    // dominator tree
    match call("dominator_tree", ctxs, Some(root), || fg.compute_dominator_tree(root)) {
        Err(e) => cx.soft(e)?,
        Ok(tree) => {
            let tv = to_mask(d, "dominator_tree", "dominator tree vertices", tree.vertices().iter().map(|v| v.index()))?;
            if tv & f.r != f.r {
                return Err(fail("C11|dominator_tree|wrong".into(), format!("root {}: dominator tree lacks reachable vertices {}", root, d.show(f.r & !tv))));
            }
            let got: BTreeSet<(usize, usize)> = tree.edges().iter().map(|e| (e.head(), e.tail())).collect();
            let want: BTreeSet<(usize, usize)> = want.iter().map(|(v, i)| (*i, *v)).collect();
            if got != want {
                return Err(fail("C11|dominator_tree|wrong".into(), format!("root {}: dominator tree edges {:?}, definition (idom(v), v) gives {:?}", root, got, want)));
            }
        }
    }

    // dominance frontiers (keys of unreachable vertices are pre-filled by falcon and not inspected)
    match call("dominance_frontiers", ctxs, Some(root), || fg.compute_dominance_frontiers(root)) {
        Err(e) => cx.soft(e)?,
        Ok(df) => {
            for x in bits(f.r) {
                let Some(s) = df.get(&id(x)) else {
                    return Err(fail("C11|dominance_frontiers|wrong".into(), format!("root {}: no dominance frontier for reachable vertex {}", root, id(x))));
                };
                let m = to_mask(d, "dominance_frontiers", "dominance frontier", s.iter().copied())?;
                cmp_set(d, &f, "dominance_frontiers", &format!("DF({})", id(x)), m, f.df[x])?;
            }
        }
    }

    // natural loops
    let want_loops: BTreeMap<usize, u64> = f.loops.iter().map(|(h, n)| (id(*h), *n)).collect();
    let mut loops_ok = false;
    match call("loops", ctxs, Some(root), || fg.compute_loops(root)) {
        Err(e) => cx.soft(e)?,
        Ok(loops) => match cmp_loops(d, &f, "loops", loops.iter().map(|l| (l.header(), l.nodes().iter().copied().collect::<Vec<usize>>())), &want_loops) {
            Ok(()) => loops_ok = true,
            Err(e) => cx.soft(e)?,
        },
    }

    // loop tree: vertices = the loops, edge a -> b iff b is nested in a (documented relation)
    if loops_ok {
        match call("loop_tree", ctxs, Some(root), || fg.compute_loop_tree(root)) {
            Err(e) => cx.soft(e)?,
            Ok(tree) => {
                cmp_loops(d, &f, "loop_tree", tree.vertices().iter().map(|l| (l.header(), l.nodes().iter().copied().collect::<Vec<usize>>())), &want_loops)?;
                let got: BTreeSet<(usize, usize)> = tree.edges().iter().map(|e| (e.head(), e.tail())).collect();
                let mut want = BTreeSet::new();
                for (a, na) in &want_loops {
                    for (b, nb) in &want_loops {
                        if a != b && nb & !na == 0 {
                            want.insert((*a, *b));
                        }
                    }
                }
                if got != want {
                    return Err(fail("C11|loop_tree|wrong".into(), format!("root {}: loop tree edges {:?}; nesting by node-set inclusion gives {:?}", root, got, want)));
                }
            }
        }
    } else {
        cx.obs.count("roots-loop-tree-skipped", 1);
    }

    // reducibility
    match call("is_reducible", ctxs, Some(root), || fg.is_reducible(root)) {
        Err(e) => cx.soft(e)?,
        Ok(got) => {
            if got != f.reducible {
                let e = if !got && unreach != 0 {
                    fail(
                        "C11|is_reducible|false-with-unreachable-vertex".into(),
                        format!("is_reducible({}) = false, but the sub-graph reachable from the root collapses to one vertex under T1/T2 (vertices {} are unreachable)", root, d.show(unreach)),
                    )
                } else {
                    fail("C11|is_reducible|wrong".into(), format!("is_reducible({}) = {}, T1/T2 reduction says {}", root, got, f.reducible))
                };
                cx.soft(e)?;
            }
        }
    }
    let _ = g;
    Ok(f)
}

fn cmp_loops<I: Iterator<Item = (usize, Vec<usize>)>>(d: &Dense, f: &Facts, name: &str, got: I, want: &BTreeMap<usize, u64>) -> Result<(), Failure> {
    let root = d.ids[f.root];
    let mut g: BTreeMap<usize, u64> = BTreeMap::new();
    for (h, nodes) in got {
        let m = to_mask(d, name, "loop nodes", nodes)?;
        if g.insert(h, m).is_some() {
            return Err(fail(format!("C11|{}|wrong", name), format!("root {}: two loops with header {}", root, h)));
        }
    }
    let gh: Vec<usize> = g.keys().copied().collect();
    let wh: Vec<usize> = want.keys().copied().collect();
    if gh != wh {
        return Err(fail(format!("C11|{}|wrong", name), format!("root {}: loop headers {:?}, definition (targets of edges whose target dominates the source) gives {:?}", root, gh, wh)));
    }
    for (h, m) in &g {
        cmp_set(d, f, name, &format!("natural loop of header {}", h), *m, want[h])?;
    }
    Ok(())
}

fn check_acyclic_graph(d: &Dense, f: &Facts, ag: &G, root: usize) -> Result<(), Failure> {
    let name = "compute_acyclic";
    let av = to_mask(d, name, "vertices of the acyclic graph", ag.vertices().iter().map(|v| v.index()))?;
    if av & f.r != f.r {
        return Err(fail("C11|compute_acyclic|wrong".into(), format!("root {}: acyclic graph lacks reachable vertices {}", root, d.show(f.r & !av))));
    }
    let n = d.n();
    let mut succ = vec![0u64; n];
    for e in ag.edges() {
        let (Some(&a), Some(&b)) = (d.idx.get(&e.head()), d.idx.get(&e.tail())) else {
            return Err(fail("C11|compute_acyclic|wrong".into(), format!("root {}: edge {}->{} of the acyclic graph names a missing vertex", root, e.head(), e.tail())));
        };
        if !has(d.succ[a], b) {
            return Err(fail("C11|compute_acyclic|wrong".into(), format!("root {}: edge {}->{} of the acyclic graph is not an edge of the graph", root, e.head(), e.tail())));
        }
        succ[a] |= bit(b);
    }
    let a = Dense { ids: d.ids.clone(), idx: d.idx.clone(), succ, pred: vec![0; n] };
    for v in 0..n {
        if has(a.reach_plus(v), v) {
            return Err(fail("C11|compute_acyclic|cyclic".into(), format!("compute_acyclic({}) contains a cycle through {}", root, d.ids[v])));
        }
    }
    let ar = a.reach(f.root, 0);
    if ar != f.r {
        return Err(fail("C11|compute_acyclic|reachability".into(), format!("compute_acyclic({}): vertices reachable from the root {} differ from the original {}", root, d.show(ar), d.show(f.r))));
    }
    for u in bits(f.r) {
        for v in bits(d.succ[u] & !a.succ[u]) {
            // dropped edge u->v of the reachable part: must close a cycle, i.e. v reaches u
            if !has(d.reach(v, 0), u) {
                return Err(fail("C11|compute_acyclic|dropped-acyclic-edge".into(), format!("compute_acyclic({}) dropped edge {}->{} which lies on no cycle", root, d.ids[u], d.ids[v])));
            }
        }
    }
    Ok(())
}

fn check_whole_graph(fg: &G, d: &Dense) -> Result<(), Failure> {
    // transitive predecessors: u in preds(v) iff a path of >= 1 edge leads from u to v
    let preds = call("compute_predecessors", "whole-graph", None, || fg.compute_predecessors())?;
    let keys = to_mask(d, "compute_predecessors", "keys", preds.keys().copied())?;
    if keys != d.all() {
        return Err(fail("C11|compute_predecessors|wrong".into(), format!("compute_predecessors has keys {}, vertices are {}", d.show(keys), d.show(d.all()))));
    }
    let plus: Vec<u64> = (0..d.n()).map(|u| d.reach_plus(u)).collect();
    for v in 0..d.n() {
        let want = (0..d.n()).filter(|&u| has(plus[u], v)).fold(0u64, |m, u| m | bit(u));
        let got = to_mask(d, "compute_predecessors", "predecessor set", preds[&d.ids[v]].iter().copied())?;
        if got != want {
            return Err(fail("C11|compute_predecessors|wrong".into(), format!("transitive predecessors of {} = {}, definition gives {}", d.ids[v], d.show(got), d.show(want))));
        }
    }
    // topological order of all vertices; Err iff the graph has a cycle
    let cyclic = (0..d.n()).any(|v| has(plus[v], v));
    match guard(|| fg.compute_topological_ordering()) {
        Err(pi) => Err(fail("C11|topological_ordering|panic".into(), format!("compute_topological_ordering panicked: {} ({}:{})", pi.msg, pi.file, pi.line))),
        Ok(Err(e)) => {
            if cyclic {
                Ok(())
            } else {
                Err(fail("C11|topological_ordering|err-on-acyclic".into(), format!("compute_topological_ordering returned Err({}) on an acyclic graph", e)))
            }
        }
        Ok(Ok(order)) => {
            if cyclic {
                return Err(fail("C11|topological_ordering|ok-on-cyclic".into(), format!("compute_topological_ordering returned {:?} although the graph has a cycle", order)));
            }
            let m = d.mask(order.iter().copied()).map_err(|e| fail("C11|topological_ordering|invalid".into(), format!("{:?}: {}", order, e)))?;
            if m != d.all() {
                return Err(fail("C11|topological_ordering|invalid".into(), format!("{:?} misses vertices {}", order, d.show(d.all() & !m))));
            }
            let pos: BTreeMap<usize, usize> = order.iter().enumerate().map(|(i, v)| (d.idx[v], i)).collect();
            for u in 0..d.n() {
                for v in bits(d.succ[u]) {
                    if pos[&u] >= pos[&v] {
                        return Err(fail("C11|topological_ordering|invalid".into(), format!("{:?} puts {} before {} against edge {}->{}", order, d.ids[v], d.ids[u], d.ids[u], d.ids[v])));
                    }
                }
            }
            Ok(())
        }
    }
}

fn check_algo(g: &GraphSpec, roots: &[usize], obs: &mut Obs) -> Result<(), Failure> {
    obs.class("graph");
    let d = Dense::new(g).map_err(|e| fail("C11|harness|bad-case".into(), e))?;
    let fg: G = match guard(|| g.build()) {
        Ok(Ok(x)) => x,
        Ok(Err(e)) => return Err(fail("C11|build|err".into(), format!("insert_vertex/insert_edge rejected a fresh vertex or edge: {}", e))),
        Err(pi) => return Err(fail("C11|build|panic".into(), format!("building the graph panicked: {}", pi.msg))),
    };
    check_whole_graph(&fg, &d)?;
    if d.ids.iter().any(|&v| v == usize::MAX) {
        obs.class("id-usize-max");
    }
    if !d.ids.windows(2).all(|w| w[0].checked_add(1) == Some(w[1])) {
        obs.class("non-contiguous-ids");
    }
    let mut cx = Ctx { obs, known_seen: BTreeSet::new() };
    let primary = g.vertices[0];
    let mut any_nontrivial = None;
    for &root in roots {
        if !d.idx.contains_key(&root) {
            return Err(fail("C11|harness|bad-case".into(), format!("root {} is not a vertex", root)));
        }
        let f = check_root(&fg, &d, g, root, &mut cx)?;
        let n_reach = f.r.count_ones() as usize;
        let unreach = d.all() & !f.r;
        let feeds = bits(unreach).any(|u| d.succ[u] & f.r != 0);
        let root_in_loop = has(d.reach_plus(f.root), f.root);
        let self_loop = bits(f.r).any(|v| has(d.succ[v], v));
        let nested = f.loops.values().any(|a| f.loops.values().any(|b| a != b && b & !a == 0));
        let long_loop = f.loops.values().any(|a| a.count_ones() >= 4);
        cx.obs.count("roots", 1);
        if unreach != 0 {
            cx.obs.count("roots-with-unreachable-vertices", 1);
        }
        if feeds {
            cx.obs.count("roots-with-unreachable-predecessor-of-reachable", 1);
        }
        if !f.reducible {
            cx.obs.count("roots-irreducible", 1);
        }
        if root_in_loop {
            cx.obs.count("roots-on-a-cycle", 1);
        }
        if !f.loops.is_empty() {
            cx.obs.count("roots-with-natural-loops", 1);
        }
        if nested {
            cx.obs.count("roots-with-nested-loops", 1);
        }
        let nontrivial = n_reach >= 4 && f.joins >= 1;
        if nontrivial {
            cx.obs.count("roots-nontrivial", 1);
        }
        if root == primary {
            if unreach != 0 {
                cx.obs.class("unreachable-vertex");
            }
            if feeds {
                cx.obs.class("unreachable-feeds-reachable");
            }
            if !f.reducible {
                cx.obs.class("irreducible");
            }
            if root_in_loop {
                cx.obs.class("root-in-loop");
            }
            if self_loop {
                cx.obs.class("self-loop");
            }
            if nested {
                cx.obs.class("nested-loops");
            }
            if long_loop {
                cx.obs.class("loop-of-4-or-more");
            }
            if f.acyclic {
                cx.obs.class("acyclic-from-root");
            }
            if d.succ[f.root] == 0 {
                cx.obs.class("root-without-successors");
            }
            if d.n() > 12 {
                cx.obs.class("more-than-12-vertices");
            }
        }
        if nontrivial && (any_nontrivial.is_none() || root == primary) {
            // distinct = coarse shape of the reachable sub-graph of this root
            let mut degs: Vec<(u32, u32)> = bits(f.r).map(|v| ((d.pred[v] & f.r).count_ones(), (d.succ[v] & f.r).count_ones())).collect();
            degs.sort();
            let loops: Vec<u32> = f.loops.values().map(|m| m.count_ones()).collect();
            any_nontrivial = Some((degs, loops, f.back_edges, f.reducible, unreach.count_ones(), feeds));
        }
    }
    if let Some(fp) = any_nontrivial {
        cx.obs.class("nontrivial");
        cx.obs.nontrivial(&("algo", fp));
    }
    Ok(())
}

// ---------------------------------------------------------------------------------------------

fn check(case: &Case, obs: &mut Obs) -> Result<(), Failure> {
    let r = match case {
        Case::Algo { g, roots } => check_algo(g, roots, obs),
        Case::Hist { init, ops } => hist::check_hist(init, ops, obs),
    };
    if r.is_ok() && obs.want_sample() {
        obs.sample(render(case));
    }
    r
}

fn render_graph(g: &GraphSpec) -> String {
    let e: Vec<String> = g.edges.iter().map(|(a, b)| format!("{}->{}", a, b)).collect();
    format!("vertices {:?} edges [{}]", g.vertices, e.join(" "))
}

fn render(c: &Case) -> String {
    match c {
        Case::Algo { g, roots } => {
            if roots == &g.vertices {
                format!("graph: {}; roots: every vertex", render_graph(g))
            } else {
                format!("graph: {}; roots: {:?}", render_graph(g), roots)
            }
        }
        Case::Hist { init, ops } => {
            let o: Vec<String> = ops.iter().map(|o| o.render()).collect();
            format!("history: start {}; {}", render_graph(init), o.join(" "))
        }
    }
}

fn drop_vertex(g: &GraphSpec, v: usize) -> GraphSpec {
    GraphSpec {
        vertices: g.vertices.iter().copied().filter(|x| *x != v).collect(),
        edges: g.edges.iter().copied().filter(|(a, b)| *a != v && *b != v).collect(),
    }
}

fn simplify(c: &Case) -> Vec<Case> {
    let mut out = Vec::new();
    match c {
        Case::Algo { g, roots } => {
            // one root only
            if roots.len() > 1 {
                for r in roots {
                    out.push(Case::Algo { g: g.clone(), roots: vec![*r] });
                }
            }
            for v in &g.vertices {
                if g.vertices.len() > 1 {
                    let g2 = drop_vertex(g, *v);
                    let r2: Vec<usize> = roots.iter().copied().filter(|r| r != v).collect();
                    if !r2.is_empty() {
                        out.push(Case::Algo { g: g2, roots: r2 });
                    }
                }
            }
            for i in 0..g.edges.len() {
                let mut g2 = g.clone();
                g2.edges.remove(i);
                out.push(Case::Algo { g: g2, roots: roots.clone() });
            }
            // small ids
            let mut sorted = g.vertices.clone();
            sorted.sort();
            if sorted.iter().enumerate().any(|(i, v)| *v != i) {
                let map: BTreeMap<usize, usize> = sorted.iter().enumerate().map(|(i, v)| (*v, i)).collect();
                out.push(Case::Algo {
                    g: GraphSpec { vertices: g.vertices.iter().map(|v| map[v]).collect(), edges: g.edges.iter().map(|(a, b)| (map[a], map[b])).collect() },
                    roots: roots.iter().map(|r| map[r]).collect(),
                });
            }
        }
        Case::Hist { init, ops } => {
            for i in 0..ops.len() {
                let mut o = ops.clone();
                o.remove(i);
                out.push(Case::Hist { init: init.clone(), ops: o });
            }
            for v in &init.vertices {
                out.push(Case::Hist { init: drop_vertex(init, *v), ops: ops.clone() });
            }
            for i in 0..init.edges.len() {
                let mut g2 = init.clone();
                g2.edges.remove(i);
                out.push(Case::Hist { init: g2, ops: ops.clone() });
            }
        }
    }
    out
}

/// libFuzzer entry: the input bytes are the entropy tape (little-endian u32 words); same
/// generator, same oracle as the proptest tiers.
#[allow(dead_code)]
pub fn fuzz_bytes(data: &[u8]) {
    let tape = fv::tape::words_from_bytes(data, 420);
    let case = decode(&mut Tape::new(&tape), Tier::Quick);
    engine::fuzz_one("C11", &case, &render, &check);
}

#[allow(dead_code)]
fn main() -> std::process::ExitCode {
    // the oracle checks itself (second definitions, published answers) before it judges falcon
    if !std::env::args().any(|a| a == "--worker") {
        if let Err(e) = oracle::self_test() {
            eprintln!("HARNESS-ERROR property=C11 {}", e);
            return std::process::ExitCode::from(3);
        }
    }
    let mut spec = Spec::new(
        "C11",
        "3/4 of the cases: a generated digraph (gen_graph or a shaped family: chains with nested back edges, trees with cross edges, twin chains exchanging edges; 1-12 vertices, thorough also up to 40; sparse ids, usize::MAX) with EVERY vertex taken as root, all graph algorithms compared with brute-force definitions on the sub-graph reachable from that root; 1/4: an edit history of 1-50 insert/remove operations (duplicates and absent ids included) on a small initial graph compared with a set model after every step. Non-trivial = some root reaches >= 4 vertices of which >= 1 is a join (two reachable predecessors), or a history with >= 4 accepted and >= 1 rejected operations that removes a vertex having both in- and out-edges; distinct = (sorted in/out degree pairs of the reachable sub-graph, loop sizes, number of back edges, reducible, number of unreachable vertices, whether one feeds the reachable part) resp. (set of (operation, outcome), capped counts, final sizes)",
        Box::new(|tier: Tier| from_tape(tier.pick(420, 2700), move |t| decode(t, tier))),
        |t| t.pick(500_000, 10_000_000),
        check,
    );
    spec.render = render;
    spec.simplify = Some(simplify);
    spec.crash_sig = |_| "C11|crash".into();
    spec.assumptions = vec![
        "the root passed to an algorithm is a vertex of the graph".into(),
        "dominance-frontier entries stored under the key of a vertex that is unreachable from the root are not inspected (falcon pre-fills the map for every vertex)".into(),
        "loop-tree edges are compared with falcon's documented relation 'l1 nested in l2 => l1 is a child of l2', i.e. every nested pair, not only immediate parents".into(),
        "at most 63 vertices (bit-set oracle)".into(),
    ];
    // fractions of ALL cases (3/4 graphs, 1/4 histories), classes of graph cases are taken with
    // respect to the first vertex as root; measured at bring-up (seed 1) and frozen ~25 % below
    spec.floors = vec![
        ("graph", 0.65),
        ("history", 0.20),
        ("nontrivial", 0.40),
        ("unreachable-vertex", 0.15),
        ("unreachable-feeds-reachable", 0.08),
        ("irreducible", 0.15),
        ("root-in-loop", 0.25),
        ("self-loop", 0.25),
        ("nested-loops", 0.14),
        ("loop-of-4-or-more", 0.12),
        ("non-contiguous-ids", 0.25),
        ("id-usize-max", 0.05),
        ("remove-vertex-with-in-and-out-edges", 0.05),
        ("sweep-removes-edges", 0.05),
        ("rejected-insert_vertex", 0.08),
        ("rejected-insert_edge", 0.12),
        ("rejected-remove_vertex", 0.08),
        ("rejected-remove_edge", 0.12),
        ("rejected-remove_unreachable_vertices", 0.10),
    ];
    engine::main(spec)
}
