//! Part B: edit histories against a set model (vertices: set of ids, edges: set of pairs).

use falcon::graph::{Edge, Graph, NullEdge, NullVertex, Vertex};
use fv::engine::{guard, Failure, Obs};
use fv::gen_graph::{gen_graph, GraphSpec};
use fv::tape::Tape;
use serde::{Deserialize, Serialize};
use std::collections::BTreeSet;

type G = Graph<NullVertex, NullEdge>;

#[derive(Clone, Debug, Serialize, Deserialize, PartialEq, Eq)]
pub enum Op {
    InsertVertex(usize),
    InsertEdge(usize, usize),
    RemoveVertex(usize),
    RemoveEdge(usize, usize),
    RemoveUnreachable(usize),
}

impl Op {
    pub fn kind(&self) -> &'static str {
        match self {
            Op::InsertVertex(_) => "insert_vertex",
            Op::InsertEdge(..) => "insert_edge",
            Op::RemoveVertex(_) => "remove_vertex",
            Op::RemoveEdge(..) => "remove_edge",
            Op::RemoveUnreachable(_) => "remove_unreachable_vertices",
        }
    }
    pub fn render(&self) -> String {
        match self {
            Op::InsertVertex(v) => format!("insert_vertex({})", v),
            Op::InsertEdge(a, b) => format!("insert_edge({}->{})", a, b),
            Op::RemoveVertex(v) => format!("remove_vertex({})", v),
            Op::RemoveEdge(a, b) => format!("remove_edge({}->{})", a, b),
            Op::RemoveUnreachable(v) => format!("remove_unreachable_vertices({})", v),
        }
    }
}

#[derive(Clone, Default)]
pub struct Model {
    pub v: BTreeSet<usize>,
    pub e: BTreeSet<(usize, usize)>,
}

impl Model {
    pub fn of(g: &GraphSpec) -> Model {
        Model { v: g.vertices.iter().copied().collect(), e: g.edges.iter().copied().collect() }
    }
    fn reachable(&self, from: usize) -> BTreeSet<usize> {
        let mut seen = BTreeSet::new();
        let mut st = vec![from];
        while let Some(x) = st.pop() {
            if seen.insert(x) {
                for (a, b) in self.e.range((x, 0)..=(x, usize::MAX)) {
                    debug_assert_eq!(*a, x);
                    st.push(*b);
                }
            }
        }
        seen
    }
    /// Applies the operation if it is legal; returns (legal, number of edges that went away with a vertex).
    pub fn apply(&mut self, op: &Op) -> (bool, usize) {
        match *op {
            Op::InsertVertex(v) => (self.v.insert(v), 0),
            Op::InsertEdge(a, b) => {
                if self.v.contains(&a) && self.v.contains(&b) && !self.e.contains(&(a, b)) {
                    self.e.insert((a, b));
                    (true, 0)
                } else {
                    (false, 0)
                }
            }
            Op::RemoveVertex(v) => {
                if !self.v.remove(&v) {
                    return (false, 0);
                }
                let before = self.e.len();
                self.e.retain(|(a, b)| *a != v && *b != v);
                (true, before - self.e.len())
            }
            Op::RemoveEdge(a, b) => (self.e.remove(&(a, b)), 0),
            Op::RemoveUnreachable(h) => {
                if !self.v.contains(&h) {
                    return (false, 0);
                }
                let r = self.reachable(h);
                let before = self.e.len();
                self.v.retain(|x| r.contains(x));
                self.e.retain(|(a, b)| r.contains(a) && r.contains(b));
                (true, before - self.e.len())
            }
        }
    }
}

pub fn decode_hist(t: &mut Tape) -> (GraphSpec, Vec<Op>) {
    // initial graph: empty (the simplest) or a small generated one
    let init = if t.chance(2, 3) { gen_graph(t, 6) } else { GraphSpec { vertices: vec![], edges: vec![] } };
    // id pool: the initial ids plus a few that start absent; extreme ids included
    let mut pool: Vec<usize> = init.vertices.clone();
    for extra in [1usize, 2, 3, 700, usize::MAX] {
        if pool.len() < 9 && !pool.contains(&extra) && (pool.len() < 3 || t.chance(1, 2)) {
            pool.push(extra);
        }
    }
    let mut m = Model::of(&init);
    let n = t.range(1, 50);
    let mut ops = Vec::new();
    for _ in 0..n {
        let any = |t: &mut Tape| pool[t.below(pool.len())];
        let op = match t.weighted(&[20, 34, 16, 20, 10]) {
            0 => {
                let absent: Vec<usize> = pool.iter().copied().filter(|x| !m.v.contains(x)).collect();
                if !absent.is_empty() && t.chance(2, 3) {
                    Op::InsertVertex(absent[t.below(absent.len())])
                } else {
                    Op::InsertVertex(any(t))
                }
            }
            1 => {
                let live: Vec<usize> = m.v.iter().copied().collect();
                if live.is_empty() || t.chance(1, 5) {
                    Op::InsertEdge(any(t), any(t))
                } else {
                    let a = live[t.below(live.len())];
                    let b = if t.chance(1, 6) { a } else { live[t.below(live.len())] };
                    Op::InsertEdge(a, b)
                }
            }
            2 => {
                let live: Vec<usize> = m.v.iter().copied().collect();
                if !live.is_empty() && t.chance(3, 4) {
                    // prefer a vertex with edges on both sides
                    let busy: Vec<usize> = live.iter().copied().filter(|v| m.e.iter().any(|(a, _)| a == v) && m.e.iter().any(|(_, b)| b == v)).collect();
                    if !busy.is_empty() && t.chance(1, 2) {
                        Op::RemoveVertex(busy[t.below(busy.len())])
                    } else {
                        Op::RemoveVertex(live[t.below(live.len())])
                    }
                } else {
                    Op::RemoveVertex(any(t))
                }
            }
            3 => {
                let es: Vec<(usize, usize)> = m.e.iter().copied().collect();
                if !es.is_empty() && t.chance(3, 4) {
                    let (a, b) = es[t.below(es.len())];
                    if t.chance(1, 8) {
                        Op::RemoveEdge(b, a) // the reverse edge, usually absent
                    } else {
                        Op::RemoveEdge(a, b)
                    }
                } else {
                    Op::RemoveEdge(any(t), any(t))
                }
            }
            _ => Op::RemoveUnreachable(any(t)),
        };
        m.apply(&op);
        ops.push(op);
    }
    (init, ops)
}

fn sorted(mut v: Vec<usize>) -> Vec<usize> {
    v.sort();
    v
}

fn sorted2(mut v: Vec<(usize, usize)>) -> Vec<(usize, usize)> {
    v.sort();
    v
}

/// Compare every public view of the graph with the model.  `site` names the operation that ran
/// last (the defect site as seen from outside).
fn compare_views(g: &G, m: &Model, universe: &BTreeSet<usize>, site: &str, step: i64) -> Result<(), Failure> {
    macro_rules! bad {
        ($view:expr, $($arg:tt)*) => {
            return Err(Failure::new(format!("C11|edit|{}|view|{}", site, $view), format!("step {}: {}", step, format!($($arg)*))))
        };
    }
    let r = guard(|| -> Result<(), Failure> {
        let mv: Vec<usize> = m.v.iter().copied().collect();
        let me: Vec<(usize, usize)> = m.e.iter().copied().collect();
        let gv = sorted(g.vertices().iter().map(|v| v.index()).collect());
        if gv != mv {
            bad!("vertices", "vertices() = {:?}, model {:?}", gv, mv);
        }
        if g.num_vertices() != mv.len() {
            bad!("vertices", "num_vertices() = {}, model {}", g.num_vertices(), mv.len());
        }
        let ge = sorted2(g.edges().iter().map(|e| (e.head(), e.tail())).collect());
        if ge != me {
            bad!("edges", "edges() = {:?}, model {:?}", ge, me);
        }
        for &v in universe {
            let live = m.v.contains(&v);
            if g.has_vertex(v) != live {
                bad!("has_vertex", "has_vertex({}) = {}, model {}", v, !live, live);
            }
            let succ: Vec<usize> = m.e.iter().filter(|(a, _)| *a == v).map(|(_, b)| *b).collect();
            let pred: Vec<usize> = sorted(m.e.iter().filter(|(_, b)| *b == v).map(|(a, _)| *a).collect());
            if live {
                match g.vertex(v) {
                    Ok(x) if x.index() == v => {}
                    _ => bad!("vertex", "vertex({}) does not return the vertex", v),
                }
                match g.successor_indices(v) {
                    Ok(s) if sorted(s.clone()) == succ => {}
                    other => bad!("successors", "successor_indices({}) = {:?}, model {:?}", v, other.ok(), succ),
                }
                match g.successors(v) {
                    Ok(s) if sorted(s.iter().map(|x| x.index()).collect()) == succ => {}
                    other => bad!("successors", "successors({}) = {:?}, model {:?}", v, other.ok(), succ),
                }
                match g.predecessor_indices(v) {
                    Ok(s) if sorted(s.clone()) == pred => {}
                    other => bad!("predecessors", "predecessor_indices({}) = {:?}, model {:?}", v, other.ok(), pred),
                }
                match g.predecessors(v) {
                    Ok(s) if sorted(s.iter().map(|x| x.index()).collect()) == pred => {}
                    other => bad!("predecessors", "predecessors({}) = {:?}, model {:?}", v, other.ok(), pred),
                }
                let want_out: Vec<(usize, usize)> = succ.iter().map(|b| (v, *b)).collect();
                match g.edges_out(v) {
                    Ok(es) if sorted2(es.iter().map(|e| (e.head(), e.tail())).collect()) == want_out => {}
                    other => bad!("edges_out", "edges_out({}) = {:?}, model {:?}", v, other.ok(), want_out),
                }
                let want_in: Vec<(usize, usize)> = pred.iter().map(|a| (*a, v)).collect();
                match g.edges_in(v) {
                    Ok(es) if sorted2(es.iter().map(|e| (e.head(), e.tail())).collect()) == want_in => {}
                    other => bad!("edges_in", "edges_in({}) = {:?}, model {:?}", v, other.ok(), want_in),
                }
            } else {
                // an absent id is not a vertex in any view
                let answered = [
                    ("vertex", g.vertex(v).is_ok()),
                    ("successors", g.successors(v).is_ok()),
                    ("successor_indices", g.successor_indices(v).is_ok()),
                    ("predecessors", g.predecessors(v).is_ok()),
                    ("predecessor_indices", g.predecessor_indices(v).is_ok()),
                    ("edges_out", g.edges_out(v).is_ok()),
                    ("edges_in", g.edges_in(v).is_ok()),
                ];
                for (name, ok) in answered {
                    if ok {
                        bad!("absent-vertex-answered", "{}({}) returned Ok although {} is not a vertex", name, v, v);
                    }
                }
            }
            for &w in universe {
                let want = m.e.contains(&(v, w));
                if g.has_edge(v, w) != want {
                    bad!("has_edge", "has_edge({}, {}) = {}, model {}", v, w, !want, want);
                }
                let got = g.edge(v, w).map(|e| (e.head(), e.tail())).ok();
                if got != if want { Some((v, w)) } else { None } {
                    bad!("edge", "edge({}, {}) = {:?}, model has edge: {}", v, w, got, want);
                }
            }
        }
        let nop: Vec<usize> = m.v.iter().copied().filter(|v| !m.e.iter().any(|(_, b)| b == v)).collect();
        let got = sorted(g.vertices_without_predecessors().iter().map(|v| v.index()).collect());
        if got != nop {
            bad!("vertices_without_predecessors", "vertices_without_predecessors() = {:?}, model {:?}", got, nop);
        }
        let nos: Vec<usize> = m.v.iter().copied().filter(|v| !m.e.iter().any(|(a, _)| a == v)).collect();
        let got = sorted(g.vertices_without_successors().iter().map(|v| v.index()).collect());
        if got != nos {
            bad!("vertices_without_successors", "vertices_without_successors() = {:?}, model {:?}", got, nos);
        }
        Ok(())
    });
    match r {
        Ok(x) => x,
        Err(pi) => Err(Failure::new(format!("C11|edit|{}|view|panic", site), format!("step {}: a view panicked: {} ({}:{})", step, pi.msg, pi.file, pi.line))),
    }
}

pub fn check_hist(init: &GraphSpec, ops: &[Op], obs: &mut Obs) -> Result<(), Failure> {
    obs.class("history");
    let mut g: G = match guard(|| init.build()) {
        Ok(Ok(g)) => g,
        Ok(Err(e)) => fv::fail!("C11|edit|build|err", "building the initial graph failed: {}", e),
        Err(pi) => fv::fail!("C11|edit|build|panic", "building the initial graph panicked: {}", pi.msg),
    };
    let mut m = Model::of(init);
    let mut universe: BTreeSet<usize> = init.vertices.iter().copied().collect();
    for op in ops {
        match *op {
            Op::InsertVertex(v) | Op::RemoveVertex(v) | Op::RemoveUnreachable(v) => {
                universe.insert(v);
            }
            Op::InsertEdge(a, b) | Op::RemoveEdge(a, b) => {
                universe.insert(a);
                universe.insert(b);
            }
        }
    }
    universe.insert(4242); // never inserted by the generator
    compare_views(&g, &m, &universe, "build", -1)?;

    let (mut accepted, mut rejected, mut busy_removals, mut sweeps) = (0usize, 0usize, 0usize, 0usize);
    let mut kinds: BTreeSet<(&'static str, bool)> = BTreeSet::new();
    for (step, op) in ops.iter().enumerate() {
        let had_both = match *op {
            Op::RemoveVertex(v) => m.e.iter().any(|(a, b)| *a == v && *b != v) && m.e.iter().any(|(a, b)| *b == v && *a != v),
            _ => false,
        };
        let (legal, edges_gone) = m.apply(op);
        let res = guard(|| match *op {
            Op::InsertVertex(v) => g.insert_vertex(NullVertex::new(v)).map_err(|e| e.to_string()),
            Op::InsertEdge(a, b) => g.insert_edge(NullEdge::new(a, b)).map_err(|e| e.to_string()),
            Op::RemoveVertex(v) => g.remove_vertex(v).map_err(|e| e.to_string()),
            Op::RemoveEdge(a, b) => g.remove_edge(a, b).map_err(|e| e.to_string()),
            Op::RemoveUnreachable(h) => g.remove_unreachable_vertices(h).map_err(|e| e.to_string()),
        });
        let kind = op.kind();
        match res {
            Err(pi) => fv::fail!(format!("C11|edit|{}|panic", kind), "step {}: {} panicked: {} ({}:{})", step, op.render(), pi.msg, pi.file, pi.line),
            Ok(Ok(())) if !legal => fv::fail!(format!("C11|edit|{}|invalid-accepted", kind), "step {}: {} returned Ok but the model says it must be rejected (duplicate / absent id)", step, op.render()),
            Ok(Err(e)) if legal => fv::fail!(format!("C11|edit|{}|valid-rejected", kind), "step {}: {} returned Err({}) but it is legal", step, op.render(), e),
            _ => {}
        }
        kinds.insert((kind, legal));
        if legal {
            accepted += 1;
            obs.class(&format!("ok-{}", kind));
            if had_both {
                busy_removals += 1;
                obs.class("remove-vertex-with-in-and-out-edges");
            }
            if matches!(op, Op::RemoveUnreachable(_)) && edges_gone > 0 {
                sweeps += 1;
                obs.class("sweep-removes-edges");
            }
        } else {
            rejected += 1;
            obs.class(&format!("rejected-{}", kind));
        }
        let site = if legal { kind.to_string() } else { format!("{}-rejected", kind) };
        compare_views(&g, &m, &universe, &site, step as i64)?;
    }
    obs.count("history-steps", ops.len() as u64);
    if accepted >= 4 && rejected >= 1 && busy_removals >= 1 {
        obs.class("nontrivial");
        obs.class("history-nontrivial");
        obs.nontrivial(&("hist", kinds, accepted.min(12), rejected.min(6), busy_removals.min(3), sweeps.min(2), m.v.len(), m.e.len()));
    }
    Ok(())
}
