//! C05 — lifting any bytes is total and yields well-formed, deterministic IL.
//!
//! Domain: 7 translators x 2 option settings x byte strings (uniform random, opcode-structured
//! x86 layouts, field-randomised fixed-width words, truncated strings) x load addresses.
//! Oracle: a validity predicate owned by the harness (sort rules re-derived from the enum, shape
//! of every per-instruction graph, guard determinism sampled with `Bv` under 64+ valuations).
//! A panic, an abort (worker death) or a hang is a violation of this property.

use falcon::il;
use falcon::translator::{self, BlockTranslationResult, Options, OptionsBuilder, Translator};
use fv::bv::Bv;
use fv::engine::{self, guard, Failure, Obs, Spec, Tier};
use fv::refil::{self, Scalars};
use fv::tape::{from_tape, Tape};
use serde::{Deserialize, Serialize};
use std::collections::{BTreeMap, BTreeSet};

const TRANSLATORS: [&str; 7] = ["x86", "amd64", "mips", "mipsel", "ppc", "aarch64", "aarch64eb"];

#[derive(Clone, Debug, Serialize, Deserialize)]
pub struct Case {
    pub translator: usize,
    pub unsupported_are_intrinsics: bool,
    pub address: u64,
    pub bytes: Vec<u8>,
    /// seed of the random guard valuations
    pub vseed: u64,
}

fn translator_of(i: usize) -> Box<dyn Translator> {
    match TRANSLATORS[i] {
        "x86" => Box::new(translator::x86::X86::new()),
        "amd64" => Box::new(translator::x86::Amd64::new()),
        "mips" => Box::new(translator::mips::Mips::new()),
        "mipsel" => Box::new(translator::mips::Mipsel::new()),
        "ppc" => Box::new(translator::ppc::Ppc::new()),
        "aarch64" => Box::new(translator::aarch64::AArch64::new()),
        _ => Box::new(translator::aarch64::AArch64Eb::new()),
    }
}

fn gen_address(t: &mut Tape, fixed_width: bool) -> u64 {
    let a = match t.below(9) {
        0 => 0x1000,
        1 => 0,
        2 => 0x4000_0000,
        3 => 0xffff_fff8,           // 2^32 - 8
        4 => 0x8000_0000_0000_0000, // 2^63
        5 => u64::MAX - 15 + t.below(16) as u64,
        6 => 0x7fff_ffff_ffff_fff0 + t.below(16) as u64,
        7 => 0xffff_ffff_0000_0000u64.wrapping_add(t.raw() as u64),
        _ => t.u64(),
    };
    if fixed_width && !t.chance(1, 8) {
        a & !3
    } else {
        a
    }
}

fn gen_x86_bytes(t: &mut Tape) -> Vec<u8> {
    match t.weighted(&[35, 40, 15, 10]) {
        0 => {
            // uniform
            let n = t.range(1, 20);
            (0..n).map(|_| t.raw() as u8).collect()
        }
        1 | 2 => {
            // prefixes* [REX] opcode [modrm [sib] [disp]] [imm]
            let two_byte = t.chance(1, 3);
            let mut v = Vec::new();
            const PFX: [u8; 11] = [0x66, 0x67, 0xF2, 0xF3, 0xF0, 0x2E, 0x36, 0x3E, 0x26, 0x64, 0x65];
            for _ in 0..t.weighted(&[50, 30, 12, 5, 3]) {
                v.push(PFX[t.below(PFX.len())]);
            }
            if t.chance(1, 3) {
                v.push(0x40 | t.below(16) as u8);
            }
            if two_byte {
                v.push(0x0F);
                if t.chance(1, 12) {
                    v.push([0x38u8, 0x3A][t.below(2)]);
                }
            }
            v.push(t.raw() as u8);
            let modrm = t.raw() as u8;
            v.push(modrm);
            let md = modrm >> 6;
            let rm = modrm & 7;
            if md != 3 && rm == 4 {
                v.push(t.raw() as u8);
            }
            let disp = match (md, rm) {
                (0, 5) => 4,
                (1, _) => 1,
                (2, _) => 4,
                _ => 0,
            };
            for _ in 0..disp {
                v.push(if t.chance(1, 2) { t.raw() as u8 } else { [0u8, 0xff, 0x7f, 0x80][t.below(4)] });
            }
            for _ in 0..t.below(9) {
                v.push(t.raw() as u8);
            }
            v
        }
        _ => {
            // several short instructions, possibly cut
            let n = t.range(2, 16);
            let mut v: Vec<u8> = (0..n).map(|_| t.raw() as u8).collect();
            if t.chance(1, 2) {
                // end on a control transfer
                v.push([0xC3u8, 0xEB, 0x74, 0xE8, 0xE9, 0xFF, 0xE2, 0xCD][t.below(8)]);
                for _ in 0..t.below(5) {
                    v.push(t.raw() as u8);
                }
            }
            v
        }
    }
}

/// one MIPS32 control transfer of every kind the lifter knows, with well-formed fixed fields
fn mips_transfer_word(t: &mut Tape) -> u32 {
    let rs = t.below(32) as u32;
    let rt = t.below(32) as u32;
    let rd = if t.chance(1, 2) { 31 } else { t.below(32) as u32 };
    let imm = match t.below(3) {
        0 => t.below(8) as u32,
        1 => 0xffff - t.below(8) as u32,
        _ => t.raw() & 0xffff,
    };
    match t.below(12) {
        0 => (4 << 26) | (rs << 21) | (rt << 16) | imm,  // beq (b when rs = rt = 0)
        1 => (5 << 26) | (rs << 21) | (rt << 16) | imm,  // bne
        2 => (6 << 26) | (rs << 21) | imm,               // blez
        3 => (7 << 26) | (rs << 21) | imm,               // bgtz
        4 => (1 << 26) | (rs << 21) | imm,               // bltz
        5 => (1 << 26) | (rs << 21) | (1 << 16) | imm,   // bgez
        6 => (1 << 26) | (rs << 21) | (16 << 16) | imm,  // bltzal
        7 => (1 << 26) | (rs << 21) | (17 << 16) | imm,  // bgezal (bal when rs = 0)
        8 => (2 << 26) | (t.raw() & 0x03ff_ffff),        // j
        9 => (3 << 26) | (t.raw() & 0x03ff_ffff),        // jal
        10 => (rs << 21) | 8,                            // jr
        _ => (rs << 21) | (rd << 11) | 9,                // jalr
    }
}

fn gen_word_bytes(t: &mut Tape, tr: usize) -> Vec<u8> {
    let big = matches!(TRANSLATORS[tr], "mips" | "ppc");
    let nwords = t.weighted(&[45, 30, 15, 10]) + 1;
    let mut v = Vec::new();
    // MIPS: a control transfer followed by its delay slot, which is another control transfer half of
    // the time (every pair of kinds), then the ordinary words
    if matches!(TRANSLATORS[tr], "mips" | "mipsel") && t.chance(1, 5) {
        let lead = t.below(3);
        let mut words: Vec<u32> = (0..lead).map(|_| if t.chance(1, 2) { 0 } else { 0x2400_0000 | (t.raw() & 0x03ff_ffff) }).collect();
        words.push(mips_transfer_word(t));
        words.push(if t.chance(1, 2) { mips_transfer_word(t) } else { t.raw() });
        for w in words {
            if big {
                v.extend_from_slice(&w.to_be_bytes());
            } else {
                v.extend_from_slice(&w.to_le_bytes());
            }
        }
    }
    for _ in 0..nwords {
        let mut w = t.raw();
        // exact well-known words (aliases that exist only for one field pattern, barriers, system
        // instructions): a uniformly random word never is one of them
        if t.chance(1, 12) {
            let golden: &[u32] = match TRANSLATORS[tr] {
                "mips" | "mipsel" => &[0x0000_0000, 0x03e0_0008, 0x0000_000c, 0x0000_000d, 0x0000_000f, 0x0320_f809, 0x7c03_e83b, 0x0000_0040, 0x0000_00c0, 0x1000_ffff, 0x0411_0001, 0x4200_0018, 0x0000_0034],
                "ppc" => &[0x6000_0000, 0x4e80_0020, 0x4e80_0420, 0x4e80_0421, 0x7c08_02a6, 0x7c08_03a6, 0x7c09_03a6, 0x4400_0002, 0x7c00_04ac, 0x4c00_012c, 0x7c20_04ac, 0x4800_0000, 0x4800_0001, 0x4200_0000, 0x7fe0_0008, 0x3800_0000, 0x7c00_0378],
                _ => &[0xd503_201f, 0xd65f_03c0, 0xd61f_0000, 0xd63f_0000, 0xd400_0001, 0xd420_0000, 0xd503_3fdf, 0xd503_3f9f, 0xd503_305f, 0xaa00_03e0, 0x9100_03fd, 0xd503_233f, 0xd503_23bf, 0x1400_0000, 0x9400_0000, 0xd69f_03e0],
            };
            w = golden[t.below(golden.len())];
            if big {
                v.extend_from_slice(&w.to_be_bytes());
            } else {
                v.extend_from_slice(&w.to_le_bytes());
            }
            continue;
        }
        match TRANSLATORS[tr] {
            "mips" | "mipsel" => {
                // make SPECIAL / REGIMM / SPECIAL2 / branches frequent so their sub-fields are swept
                match t.below(8) {
                    0 => w &= 0x03ff_ffff,                              // SPECIAL
                    1 => w = (w & 0x03ff_ffff) | 0x0400_0000,           // REGIMM
                    2 => w = (w & 0x03ff_ffff) | 0x7000_0000,           // SPECIAL2
                    3 => w = (w & 0x03ff_ffff) | ((t.below(8) as u32) << 26), // j/jal/beq/bne/blez/bgtz
                    4 => w = (w & 0x03ff_ffff) | 0x7c00_0000,           // SPECIAL3 (rdhwr ...)
                    _ => {}
                }
            }
            "ppc" => match t.below(7) {
                0 => w = (w & 0x03ff_ffff) | (31 << 26),
                1 => w = (w & 0x03ff_ffff) | (19 << 26),
                2 => w = (w & 0x03ff_ffff) | ((16 + t.below(3) as u32) << 26), // bc, sc, b
                3 => w = (w & 0x03ff_ffff) | ((20 + t.below(4) as u32) << 26), // rlwimi/rlwinm/rlwnm
                4 => w = 0x4180_0000 | (w & 0x001f_fffc) | if t.chance(3, 4) { 0x000a_0000 } else { w & 0x001f_0000 }, // bc 12,BI (BI=10 is the only lifted form)
                _ => {}
            },
            _ => match t.below(8) {
                // A64: steer to the classes the lifter knows
                0 => w = (w & 0x00ff_ffff) | ([0x0b, 0x2b, 0x4b, 0x6b, 0x8b, 0xab, 0xcb, 0xeb, 0x11, 0x31, 0x51, 0x71, 0x91, 0xb1, 0xd1, 0xf1][t.below(16)] << 24),
                1 => w = (w & 0x00ff_ffff) | ([0x38, 0x39, 0x78, 0x79, 0xb8, 0xb9, 0xf8, 0xf9, 0x3c, 0x3d, 0x7c, 0x7d, 0xbc, 0xbd, 0xfc, 0xfd][t.below(16)] << 24),
                2 => w = (w & 0x00ff_ffff) | ([0x28, 0x29, 0x68, 0x69, 0xa8, 0xa9, 0x2c, 0x2d, 0x6c, 0x6d, 0xac, 0xad][t.below(12)] << 24),
                3 => w = (w & 0x00ff_ffff) | ([0x18, 0x58, 0x98, 0xd8, 0x1c, 0x5c, 0x9c][t.below(7)] << 24), // literal loads
                4 => w = (w & 0x00ff_ffff) | ([0x14, 0x17, 0x94, 0x97, 0x54, 0x34, 0x35, 0xb4, 0xb5, 0x36, 0x37, 0xb6, 0xb7, 0xd6][t.below(14)] << 24),
                5 => w = (w & 0x00ff_ffff) | ([0x08, 0x48, 0x88, 0xc8, 0x19, 0x59, 0x99, 0xd9][t.below(8)] << 24),
                _ => {}
            },
        }
        if big {
            v.extend_from_slice(&w.to_be_bytes());
        } else {
            v.extend_from_slice(&w.to_le_bytes());
        }
    }
    // truncated strings: cut inside the last word
    if t.chance(1, 10) {
        let cut = t.range(1, 3);
        let n = v.len();
        v.truncate(n - cut);
    }
    v
}

fn decode(t: &mut Tape) -> Case {
    let translator = t.below(7);
    let fixed = translator >= 2;
    let bytes = if fixed { gen_word_bytes(t, translator) } else { gen_x86_bytes(t) };
    Case {
        translator,
        unsupported_are_intrinsics: t.chance(1, 2),
        // mostly one of the boundary addresses; sometimes such that the block ends within a few
        // bytes of the end of the address space
        address: if t.chance(1, 16) { 0u64.wrapping_sub(bytes.len() as u64 + t.below(6) as u64) } else { gen_address(t, fixed) },
        bytes,
        vseed: t.u64(),
    }
}

// ---------------------------------------------------------------------------------------------
// validity predicate

fn expr_ok(e: &il::Expression, what: &str) -> Result<usize, String> {
    refil::sort_of(e).map_err(|m| format!("{}: {}", what, m))
}

fn squeeze(name: &str) -> String {
    // register-number independent form of a scalar name: cr6-lt -> crN-lt, temp_0x1003 -> temp_N
    let mut out = String::new();
    let mut in_num = false;
    let lower = name.replace("0x", "");
    for ch in lower.chars() {
        if ch.is_ascii_hexdigit() && (ch.is_ascii_digit() || in_num) {
            if !in_num {
                out.push('N');
            }
            in_num = true;
        } else {
            in_num = false;
            out.push(ch);
        }
    }
    out
}

fn check_operation(op: &il::Operation) -> Result<(), (String, String)> {
    match op {
        il::Operation::Assign { dst, src } => {
            let w = expr_ok(src, "assign source").map_err(|m| ("expression-sort".to_string(), m))?;
            if dst.bits() == 0 || w != dst.bits() {
                return Err((format!("assign-width|{}", squeeze(dst.name())), format!("{} bits assigned to {}", w, dst.identifier())));
            }
        }
        il::Operation::Load { dst, index } => {
            let w = expr_ok(index, "load address").map_err(|m| ("expression-sort".to_string(), m))?;
            if dst.bits() == 0 || dst.bits() % 8 != 0 {
                return Err(("load-width".to_string(), format!("load into {}", dst.identifier())));
            }
            if w == 0 || w > 64 {
                return Err(("address-width".to_string(), format!("load address of {} bits", w)));
            }
        }
        il::Operation::Store { index, src } => {
            let w = expr_ok(index, "store address").map_err(|m| ("expression-sort".to_string(), m))?;
            let sw = expr_ok(src, "store source").map_err(|m| ("expression-sort".to_string(), m))?;
            if sw == 0 || sw % 8 != 0 {
                return Err(("store-width".to_string(), format!("store of {} bits", sw)));
            }
            if w == 0 || w > 64 {
                return Err(("address-width".to_string(), format!("store address of {} bits", w)));
            }
        }
        il::Operation::Branch { target } => {
            let w = expr_ok(target, "branch target").map_err(|m| ("expression-sort".to_string(), m))?;
            if w == 0 || w > 64 {
                return Err(("branch-width".to_string(), format!("branch target of {} bits", w)));
            }
        }
        il::Operation::Intrinsic { intrinsic } => {
            for e in intrinsic.arguments() {
                expr_ok(e, "intrinsic argument").map_err(|m| ("expression-sort".to_string(), m))?;
            }
            for e in intrinsic.read_expressions().unwrap_or(&[]) {
                expr_ok(e, "intrinsic read").map_err(|m| ("expression-sort".to_string(), m))?;
            }
            for e in intrinsic.written_expressions().unwrap_or(&[]) {
                expr_ok(e, "intrinsic written").map_err(|m| ("expression-sort".to_string(), m))?;
            }
        }
        il::Operation::Nop { .. } => {}
    }
    Ok(())
}

fn splitmix(x: &mut u64) -> u64 {
    *x = x.wrapping_add(0x9E37_79B9_7F4A_7C15);
    let mut z = *x;
    z = (z ^ (z >> 30)).wrapping_mul(0xBF58_476D_1CE4_E5B9);
    z = (z ^ (z >> 27)).wrapping_mul(0x94D0_49BB_1331_11EB);
    z ^ (z >> 31)
}

/// valuations of the scalars mentioned by a set of guards
fn valuations(guards: &[&il::Expression], seed: u64) -> Vec<Scalars> {
    let mut names: BTreeMap<String, usize> = BTreeMap::new();
    for g in guards {
        for s in g.scalars() {
            names.insert(s.name().to_string(), s.bits());
        }
    }
    let mut out: Vec<Scalars> = Vec::new();
    let all = |f: &dyn Fn(&str, usize) -> Bv| -> Scalars { names.iter().map(|(n, w)| (n.clone(), f(n, *w))).collect() };
    out.push(all(&|_, w| Bv::zero(w)));
    out.push(all(&|_, w| Bv::ones(w)));
    out.push(all(&|_, w| Bv::from_u64(1, w)));
    // one scalar non-zero at a time (one, ones, top bit)
    for (n, _) in names.iter().take(12) {
        out.push(all(&|m, w| if m == n { Bv::ones(w) } else { Bv::zero(w) }));
        out.push(all(&|m, w| if m == n { Bv::from_u64(1, w) } else { Bv::zero(w) }));
        out.push(all(&|m, w| if m == n { Bv::zero(w) } else { Bv::ones(w) }));
    }
    let mut x = seed;
    while out.len() < 64 {
        let mut v = Scalars::new();
        for (n, w) in &names {
            let r = splitmix(&mut x);
            let val = match r % 5 {
                0 => Bv::zero(*w),
                1 => Bv::ones(*w),
                2 => Bv::from_u64(splitmix(&mut x) % 4, *w),
                _ => {
                    let mut b = num_bigint::BigUint::from(0u32);
                    for _ in 0..w.div_ceil(64) {
                        b = (b << 64) | num_bigint::BigUint::from(splitmix(&mut x));
                    }
                    Bv::new(b, *w)
                }
            };
            v.insert(n.clone(), val);
        }
        out.push(v);
        if names.is_empty() {
            break;
        }
    }
    out
}

/// exactly one guard enabled under every valuation; returns (valuations evaluated, skipped)
fn deterministic(guards: &[Option<&il::Expression>], seed: u64) -> Result<(u64, u64), String> {
    if guards.is_empty() {
        return Ok((0, 0));
    }
    let conds: Vec<&il::Expression> = guards.iter().filter_map(|g| *g).collect();
    let vals = valuations(&conds, seed);
    let mut evaluated = 0;
    let mut skipped = 0;
    'val: for v in &vals {
        let mut enabled = 0;
        for g in guards {
            match g {
                None => enabled += 1,
                Some(c) => match refil::eval(c, v) {
                    Ok(b) => {
                        if b.w != 1 {
                            return Err(format!("guard {} is {} bits wide", c, b.w));
                        }
                        if b.is_one() {
                            enabled += 1;
                        }
                    }
                    Err(refil::Fault::DivZero) => {
                        skipped += 1;
                        continue 'val;
                    }
                    Err(f) => return Err(format!("guard {} does not evaluate: {:?}", c, f)),
                },
            }
        }
        evaluated += 1;
        if enabled != 1 {
            let shown: Vec<String> = guards.iter().map(|g| g.map(|c| c.to_string()).unwrap_or_else(|| "<unconditional>".into())).collect();
            return Err(format!("{} of the guards {:?} are enabled under {:?}", enabled, shown, v));
        }
    }
    Ok((evaluated, skipped))
}

fn shape(guards: &[Option<&il::Expression>]) -> String {
    let mut v: Vec<&str> = guards.iter().map(|g| if g.is_some() { "cond" } else { "uncond" }).collect();
    v.sort();
    v.join(",")
}

struct Stats {
    graphs: usize,
    conditional: bool,
    intrinsic: bool,
    guard_sets: u64,
    valuations: u64,
}

fn validate(r: &BlockTranslationResult, vseed: u64, word_bits: usize) -> Result<Stats, (String, String)> {
    let mut st = Stats { graphs: 0, conditional: false, intrinsic: false, guard_sets: 0, valuations: 0 };
    for (addr, cfg) in r.instructions() {
        st.graphs += 1;
        let at = |m: String| format!("instruction graph @0x{:x}: {}", addr, m);
        let (Some(entry), Some(exit)) = (cfg.entry(), cfg.exit()) else {
            return Err(("graph|no-entry-or-exit".into(), at(format!("entry {:?} exit {:?}", cfg.entry(), cfg.exit()))));
        };
        if cfg.block(entry).is_err() || cfg.block(exit).is_err() {
            return Err(("graph|entry-or-exit-missing-block".into(), at(format!("entry {} / exit {} is not a block", entry, exit))));
        }
        let blocks: BTreeSet<usize> = cfg.blocks().iter().map(|b| b.index()).collect();
        let mut succ: BTreeMap<usize, Vec<usize>> = BTreeMap::new();
        for e in cfg.edges() {
            if !blocks.contains(&e.head()) || !blocks.contains(&e.tail()) {
                return Err(("graph|edge-to-missing-block".into(), at(format!("edge {}->{}", e.head(), e.tail()))));
            }
            succ.entry(e.head()).or_default().push(e.tail());
            if let Some(c) = e.condition() {
                st.conditional = true;
                match refil::sort_of(c) {
                    Ok(1) => {}
                    Ok(w) => return Err(("guard-width".into(), at(format!("edge guard {} has {} bits", c, w)))),
                    Err(m) => return Err(("expression-sort|guard".into(), at(m))),
                }
            }
        }
        // exit reachable from entry
        let mut seen = BTreeSet::new();
        let mut stack = vec![entry];
        while let Some(b) = stack.pop() {
            if seen.insert(b) {
                stack.extend(succ.get(&b).cloned().unwrap_or_default());
            }
        }
        if !seen.contains(&exit) {
            return Err(("graph|exit-unreachable".into(), at(format!("exit {} not reachable from entry {}", exit, entry))));
        }
        for b in cfg.blocks() {
            for i in b.instructions() {
                if i.operation().is_intrinsic() {
                    st.intrinsic = true;
                }
                if let Err((k, m)) = check_operation(i.operation()) {
                    return Err((k, at(format!("{}: {}", i.operation(), m))));
                }
                // the width a memory access requires of its address is the machine's address width
                // (the lifters widen narrower effective addresses, e.g. under 67h, to it)
                if let il::Operation::Load { index, .. } | il::Operation::Store { index, .. } = i.operation() {
                    if index.bits() != word_bits {
                        return Err(("address-width|not-the-machine-word".to_string(), at(format!("{}: address of {} bits on a {}-bit machine", i.operation(), index.bits(), word_bits))));
                    }
                }
            }
            let outs: Vec<Option<&il::Expression>> = cfg.edges_out(b.index()).map(|v| v.iter().map(|e| e.condition()).collect()).unwrap_or_default();
            if !outs.is_empty() {
                st.guard_sets += 1;
                match deterministic(&outs, vseed) {
                    Ok((n, _)) => st.valuations += n,
                    Err(m) => return Err((format!("edge-determinism|{}", shape(&outs)), at(format!("block {}: {}", b.index(), m)))),
                }
            }
        }
    }
    // successors of the lifted block
    for (_, c) in r.successors() {
        if let Some(c) = c {
            st.conditional = true;
            match refil::sort_of(c) {
                Ok(1) => {}
                Ok(w) => return Err(("guard-width|successor".into(), format!("successor guard {} has {} bits", c, w))),
                Err(m) => return Err(("expression-sort|successor".into(), m)),
            }
        }
    }
    let outs: Vec<Option<&il::Expression>> = r.successors().iter().map(|(_, c)| c.as_ref()).collect();
    if !outs.is_empty() {
        st.guard_sets += 1;
        match deterministic(&outs, vseed) {
            Ok((n, _)) => st.valuations += n,
            Err(m) => return Err((format!("successor-determinism|{}", shape(&outs)), format!("successors {:x?}: {}", r.successors().iter().map(|s| s.0).collect::<Vec<_>>(), m))),
        }
    }
    Ok(st)
}

/// coarse opcode class for signatures and the distinct key
fn opclass(c: &Case) -> String {
    let b = &c.bytes;
    match TRANSLATORS[c.translator] {
        "x86" | "amd64" => {
            let is64 = c.translator == 1;
            let mut i = 0;
            while i < b.len() && (matches!(b[i], 0x66 | 0x67 | 0xF2 | 0xF3 | 0xF0 | 0x2E | 0x36 | 0x3E | 0x26 | 0x64 | 0x65) || (is64 && b[i] & 0xF0 == 0x40)) {
                i += 1;
            }
            match (b.get(i), b.get(i + 1)) {
                (Some(0x0F), Some(x)) => format!("0f{:02x}", x),
                (Some(x), _) => format!("{:02x}", x),
                _ => "prefix-only".into(),
            }
        }
        name => {
            if b.len() < 4 {
                return "short".into();
            }
            let w = if matches!(name, "mips" | "ppc") { u32::from_be_bytes([b[0], b[1], b[2], b[3]]) } else { u32::from_le_bytes([b[0], b[1], b[2], b[3]]) };
            match name {
                "mips" | "mipsel" => {
                    let op = w >> 26;
                    match op {
                        0 | 0x1c | 0x1f => format!("op{:02x}.{:02x}", op, w & 0x3f),
                        1 => format!("op01.{:02x}", (w >> 16) & 0x1f),
                        _ => format!("op{:02x}", op),
                    }
                }
                "ppc" => {
                    let op = w >> 26;
                    match op {
                        31 | 19 => format!("op{}.{}", op, (w >> 1) & 0x3ff),
                        _ => format!("op{}", op),
                    }
                }
                _ => format!("a64.{:02x}", w >> 24),
            }
        }
    }
}

fn addr_class(a: u64) -> &'static str {
    if a >= u64::MAX - 64 {
        "addr-top"
    } else if a >= 0x7fff_ffff_ffff_ff00 && a < 0x8000_0000_0000_0100 {
        "addr-2^63"
    } else if a >= 0xffff_ff00 && a <= 0x1_0000_0100 {
        "addr-2^32"
    } else {
        "addr-ordinary"
    }
}

pub fn check(case: &Case, obs: &mut Obs) -> Result<(), Failure> {
    let name = TRANSLATORS[case.translator];
    let fam = match name {
        "mips" | "mipsel" => "mips",
        "aarch64" | "aarch64eb" => "aarch64",
        "x86" | "amd64" => "x86",
        x => x,
    };
    let tr = translator_of(case.translator);
    let options: Options = OptionsBuilder::new().unsupported_are_intrinsics(case.unsupported_are_intrinsics).build();
    obs.class(name);
    obs.class(addr_class(case.address));
    let r = match guard(|| tr.translate_block(&case.bytes, case.address, &options)) {
        Ok(r) => r,
        Err(pi) => {
            // signature: translator family + source file + squeezed message (+ address class when the
            // address arithmetic is what overflowed)
            let ovf = pi.msg.contains("attempt to add with overflow") && addr_class(case.address) == "addr-top";
            fv::fail!(
                if ovf { format!("C05|{}|panic|address-arithmetic-overflow|addr-top", fam) } else { format!("C05|{}|{}", fam, pi.sig()) },
                "{} translate_block({:02x?}, 0x{:x}, unsupported_are_intrinsics={}) panicked: {} ({}:{})",
                name, case.bytes, case.address, case.unsupported_are_intrinsics, pi.msg, pi.file, pi.line
            )
        }
    };
    // "deterministic": the result is a function of (translator, bytes, address, options), not of
    // what was lifted before on this thread.  One case in four is lifted a second time - for the
    // two x86 translators after the OTHER one has lifted the same bytes - and must come out the same.
    if case.vseed % 4 == 0 {
        let sibling = match name {
            "x86" => Some("amd64"),
            "amd64" => Some("x86"),
            "mips" => Some("mipsel"),
            "mipsel" => Some("mips"),
            "aarch64" => Some("aarch64eb"),
            "aarch64eb" => Some("aarch64"),
            _ => None,
        };
        if let Some(sib) = sibling {
            let other = translator_of(TRANSLATORS.iter().position(|t| *t == sib).unwrap());
            let _ = guard(|| other.translate_block(&case.bytes, case.address, &options));
            obs.class("relifted-after-the-sibling-translator");
        }
        // the second lift runs on this thread (after the sibling) or, one time in sixteen, on a thread
        // that has never lifted anything
        let fresh_thread = case.vseed % 64 == 0;
        if fresh_thread {
            obs.class("relifted-on-a-fresh-thread");
        }
        let relift = || {
            if fresh_thread {
                std::thread::scope(|sc| {
                    sc.spawn(|| {
                        let tr2 = translator_of(case.translator);
                        guard(|| tr2.translate_block(&case.bytes, case.address, &options))
                    })
                    .join()
                    .unwrap_or_else(|_| guard(|| panic!("the lifting thread died")))
                })
            } else {
                guard(|| tr.translate_block(&case.bytes, case.address, &options))
            }
        };
        if let Ok(again) = relift() {
            let same = match (&r, &again) {
                (Ok(a), Ok(b)) => a.address() == b.address() && a.length() == b.length() && a.successors() == b.successors() && a.instructions() == b.instructions(),
                (Err(_), Err(_)) => true,
                _ => false,
            };
            if !same {
                let show = |x: &Result<falcon::translator::BlockTranslationResult, falcon::Error>| match x {
                    Ok(b) => format!("{} instruction(s), {} byte(s), successors {:x?}", b.instructions().len(), b.length(), b.successors().iter().map(|s| s.0).collect::<Vec<_>>()),
                    Err(e) => format!("Err({})", e),
                };
                fv::fail!(
                    format!("C05|{}|not-a-function-of-its-input|{}", fam, if fresh_thread { "on-a-fresh-thread" } else if sibling.is_some() { "after-sibling-translator" } else { "repeated" }),
                    "{} translate_block({:02x?}, 0x{:x}) gave [{}] and, lifted again{}, [{}]",
                    name, case.bytes, case.address, show(&r), if fresh_thread { " on a thread that never lifted before".to_string() } else { sibling.map(|s| format!(" after {} lifted the same bytes", s)).unwrap_or_default() }, show(&again)
                );
            }
        }
    }
    let r = match r {
        Ok(r) => r,
        Err(_) => {
            obs.class(&format!("{}-err", name));
            return Ok(());
        }
    };
    obs.class(&format!("{}-ok", name));
    let word_bits = match name {
        "amd64" | "aarch64" | "aarch64eb" => 64,
        _ => 32,
    };
    match validate(&r, case.vseed, word_bits) {
        Ok(st) => {
            if st.conditional {
                obs.class(&format!("{}-conditional", name));
            }
            if st.intrinsic {
                obs.class(&format!("{}-intrinsic", name));
            }
            obs.count("guard_sets", st.guard_sets);
            obs.count("guard_valuations", st.valuations);
            obs.count("instruction_graphs", st.graphs as u64);
            if st.graphs >= 1 {
                obs.nontrivial(&(name, case.unsupported_are_intrinsics, opclass(case), st.graphs.min(4)));
            }
            if obs.want_sample() {
                obs.sample(format!("{} {:02x?} @0x{:x} intrinsics={} -> {} graphs, successors {:x?}", name, case.bytes, case.address, case.unsupported_are_intrinsics, st.graphs, r.successors().iter().map(|s| s.0).collect::<Vec<_>>()));
            }
            Ok(())
        }
        Err((kind, msg)) => Err(Failure::new(
            format!("C05|{}|{}", fam, kind),
            format!("{} translate_block({:02x?}, 0x{:x}, unsupported_are_intrinsics={}): {}", name, case.bytes, case.address, case.unsupported_are_intrinsics, msg),
        )),
    }
}

pub fn render(c: &Case) -> String {
    format!("{} bytes={:02x?} address=0x{:x} unsupported_are_intrinsics={} vseed={}", TRANSLATORS[c.translator], c.bytes, c.address, c.unsupported_are_intrinsics, c.vseed)
}

fn simplify(c: &Case) -> Vec<Case> {
    let mut v = Vec::new();
    let unit = if c.translator >= 2 { 4 } else { 1 };
    // drop trailing / leading units, zero the address, drop the option
    if c.bytes.len() > unit {
        let mut d = c.clone();
        d.bytes.truncate(c.bytes.len() - unit);
        v.push(d);
        let mut d = c.clone();
        d.bytes.drain(0..unit);
        v.push(d);
    }
    if c.address != 0x1000 {
        let mut d = c.clone();
        d.address = 0x1000;
        v.push(d);
    }
    if c.unsupported_are_intrinsics {
        let mut d = c.clone();
        d.unsupported_are_intrinsics = false;
        v.push(d);
    }
    for i in 0..c.bytes.len() {
        if c.bytes[i] != 0 {
            let mut d = c.clone();
            d.bytes[i] = 0;
            v.push(d);
        }
    }
    v
}

/// libFuzzer entry: byte 0 = translator (low 3 bits), policy (bit 3), address class (bits 4-7);
/// the rest are the bytes to lift.
pub fn fuzz_bytes(data: &[u8]) {
    if data.len() < 2 {
        return;
    }
    let h = data[0];
    let translator = (h & 7) as usize % 7;
    let address = match h >> 4 {
        0..=7 => 0x1000,
        8 => 0,
        9 => 0xffff_fff8,
        10 => 0x8000_0000_0000_0000,
        11 => u64::MAX - 7,
        12 => u64::MAX - 40,
        13 => 0x7fff_ffff_ffff_fff8,
        14 => 0x4000_0001,
        _ => 0xffff_ffff_0000_0000,
    };
    let mut bytes = data[1..].to_vec();
    bytes.truncate(32);
    let case = Case { translator, unsupported_are_intrinsics: h & 8 != 0, address, bytes, vseed: 0x1234_5678_9abc_def0 ^ (data.len() as u64) };
    engine::fuzz_one("C05", &case, &render, &check);
}

#[allow(dead_code)]
fn main() -> std::process::ExitCode {
    let mut spec = Spec::new(
        "C05",
        "7 translators x 2 unsupported-instruction policies x byte strings (uniform random; x86: prefix/REX/opcode/ModRM/SIB/disp/imm layouts incl. the 0F maps; fixed-width ISAs: 1-4 words with the primary-opcode field steered to every decoded class, truncated strings) x load addresses {ordinary, 0, 2^32-8, 2^63, top of the address space, random}; result must be Err or IL accepted by the harness' validity walker with exactly one enabled guard per block / successor list under >=64 valuations; non-trivial = Ok with >=1 instruction graph; distinct = (translator, policy, opcode class of the first instruction, number of graphs)",
        Box::new(|_t: Tier| from_tape(96, decode)),
        |t| t.pick(10_000_000, 300_000_000),
        check,
    );
    spec.render = render;
    spec.simplify = Some(simplify);
    spec.hang_is_violation = true;
    spec.case_timeout_s = 30;
    spec.crash_sig = |c: &Case| format!("C05|{}|{}", TRANSLATORS[c.translator], opclass(c));
    let mut floors: Vec<(&'static str, f64)> = Vec::new();
    for (ok, err, cond) in [
        ("x86-ok", "x86-err", "x86-conditional"),
        ("amd64-ok", "amd64-err", "amd64-conditional"),
        ("mips-ok", "mips-err", "mips-conditional"),
        ("mipsel-ok", "mipsel-err", "mipsel-conditional"),
        ("ppc-ok", "ppc-err", "ppc-conditional"),
        ("aarch64-ok", "aarch64-err", "aarch64-conditional"),
        ("aarch64eb-ok", "aarch64eb-err", "aarch64eb-conditional"),
    ] {
        floors.push((ok, if ok == "ppc-ok" { 0.004 } else { 0.01 }));
        floors.push((err, 0.005));
        // the PPC lifter has no reachable conditional-branch form (capstone reports bc 12,x as beq,
        // which the dispatcher does not know): no floor there
        if cond != "ppc-conditional" {
            floors.push((cond, 0.001));
        }
    }
    floors.push(("addr-top", 0.05));
    floors.push(("relifted-after-the-sibling-translator", 0.10));
    floors.push(("relifted-on-a-fresh-thread", 0.008));
    spec.floors = floors;
    spec.assumptions = vec![
        "guard determinism is sampled (all-zero, all-ones, per-scalar one-hot patterns and random valuations, 64 per guard set), not proved".into(),
        "no rule 'address width = pointer width' is imposed: addresses and branch targets must be 1..=64 bits".into(),
        "a hang is judged in CPU seconds of the worker (30 s without finishing a case that normally takes microseconds)".into(),
    ];
    engine::main(spec)
}
